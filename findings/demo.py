"""Demonstrations of the genuine defects found by the static rules (run by hand
while triaging; NOT part of any registered check).  Usage:
    /venv/bin/python findings/demo.py            # all
    /venv/bin/python findings/demo.py F4 F9      # some
Each demo prints DEFECT or ok."""
import pickle, sys, threading, types, warnings
warnings.simplefilter("ignore")
import labrea
from labrea import Option, dataset, cached, case, Iter, Map, WithOptions, abstractdataset, interface, datasetclass
from labrea import functions as F
from labrea import runtime
from labrea.runtime import Request, Runtime, handle, current_runtime

def F1():
    class R(Request):
        def __init__(self): self.options = {}
    rt = handle(R, lambda r: "h")
    before = current_runtime()
    with rt:
        with rt:
            pass
    try:
        return current_runtime() is not before and "after nested re-entry current_runtime() is %r" % (runtime._RUNTIMES.get(threading.current_thread()),)
    except Exception as e:
        return repr(e)

def F1b():
    out = {}
    def work():
        try:
            with Runtime():
                pass
            Option("A", 1)({})
            out["r"] = False
        except Exception as e:
            out["r"] = "fresh thread: with Runtime(): pass; then a request -> %r" % (e,)
    t = threading.Thread(target=work); t.start(); t.join()
    return out["r"]

def F2():
    current_runtime()
    class Late(Request):
        def __init__(self): self.options = {}
    @Late.handle
    def _h(r): return "late"
    try:
        return Late().run() != "late"
    except TypeError as e:
        return "default registered after the runtime was created: %r" % (e,)

def F3():
    @interface("D")
    class I:
        a: int
        b: int
    try:
        @I.implementation("BAD")
        class Bad:
            a = 1
    except TypeError:
        pass
    lk = I.a.overloads.lookup
    return bool(lk) and "rejected implementation left %r registered on I.a" % (dict(lk),)

def F4():
    @dataset(callback=lambda x: x + 1000)
    def ds(a=Option("A"), b=Option("B", 0)):
        return a + b
    v = ds.with_options({"B": 5})({"A": 1})
    return v != 1006 and "with_options dropped the callback: got %r, expected 1006" % v

def F5():
    @datasetclass
    class DC:
        x: int = Option("S.X")
    return DC({"S": {"X": 1}}) == DC({"S": {"X": 2}}) and "instances built from different S.X compare equal; repr %r" % (DC({"S": {"X": 1}}),)

def F6():
    c = cached(case(Option("A")).when(F.lt(Option("T")), "low").otherwise("high"))
    a = c({"A": 5, "T": 10}); b = c({"A": 5, "T": 1})
    return b != "high" and "cached case returned %r for T=1 (uncached 'high')" % b

def F7():
    o = cached(Option("A", domain=F.is_in(Option("ALLOWED"))))
    o({"A": 1, "ALLOWED": [1]})
    try:
        v = o({"A": 1, "ALLOWED": [2]})
        return "cached Option returned %r although 1 is outside ALLOWED=[2]" % v
    except Exception:
        return False

def F8():
    o = cached(Option("A"))
    a = o({"A": ["{B}"], "B": 1}); b = o({"A": ["{B}"], "B": 2})
    return b != [2] and "cached Option('A') returned %r for B=2" % (b,)

def F9():
    @Option.namespace
    class PKG:
        A = Option("A", 1, domain=[1, 2])
    try:
        v = PKG.A({"PKG": {"A": 5}})
        return "namespaced option returned %r outside its domain [1, 2]" % v
    except Exception:
        return False

def F10():
    mod = types.ModuleType("f10mod"); sys.modules["f10mod"] = mod
    exec("from labrea import dataset, Option\n@dataset\ndef deco(a=Option('A')):\n    return a\n", mod.__dict__)
    try:
        pickle.loads(pickle.dumps(mod.deco)); return False
    except Exception as e:
        return "decorator-form dataset: %s" % (str(e)[:90],)

def F11():
    @Option.namespace
    class NS:
        A = 1
    try:
        pickle.loads(pickle.dumps(NS)); return False
    except RecursionError:
        return "unpickling a Namespace: RecursionError"

def F12():
    ci = cached(Iter(Option("A"), Option("B")))
    o = {"A": 1, "B": 2}
    a = list(ci(o)); b = list(ci(o))
    return a != b and "cached Iter: first %r, second %r" % (a, b)

def F13():
    c = cached(WithOptions(Option("S"), {"S": {"X": 1}}))
    a = c({"S": {"Y": 2}}); b = c({"S": {"Y": 3}})
    return a == b and "section key partly pre-set: both evaluations gave %r" % (a,)

def F14():
    v = None
    try:
        v = Option("A", default=5)({"A": "{B}"})
    except Exception:
        return False
    return "Option('A', default=5) under {'A': '{B}'} (B missing) returned the default %r although A is present" % (v,)

def F15():
    from labrea.template import Template
    from labrea.types import Value
    t = Template("{:p:}!", p=Value("{X}"))
    got = t({"X": "secret"})
    keys = t.keys({"X": "secret"})
    try:
        t.validate({})
        t({})
        return False
    except Exception as e:
        return (got == "secret!" and keys == set()) and "Template('{:p:}!', p=Value('{X}')): evaluate reads option X (%r), keys() == %r, validate({}) passes, evaluate({}) -> %s" % (got, keys, type(e).__name__)

def F16():
    runs = []
    @dataset
    def whole(section=Option("S")):
        runs.append(1)
        return dict(section)
    a = {"S": {"a": 1, "b": 2}}
    b = {"S": {"b": 2, "a": 1}}
    whole(a); whole(b)
    fa, fb = Option("S").fingerprint(a), Option("S").fingerprint(b)
    return (a == b and fa != fb) and "equal options %r / %r: fingerprints %r != %r, cached body ran %d times" % (a, b, fa, fb, len(runs))

if __name__ == "__main__":
    names = sys.argv[1:] or [n for n in sorted(globals()) if n[0] == "F" and n[1:].rstrip("b").isdigit()]
    for n in names:
        try:
            r = globals()[n]()
        except Exception as e:
            r = "demo raised %r" % (e,)
        print(n, "DEFECT: " + r if r else "ok")
