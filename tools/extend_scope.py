#!/usr/bin/env python3
"""extend_scope.py: add (property, rule, filter-substrings | None, sentence) entries to sa/registry.py PROPS.
A rule already in the property's list only gets its filter widened (filters are lists of substrings of obligation constructs)."""
import ast, re, sys, json
p = '/verif/sa/registry.py'
s = open(p).read()
spec = json.load(open(sys.argv[1]))          # [[prop, rule, [filters]|null, "sentence"], ...]
EXTRA = {}
for prop, rule, filt, sentence in spec:
    m = re.search(r'    "%s": _p\(\[([^\]]*)\]' % prop, s)
    lst = m.group(1)
    had = f'"{rule}"' in lst
    if not had:
        s = s[:m.start(1)] + lst + f', "{rule}"' + s[m.end(1):]
    m = re.search(r'    "%s": _p\(' % prop, s)
    nxt = re.search(r'\n    "C\d\d": _p\(|\n}\n', s[m.end():])
    blk_end = m.end() + nxt.start()
    blk = s[m.start():blk_end]
    fm = re.search(r'"%s": \[([^\]]*)\]' % rule, blk[blk.find('filters={'):]) if 'filters={' in blk else None
    if filt is not None:
        if fm:
            off = blk.find('filters={')
            cur = fm.group(1)
            add = ", ".join('"%s"' % f for f in filt if '"%s"' % f not in cur)
            if add:
                blk = blk[:off + fm.start(1)] + cur + ", " + add + blk[off + fm.end(1):]
        elif had:
            print(f"NOTE {prop} {rule}: rule already applied unfiltered; nothing to widen")
        elif 'filters={' in blk:
            blk = blk.replace('filters={', 'filters={"%s": %s, ' % (rule, json.dumps(filt)), 1)
        else:
            idx = blk.rstrip().rfind(')')
            blk = blk[:idx] + ',\n              filters={"%s": %s})' % (rule, json.dumps(filt)) + blk[idx + 1:]
    else:
        if fm and had:
            print(f"NOTE {prop} {rule}: has a filter; asked for unfiltered — left as is")
    s = s[:m.start()] + blk + s[blk_end:]
    if sentence:
        EXTRA.setdefault(prop, []).append(sentence)
tree = ast.parse(s)
props = [n.value for n in ast.walk(tree) if isinstance(n, ast.Assign) and getattr(n.targets[0], 'id', None) == "PROPS"][0]
edits = []
for k, v in zip(props.keys, props.values):
    if k.value in EXTRA:
        expl = v.args[1]
        edits.append((expl.end_lineno, expl.end_col_offset, " " + " ".join(EXTRA[k.value])))
lines = s.split("\n")
for ln, col, text in sorted(edits, reverse=True):
    b = lines[ln - 1].encode()
    assert b[col - 1:col] == b'"'
    lines[ln - 1] = (b[:col] + (' "' + text.replace('"', '\\"') + '"').encode() + b[col:]).decode()
s = "\n".join(lines)
ast.parse(s)
open(p, 'w').write(s)
print("ok")
