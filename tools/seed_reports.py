"""List every distinct report (rule, construct) the checks give for seeded changes, with the properties that see it.

    python3 tools/seed_reports.py C04-r9-1 ...
"""
import sys, os
sys.path.insert(0, os.path.join(os.path.dirname(__file__), ".."))
from concurrent.futures import ProcessPoolExecutor
from sa.seeded import run_seed

def main(names):
    with ProcessPoolExecutor(max_workers=16) as ex:
        for r in ex.map(run_seed, [(n, True) for n in names]):
            print("===", r["name"], r["meta"].get("property"), r["status"])
            inv = {}
            for p, xs in r.get("fired", {}).items():
                for x in xs:
                    inv.setdefault(x, []).append(p)
            for x, ps in inv.items():
                print("   ", ",".join(ps), "|", x[:230])
            for e in r.get("errors", []):
                print("    ERR", e[:200])

if __name__ == "__main__":
    main(sys.argv[1:])
