#!/usr/bin/env python3
"""keep_seed.py <worktree> <k> <name>: copy a confirmed sub-agent change into /verif/seeded/<name>/."""
import json, os, shutil, subprocess, sys
wt, k, name = sys.argv[1], sys.argv[2], sys.argv[3]
src = os.path.join(wt, "_out", k)
dst = os.path.join("/verif/seeded", name)
os.makedirs(dst, exist_ok=True)
shutil.copy(os.path.join(src, "patch.diff"), dst)
shutil.copy(os.path.join(src, "demo.py"), dst)
meta = json.load(open(os.path.join(src, "meta.json")))
r = subprocess.run(["/verif/tools/confirm_seed.sh", wt, src], capture_output=True, text=True)
meta["confirmed"] = r.stdout.strip().splitlines()[0] if r.stdout.strip() else "?"
meta["what_was_run"] = ("in a scratch git worktree of /repo: demo.py without the patch (exit 0), `git apply patch.diff`, the pinned pytest suite "
                        "(178 passed), demo.py with the patch (non-zero), `git checkout -- labrea`")
meta["origin"] = "independent sub-agent given only the property text"
json.dump(meta, open(os.path.join(dst, "meta.json"), "w"), indent=1)
print(name, meta["confirmed"], "ok" if r.returncode == 0 else "NOT CONFIRMED")
