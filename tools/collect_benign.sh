#!/bin/bash
# collect_benign.sh <prefix> <tag>: keeps every repaired PR (the seeded regression fixed, purpose kept) as benign/<PID>-<tag>-<k>
# after re-confirming in its scratch worktree: applies, 178 tests pass, the seed's demo exits 0 with it.
PFX=$1; TAG=$2
mkdir -p /verif/benign
for d in /tmp/wt/${PFX}[0-9][0-9]; do
  for k in 1 2 3; do
    o=$d/_out/$k
    [ -f "$o/fixed.diff" ] || continue
    pid=$(python3 -c "import json;print(json.load(open('$o/meta.json'))['property'])" 2>/dev/null)
    name="$pid-$TAG-$k"
    [ -d "/verif/benign/$name" ] && continue
    cd $d; git checkout -q -- labrea; git clean -fdq labrea
    if ! git apply "$o/fixed.diff" 2>/dev/null; then echo "$name NOAPPLY"; continue; fi
    res=$(PYTHONPATH=$d /venv/bin/python -m pytest -q -p no:cacheprovider -x 2>&1 | tail -1)
    PYTHONPATH=$d /venv/bin/python $o/demo.py >/dev/null 2>&1; demo=$?
    git checkout -q -- labrea; git clean -fdq labrea
    if echo "$res" | grep -q "^178 passed" && [ $demo -eq 0 ]; then
      mkdir -p /verif/benign/$name; cp $o/fixed.diff /verif/benign/$name/patch.diff; cp $o/fixed.json /verif/benign/$name/ 2>/dev/null
      python3 - "$o/meta.json" "/verif/benign/$name/meta.json" <<'PY'
import json,sys
m=json.load(open(sys.argv[1]))
json.dump({"seed": m.get("property"), "summary": m.get("summary"), "regression_lines": m.get("regression_lines"),
           "what_was_run": "in a scratch git worktree of /repo: `git apply patch.diff`, the pinned pytest suite (178 passed), the seed's demo.py (exit 0)"}, open(sys.argv[2],"w"), indent=1)
PY
      echo "$name ok"
    else echo "$name FAILED tests=[$res] demo=$demo"; fi
  done
done
ls /verif/benign | wc -l
