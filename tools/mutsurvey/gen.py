"""Automatic mutants of /repo/labrea: enumerate, keep those that pass the pinned suite (survivors)."""
import ast, copy, json, os, shutil, subprocess, sys, tempfile
from concurrent.futures import ProcessPoolExecutor

SRC = "/repo/labrea"
FILES = sorted(f for f in os.listdir(SRC) if f.endswith(".py") and f not in ("mypy.py", "__init__.py", "_version.py"))

def sites(tree):
    """yield (kind, path-to-node as list of (field, index)), description"""
    out = []
    def walk(node, path):
        for field, value in ast.iter_fields(node):
            if isinstance(value, list):
                for i, v in enumerate(value):
                    if isinstance(v, ast.AST):
                        visit(v, path + [(field, i)])
            elif isinstance(value, ast.AST):
                visit(value, path + [(field, None)])
    def visit(n, path):
        if isinstance(n, ast.stmt) and not isinstance(n, (ast.FunctionDef, ast.ClassDef, ast.Import, ast.ImportFrom, ast.Global, ast.Nonlocal, ast.Pass)) \
                and not (isinstance(n, ast.Expr) and isinstance(n.value, ast.Constant)) and len(path) > 1:
            out.append(("del-stmt", path))
        if isinstance(n, (ast.If, ast.IfExp, ast.While)):
            out.append(("neg-test", path))
        if isinstance(n, ast.BoolOp):
            out.append(("swap-boolop", path))
            out.append(("drop-bool-operand", path))
        if isinstance(n, ast.UnaryOp) and isinstance(n.op, ast.Not):
            out.append(("drop-not", path))
        if isinstance(n, ast.Compare) and len(n.ops) == 1 and isinstance(n.ops[0], (ast.Is, ast.IsNot, ast.In, ast.NotIn, ast.Eq, ast.NotEq)):
            out.append(("flip-cmp", path))
        if isinstance(n, ast.Return) and n.value is not None and not (isinstance(n.value, ast.Constant) and n.value.value is None):
            out.append(("ret-none", path))
        if isinstance(n, ast.Call) and len(n.args) >= 2 and not any(isinstance(a, ast.Starred) for a in n.args):
            out.append(("swap-args", path))
        if isinstance(n, ast.Call) and isinstance(n.func, ast.Attribute) and n.func.attr in ("keys", "explain", "validate", "evaluate"):
            out.append(("op-rename", path))
        if isinstance(n, ast.BinOp) and isinstance(n.op, ast.BitOr):
            out.append(("drop-union-left", path))
            out.append(("drop-union-right", path))
        if isinstance(n, ast.ExceptHandler) and n.type is not None:
            out.append(("widen-except", path))
        if isinstance(n, ast.Raise) and n.cause is not None:
            out.append(("drop-cause", path))
        if isinstance(n, ast.With):
            out.append(("drop-with", path))
        if isinstance(n, ast.Constant) and isinstance(n.value, bool):
            out.append(("flip-bool", path))
        if isinstance(n, ast.Call) and isinstance(n.func, ast.Name) and n.func.id == "deepcopy":
            out.append(("drop-deepcopy", path))
        walk(n, path)
    walk(tree, [])
    return out

def get(tree, path):
    n = tree
    for field, i in path:
        n = getattr(n, field)
        if i is not None:
            n = n[i]
    return n

def setnode(tree, path, new):
    parent = tree
    for field, i in path[:-1]:
        parent = getattr(parent, field)
        if i is not None:
            parent = parent[i]
    field, i = path[-1]
    if i is None:
        setattr(parent, field, new)
    else:
        lst = getattr(parent, field)
        if isinstance(new, list):
            lst[i:i + 1] = new
        else:
            lst[i] = new

def mutate(tree, kind, path):
    n = get(tree, path)
    if kind == "del-stmt":
        setnode(tree, path, ast.Pass())
    elif kind == "neg-test":
        n.test = ast.UnaryOp(op=ast.Not(), operand=n.test)
    elif kind == "swap-boolop":
        n.op = ast.Or() if isinstance(n.op, ast.And) else ast.And()
    elif kind == "drop-bool-operand":
        setnode(tree, path, n.values[0])
    elif kind == "drop-not":
        setnode(tree, path, n.operand)
    elif kind == "flip-cmp":
        m = {ast.Is: ast.IsNot, ast.IsNot: ast.Is, ast.In: ast.NotIn, ast.NotIn: ast.In, ast.Eq: ast.NotEq, ast.NotEq: ast.Eq}
        n.ops = [m[type(n.ops[0])]()]
    elif kind == "ret-none":
        n.value = ast.Constant(value=None)
    elif kind == "swap-args":
        n.args[0], n.args[1] = n.args[1], n.args[0]
    elif kind == "op-rename":
        order = ["keys", "explain", "validate", "evaluate"]
        n.func.attr = order[(order.index(n.func.attr) + 1) % 2] if n.func.attr in ("keys", "explain") else ("evaluate" if n.func.attr == "validate" else "validate")
    elif kind == "drop-union-left":
        setnode(tree, path, n.right)
    elif kind == "drop-union-right":
        setnode(tree, path, n.left)
    elif kind == "widen-except":
        n.type = ast.Name(id="Exception", ctx=ast.Load())
    elif kind == "drop-cause":
        n.cause = None
    elif kind == "drop-with":
        setnode(tree, path, n.body)
    elif kind == "flip-bool":
        n.value = not n.value
    elif kind == "drop-deepcopy":
        setnode(tree, path, n.args[0])
    ast.fix_missing_locations(tree)
    return tree

def enumerate_all():
    out = []
    for f in FILES:
        tree = ast.parse(open(os.path.join(SRC, f)).read())
        for kind, path in sites(tree):
            out.append((f, kind, path))
    return out

def work(chunk):
    wid, items = chunk
    root = tempfile.mkdtemp(prefix=f"mut{wid}-")
    shutil.copytree(SRC, root + "/labrea", ignore=shutil.ignore_patterns("__pycache__"))
    res = []
    for f, kind, path in items:
        p = os.path.join(root, "labrea", f)
        orig = open(os.path.join(SRC, f)).read()
        try:
            tree = ast.parse(orig)
            node = get(tree, path)
            line = getattr(node, "lineno", 0)
            new_src = ast.unparse(mutate(tree, kind, path)) + "\n"
            compile(new_src, p, "exec")
        except Exception as e:
            continue
        if new_src == ast.unparse(ast.parse(orig)) + "\n":
            continue
        open(p, "w").write(new_src)
        r = subprocess.run(["/venv/bin/python", "-m", "pytest", "-q", "-p", "no:cacheprovider", "-x", "/repo/tests"], cwd=root, env={**os.environ, "PYTHONPATH": root},
                           capture_output=True, text=True, timeout=120)
        ok = "178 passed" in r.stdout
        if ok:
            base = ast.unparse(ast.parse(orig)) + "\n"
            import difflib
            diff = "".join(difflib.unified_diff(base.splitlines(True), new_src.splitlines(True), f"a/labrea/{f}", f"b/labrea/{f}", n=2))
            res.append({"file": f, "kind": kind, "line": line, "diff": diff, "src": new_src})
        open(p, "w").write(orig)
    shutil.rmtree(root, ignore_errors=True)
    return res

if __name__ == "__main__":
    allm = enumerate_all()
    import random
    random.seed(1)
    print(len(allm), "mutation sites")
    N = 16
    chunks = [(i, allm[i::N]) for i in range(N)]
    with ProcessPoolExecutor(N) as ex:
        survivors = [x for r in ex.map(work, chunks) for x in r]
    print(len(survivors), "survivors")
    json.dump(survivors, open("/tmp/mut/survivors.json", "w"))
