import json, os, shutil, sys, tempfile
from concurrent.futures import ProcessPoolExecutor
sys.path.insert(0, "/verif")

def work(item):
    i, m = item
    tmp = tempfile.mkdtemp(prefix="sa-mut-")
    try:
        shutil.copytree("/repo/labrea", tmp + "/labrea", ignore=shutil.ignore_patterns("__pycache__"))
        open(f"{tmp}/labrea/{m['file']}", "w").write(m["src"])
        from sa.facts import Run
        from sa.model import AnalysisError, Repo
        from sa.registry import PROPS, RULES
        from sa.report import load_known, match_known
        run = Run(Repo(tmp), "quick")
        known = load_known()
        fired = {}
        errors = []
        for prop in sorted(PROPS):
            spec = PROPS[prop]
            for rid in spec["rules"]:
                try:
                    if rid not in run._rule_cache:
                        run._rule_cache[rid] = RULES[rid](run)
                    rr = run._rule_cache[rid]
                except AnalysisError as e:
                    errors.append(f"{rid}: {e}")
                    run._rule_cache[rid] = None
                    continue
                except Exception as e:
                    errors.append(f"{rid}: internal {e!r}")
                    run._rule_cache[rid] = None
                    continue
                if rr is None:
                    continue
                flt = spec.get("filters", {}).get(rid)
                for o in rr.obligations:
                    if o.ok or (flt and not any(s in o.construct for s in flt)):
                        continue
                    if match_known(prop, o, known) is not None:
                        continue
                    fired.setdefault(f"{o.rule} {o.construct}", []).append(prop)
        return i, {k: sorted(set(v)) for k, v in fired.items()}, sorted(set(errors))
    finally:
        shutil.rmtree(tmp, ignore_errors=True)

if __name__ == "__main__":
    s = json.load(open("/tmp/mut/survivors.json"))
    with ProcessPoolExecutor(16) as ex:
        res = list(ex.map(work, list(enumerate(s)), chunksize=4))
    out = []
    for i, fired, errors in res:
        m = dict(s[i]); m.pop("src")
        m["fired"] = fired; m["errors"] = errors
        out.append(m)
    json.dump(out, open("/tmp/mut/checked.json", "w"), indent=0)
    det = sum(1 for m in out if m["fired"])
    err = sum(1 for m in out if m["errors"] and not m["fired"])
    print(f"{det} detected, {err} analysis-error only, {len(out)-det-err} undetected of {len(out)}")
