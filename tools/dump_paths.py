"""Debug aid: dump interpreter paths of a function / node-class op, optionally on a
scratch copy of /repo's labrea package with a patch applied.

    python3 tools/dump_paths.py [--patch P] labrea.types._evaluate_request
    python3 tools/dump_paths.py [--patch P] Switch.evaluate [--unroll 2]
    python3 tools/dump_paths.py [--patch P] --rule R-EH         # failing obligations of one rule
"""
import os
import shutil
import subprocess
import sys
import tempfile

sys.path.insert(0, os.path.join(os.path.dirname(os.path.abspath(__file__)), ".."))

from sa.facts import Run  # noqa: E402
from sa.interp import Ctx, analyse_function, analyse_method  # noqa: E402
from sa.model import REPO, Repo  # noqa: E402


def main(argv):
    patch = None
    unroll = 1
    rule = None
    names = []
    i = 0
    while i < len(argv):
        if argv[i] == "--patch":
            patch = argv[i + 1]
            i += 2
        elif argv[i] == "--unroll":
            unroll = int(argv[i + 1])
            i += 2
        elif argv[i] == "--rule":
            rule = argv[i + 1]
            i += 2
        else:
            names.append(argv[i])
            i += 1
    tmp = None
    root = REPO
    if patch:
        if os.path.isdir(patch):
            patch = os.path.join(patch, "patch.diff")
        tmp = tempfile.mkdtemp(prefix="sa-dump-")
        shutil.copytree(os.path.join(REPO, "labrea"), os.path.join(tmp, "labrea"), ignore=shutil.ignore_patterns("__pycache__"))
        subprocess.run(["patch", "-p1", "-s", "-i", os.path.abspath(patch)], cwd=tmp, check=True)
        root = tmp
    try:
        repo = Repo(root)
        if rule:
            from sa.registry import RULES
            rr = RULES[rule](Run(repo, "quick"))
            for o in rr.obligations:
                if not o.ok or "--all" in names:
                    print(("ok  " if o.ok else "FAIL"), o.construct, "@", o.loc(), "—", o.detail[:300])
            print(len(rr.obligations), "obligations", rr.counts if hasattr(rr, "counts") else "")
            return
        for name in names:
            if "::" in name:
                c, mth = name.split("::")
                ci = repo.cls(c)
                ps = analyse_function(Ctx(repo, unroll=unroll), ci.module, ci.methods[mth])
            elif name.startswith("labrea."):
                fi = repo.func(name)
                ps = analyse_function(Ctx(repo, unroll=unroll), fi.module, fi.node)
            else:
                c, op = name.split(".")
                ps = analyse_method(Ctx(repo, unroll=unroll), repo.cls(c), op)
            print(f"== {name}: {len(ps)} paths")
            for p in ps:
                print(f"-- {p.status} ret={p.ret.key()[:200] if p.ret is not None else None} exc={p.exc}")
                for c in p.conds:
                    print("     cond", c[0], c[1], (c[2] or "")[:160])
                for e in p.events:
                    t = e.target.key()[:120] if e.target is not None else ""
                    print(f"     ev {e.kind} {e.op or ''} {e.text[:60] if e.text else ''} tgt={t} opt={getattr(e, 'opts', '')} guards={list(e.guards)} failed={e.failed} L{e.line}")
    finally:
        if tmp:
            shutil.rmtree(tmp, ignore_errors=True)


if __name__ == "__main__":
    main(sys.argv[1:])
