#!/bin/bash
# collect_seeds.sh <prefix>   e.g. M -> /tmp/wt/M01 … ; keeps every confirmed change as seeded/<PID>-<tag>-<k>
PFX=$1; TAG=$2
for d in /tmp/wt/${PFX}[0-9][0-9]; do
  [ -d "$d/_out" ] || continue
  for k in 1 2 3; do
    [ -f "$d/_out/$k/patch.diff" ] || continue
    pid=$(python3 -c "import json;print(json.load(open('$d/_out/$k/meta.json'))['property'])" 2>/dev/null)
    [ -n "$pid" ] || continue
    name="$pid-$TAG-$k"
    [ -d "/verif/seeded/$name" ] && continue
    /verif/tools/keep_seed.py "$d" "$k" "$name" | grep -v " ok$" && rm -rf "/verif/seeded/$name"
  done
done
ls /verif/seeded | grep -c -- "-$TAG-"
