#!/bin/bash
# confirm_seed.sh <worktree> <outdir>    e.g. /tmp/wt/C05 /tmp/wt/C05/_out/1
# Confirms in the given scratch worktree (never /repo): patch applies, the pinned
# suite passes with it, the demo fails with it and passes without it.
set -u
WT=$1; OUT=$2
cd "$WT" || exit 9
git checkout -q -- labrea 2>/dev/null
if ! git apply --check "$OUT/patch.diff" 2>/dev/null; then echo "RESULT patch-does-not-apply"; exit 1; fi
PYTHONPATH=$WT /venv/bin/python "$OUT/demo.py" >/tmp/confirm.$$.base 2>&1; base=$?
git apply "$OUT/patch.diff"
PYTHONPATH=$WT /venv/bin/python -m pytest -q -p no:cacheprovider -x >/tmp/confirm.$$.tests 2>&1; tests=$?
npass=$(grep -Eo '^[0-9]+ passed' /tmp/confirm.$$.tests | head -1)
PYTHONPATH=$WT /venv/bin/python "$OUT/demo.py" >/tmp/confirm.$$.mut 2>&1; mut=$?
git checkout -q -- labrea
echo "RESULT demo-without=$base tests-with=$tests ($npass) demo-with=$mut"
tail -2 /tmp/confirm.$$.mut | cut -c1-200
rm -f /tmp/confirm.$$.*
[ $base -eq 0 ] && [ $tests -eq 0 ] && [ $mut -ne 0 ] && [ "$npass" = "178 passed" ]
