import ast, sys
sys.argv=[sys.argv[0]]
exec(open('/tmp/auto/gen.py').read().split('PRIV = private_names()')[0].replace('run("A0','#run("A0'))

class CompToLoop(ast.NodeTransformer):
    """return <set/list/dict comprehension>  /  name = <comprehension>   ->  explicit loop filling a fresh container"""
    def _loop(self, comp, acc):
        if isinstance(comp, ast.SetComp):
            init = ast.Call(func=ast.Name(id="set", ctx=ast.Load()), args=[], keywords=[])
            add = ast.Expr(ast.Call(func=ast.Attribute(value=ast.Name(id=acc, ctx=ast.Load()), attr="add", ctx=ast.Load()), args=[comp.elt], keywords=[]))
        elif isinstance(comp, ast.ListComp):
            init = ast.List(elts=[], ctx=ast.Load())
            add = ast.Expr(ast.Call(func=ast.Attribute(value=ast.Name(id=acc, ctx=ast.Load()), attr="append", ctx=ast.Load()), args=[comp.elt], keywords=[]))
        else:
            init = ast.Dict(keys=[], values=[])
            add = ast.Assign(targets=[ast.Subscript(value=ast.Name(id=acc, ctx=ast.Load()), slice=comp.key, ctx=ast.Store())], value=comp.value)
        body = [add]
        for g in reversed(comp.generators):
            for c in reversed(g.ifs):
                body = [ast.If(test=c, body=body, orelse=[])]
            body = [ast.For(target=g.target, iter=g.iter, body=body, orelse=[])]
        return [ast.Assign(targets=[ast.Name(id=acc, ctx=ast.Store())], value=init)] + body
    def _block(self, stmts):
        out = []
        for s in stmts:
            s = self.visit(s)
            if isinstance(s, ast.Return) and isinstance(s.value, (ast.SetComp, ast.ListComp, ast.DictComp)):
                out += self._loop(s.value, "_acc") + [ast.Return(value=ast.Name(id="_acc", ctx=ast.Load()))]
            elif isinstance(s, ast.Assign) and len(s.targets) == 1 and isinstance(s.targets[0], ast.Name) and isinstance(s.value, (ast.SetComp, ast.ListComp, ast.DictComp)) \
                    and not any(isinstance(n, ast.Name) and n.id == s.targets[0].id for n in ast.walk(s.value)):
                out += self._loop(s.value, s.targets[0].id)
            else:
                out.append(s)
        return out
    def generic_visit(self, node):
        for field in ("body", "orelse", "finalbody"):
            v = getattr(node, field, None)
            if isinstance(v, list) and v and isinstance(v[0], ast.stmt):
                setattr(node, field, self._block(v))
        if isinstance(node, ast.Try):
            for h in node.handlers:
                h.body = self._block(h.body)
        return node

class LoopGuard(ast.NodeTransformer):
    """for x in xs: if c: continue; rest   ->   for x in xs: if not c: rest   (and the reverse for if c: body as whole loop body)"""
    def visit_For(self, node):
        self.generic_visit(node)
        b = node.body
        if len(b) >= 2 and isinstance(b[0], ast.If) and not b[0].orelse and len(b[0].body) == 1 and isinstance(b[0].body[0], ast.Continue) \
                and not any(isinstance(x, ast.Continue) for s in b[1:] for x in ast.walk(s)):
            node.body = [ast.If(test=ast.UnaryOp(op=ast.Not(), operand=b[0].test), body=b[1:], orelse=[])]
        elif len(b) == 1 and isinstance(b[0], ast.If) and not b[0].orelse:
            node.body = [ast.If(test=ast.UnaryOp(op=ast.Not(), operand=b[0].test), body=[ast.Continue()], orelse=[])] + b[0].body
        return node

#run("A7-comp-to-loop", CompToLoop)
#run("A8-loop-guard", LoopGuard)

PRIV = private_names()
exec(open('/tmp/auto/gen.py').read().split('PRIV = private_names()')[1].split('run("A6')[0])

class AllOf(ast.NodeTransformer):
    def visit(self, tree):
        for T in (CompToLoop, LoopGuard, NegateIf, DeMorgan, TempReturn, TestLocal, RenameLocals, RenamePrivate):
            tree = T().visit(tree)
            ast.fix_missing_locations(tree)
            tree = ast.parse(ast.unparse(tree))
        return tree
run("A9-all", AllOf)
