"""Generate whole-repo behaviour-preserving AST transformations of /repo/labrea as patches."""
import ast, os, shutil, subprocess, sys, copy

SRC = "/repo/labrea"

class NegateIf(ast.NodeTransformer):
    """if c: A else: B  ->  if not c: B else: A   (only when an else branch exists and is not an elif chain head)"""
    def visit_If(self, node):
        self.generic_visit(node)
        if node.orelse and not (len(node.orelse) == 1 and isinstance(node.orelse[0], ast.If)):
            return ast.If(test=ast.UnaryOp(op=ast.Not(), operand=node.test), body=node.orelse, orelse=node.body)
        return node
    def visit_IfExp(self, node):
        self.generic_visit(node)
        return ast.IfExp(test=ast.UnaryOp(op=ast.Not(), operand=node.test), body=node.orelse, orelse=node.body)

class TempReturn(ast.NodeTransformer):
    """return E -> _ret = E; return _ret   (not in lambdas/generators; E not a bare name/constant)"""
    def visit_FunctionDef(self, node):
        self.generic_visit(node)
        if any(isinstance(x, (ast.Yield, ast.YieldFrom)) for x in ast.walk(node)):
            return node
        class R(ast.NodeTransformer):
            def visit_FunctionDef(self, n): return n
            def visit_Lambda(self, n): return n
            def visit_Return(self, n):
                if n.value is None or isinstance(n.value, (ast.Name, ast.Constant)):
                    return n
                return [ast.Assign(targets=[ast.Name(id="_ret", ctx=ast.Store())], value=n.value), ast.Return(value=ast.Name(id="_ret", ctx=ast.Load()))]
        node.body = [R().visit(s) if not isinstance(s, ast.FunctionDef) else s for s in node.body]
        flat = []
        for s in node.body:
            flat.extend(s if isinstance(s, list) else [s])
        node.body = flat
        return node

class RenameLocals(ast.NodeTransformer):
    """rename every plain local variable of every function (not parameters, not names used in nested scopes)"""
    def visit_FunctionDef(self, node):
        self.generic_visit(node)
        params = {a.arg for a in node.args.posonlyargs + node.args.args + node.args.kwonlyargs}
        if node.args.vararg: params.add(node.args.vararg.arg)
        if node.args.kwarg: params.add(node.args.kwarg.arg)
        nested = set()
        for x in ast.walk(node):
            if x is not node and isinstance(x, (ast.FunctionDef, ast.Lambda, ast.ClassDef, ast.ListComp, ast.SetComp, ast.DictComp, ast.GeneratorExp)):
                for y in ast.walk(x):
                    if isinstance(y, ast.Name):
                        nested.add(y.id)
        declared = {n for x in ast.walk(node) if isinstance(x, (ast.Global, ast.Nonlocal)) for n in x.names}
        stores = set()
        class S(ast.NodeVisitor):
            def visit_FunctionDef(self, n):
                if n is node: self.generic_visit(n)
            def visit_Lambda(self, n): pass
            def visit_ClassDef(self, n): pass
            def visit_Name(self, n):
                if isinstance(n.ctx, ast.Store): stores.add(n.id)
        S().visit(node)
        targets = {n for n in stores if n not in params and n not in nested and n not in declared and not n.startswith("__")}
        class Rn(ast.NodeTransformer):
            def visit_FunctionDef(self, n):
                if n is node:
                    self.generic_visit(n)
                return n
            def visit_Lambda(self, n): return n
            def visit_ClassDef(self, n): return n
            def visit_Name(self, n):
                if n.id in targets:
                    return ast.copy_location(ast.Name(id=n.id + "_v", ctx=n.ctx), n)
                return n
        return Rn().visit(node)

def run(name, transformer_cls):
    out = f"/tmp/auto/{name}"
    shutil.rmtree(out, ignore_errors=True)
    os.makedirs(out + "/tree")
    shutil.copytree(SRC, out + "/tree/labrea", ignore=shutil.ignore_patterns("__pycache__"))
    for root, _, files in os.walk(out + "/tree/labrea"):
        for f in files:
            if not f.endswith(".py") or "mypy" in root or f == "mypy.py":
                continue
            p = os.path.join(root, f)
            src = open(p).read()
            tree = ast.parse(src)
            new = transformer_cls().visit(tree)
            ast.fix_missing_locations(new)
            open(p, "w").write(ast.unparse(new) + "\n")
    # baseline = unparse without transformation, so the diff shows only the transformation?  No: diff against /repo itself.
    r = subprocess.run(f"cd {out}/tree && diff -ruN -x __pycache__ /repo/labrea labrea | sed 's#^--- /repo/labrea#--- a/labrea#; s#^+++ labrea#+++ b/labrea#' > {out}/patch.diff; wc -l < {out}/patch.diff", shell=True, capture_output=True, text=True)
    t = subprocess.run(f"cd {out}/tree && PYTHONPATH={out}/tree /venv/bin/python -m pytest -q -p no:cacheprovider /repo/tests -x 2>&1 | tail -1", shell=True, capture_output=True, text=True)
    open(out + "/meta.json", "w").write('{"summary": "automatic whole-repo transformation: %s"}' % name)
    print(name, r.stdout.strip(), "lines;", t.stdout.strip())

class Identity(ast.NodeTransformer):
    pass



class DeMorgan(ast.NodeTransformer):
    """in boolean contexts (if / while / conditional-expression tests): a and b -> not (not a or not b);
    everywhere: x is not y -> not (x is y);  x not in y -> not (x in y)"""
    def _dm(self, t):
        if isinstance(t, ast.BoolOp):
            inv = ast.Or() if isinstance(t.op, ast.And) else ast.And()
            return ast.UnaryOp(op=ast.Not(), operand=ast.BoolOp(op=inv, values=[ast.UnaryOp(op=ast.Not(), operand=self._dm(v)) for v in t.values]))
        if isinstance(t, ast.UnaryOp) and isinstance(t.op, ast.Not):
            return ast.UnaryOp(op=ast.Not(), operand=self._dm(t.operand))
        return t
    def visit_If(self, node):
        self.generic_visit(node)
        node.test = self._dm(node.test)
        return node
    def visit_While(self, node):
        self.generic_visit(node)
        node.test = self._dm(node.test)
        return node
    def visit_IfExp(self, node):
        self.generic_visit(node)
        node.test = self._dm(node.test)
        return node
    def visit_Compare(self, node):
        self.generic_visit(node)
        if len(node.ops) == 1 and isinstance(node.ops[0], (ast.IsNot, ast.NotIn)):
            pos = ast.Is() if isinstance(node.ops[0], ast.IsNot) else ast.In()
            return ast.UnaryOp(op=ast.Not(), operand=ast.Compare(left=node.left, ops=[pos], comparators=node.comparators))
        return node


class TestLocal(ast.NodeTransformer):
    """if T: ...  ->  _c = T; if _c: ...   (statement ifs only, not elif heads)"""
    def _block(self, stmts):
        out = []
        for s in stmts:
            s = self.visit(s)
            if isinstance(s, ast.If) and not isinstance(s.test, ast.Name):
                out.append(ast.Assign(targets=[ast.Name(id="_c", ctx=ast.Store())], value=s.test))
                s.test = ast.Name(id="_c", ctx=ast.Load())
            out.append(s)
        return out
    def generic_visit(self, node):
        for field in ("body", "orelse", "finalbody"):
            v = getattr(node, field, None)
            if isinstance(v, list) and v and isinstance(v[0], ast.stmt):
                if field == "orelse" and isinstance(node, ast.If) and len(v) == 1 and isinstance(v[0], ast.If):
                    v[0] = self.visit(v[0])       # elif chain: keep
                    continue
                setattr(node, field, self._block(v))
        if isinstance(node, ast.Try):
            for h in node.handlers:
                h.body = self._block(h.body)
        return node


def private_names():
    names = set()
    for root, _, files in os.walk(SRC):
        for f in files:
            if f.endswith(".py") and f != "mypy.py":
                t = ast.parse(open(os.path.join(root, f)).read())
                for n in ast.walk(t):
                    if isinstance(n, (ast.FunctionDef, ast.ClassDef)) and n.name.startswith("_") and not n.name.startswith("__"):
                        names.add(n.name)
                    if isinstance(n, ast.Attribute) and isinstance(n.ctx, ast.Store) and n.attr.startswith("_") and not n.attr.startswith("__"):
                        names.add(n.attr)
                for st in t.body:
                    tg = None
                    if isinstance(st, ast.Assign) and isinstance(st.targets[0], ast.Name):
                        tg = st.targets[0].id
                    if isinstance(st, ast.AnnAssign) and isinstance(st.target, ast.Name):
                        tg = st.target.id
                    if tg and tg.startswith("_") and not tg.startswith("__"):
                        names.add(tg)
    # names the mypy plugin or reprs refer to by string stay
    strs = []
    for root, _, files in os.walk(SRC):
        for f in files:
            if f.endswith(".py"):
                for n in ast.walk(ast.parse(open(os.path.join(root, f)).read())):
                    if isinstance(n, ast.Constant) and isinstance(n.value, str):
                        strs.append(n.value)
    names = {n for n in names if not any(n in x and x != n for x in strs)}
    return {n for n in names if n not in ("_ImplDecoProto", "_identity", "_reduce", "_get", "_flatten", "_negate", "_ensure", "_call_method", "_into", "_abstractdataset", "_dataset")}

PRIV = private_names()

class RenamePrivate(ast.NodeTransformer):
    def visit_Name(self, n):
        if n.id in PRIV:
            n.id = "_q" + n.id
        return n
    def visit_Attribute(self, n):
        self.generic_visit(n)
        if n.attr in PRIV:
            n.attr = "_q" + n.attr
        return n
    def visit_FunctionDef(self, n):
        self.generic_visit(n)
        if n.name in PRIV:
            n.name = "_q" + n.name
        return n
    def visit_ClassDef(self, n):
        self.generic_visit(n)
        if n.name in PRIV:
            n.name = "_q" + n.name
        return n
    def visit_Constant(self, n):
        if isinstance(n.value, str) and n.value in PRIV:
            n.value = "_q" + n.value
        return n
    def visit_arg(self, n):
        if n.annotation is not None:
            n.annotation = self.visit(n.annotation)
        return n
    def visit_keyword(self, n):
        self.generic_visit(n)
        return n
    def visit_alias(self, n):
        if n.name in PRIV:
            n.name = "_q" + n.name
        if n.asname in PRIV:
            n.asname = "_q" + n.asname
        return n

run("A6-rename-private", RenamePrivate)
