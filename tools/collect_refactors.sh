#!/bin/bash
# collect_refactors.sh <prefix> <dest-dir> : every /tmp/wt/<prefix><n>/_out/<k>/patch.diff that applies to /repo's tree and passes the pinned
# suite there is kept as <dest-dir>/<prefix><n>-<k>/{patch.diff,meta.json}.  Run only after the agents have finished.
PFX=$1; DEST=$2
for d in /tmp/wt/${PFX}[0-9]*; do
  [ -d "$d/_out" ] || continue
  a=$(basename $d)
  for k in 1 2 3 4; do
    [ -f "$d/_out/$k/patch.diff" ] || continue
    name="$a-$k"
    [ -d "$DEST/$name" ] && continue
    tmp=$(mktemp -d /tmp/colref.XXXXXX)
    cp -r /repo/labrea /repo/tests $tmp/ 2>/dev/null
    [ -f /repo/setup.cfg ] && cp /repo/setup.cfg $tmp/; [ -f /repo/pyproject.toml ] && cp /repo/pyproject.toml $tmp/
    if ! (cd $tmp && patch -p1 -s < "$d/_out/$k/patch.diff" >/dev/null 2>&1); then echo "$name: patch does not apply"; rm -rf $tmp; continue; fi
    res=$(cd $tmp && PYTHONPATH=$tmp /venv/bin/python -m pytest -q -p no:cacheprovider -x tests 2>&1 | tail -1)
    rm -rf $tmp
    case "$res" in
      *"178 passed"*) mkdir -p "$DEST/$name"; cp "$d/_out/$k/patch.diff" "$DEST/$name/"; cp "$d/_out/$k/meta.json" "$DEST/$name/" 2>/dev/null; echo "$name: ok";;
      *) echo "$name: SUITE: $res";;
    esac
  done
done
