"""Debug aid: print facts.behaviour() of functions.   python3 tools/show_behaviour.py [--patch P] Class::method module.func ..."""
import os, shutil, subprocess, sys, tempfile
sys.path.insert(0, os.path.join(os.path.dirname(os.path.abspath(__file__)), ".."))
from sa.facts import behaviour
from sa.model import REPO, Repo
argv = sys.argv[1:]
root, tmp = REPO, None
if argv and argv[0] == "--patch":
    patch = argv[1] if not os.path.isdir(argv[1]) else os.path.join(argv[1], "patch.diff")
    argv = argv[2:]
    tmp = tempfile.mkdtemp(prefix="sa-beh-")
    shutil.copytree(os.path.join(REPO, "labrea"), os.path.join(tmp, "labrea"), ignore=shutil.ignore_patterns("__pycache__"))
    subprocess.run(["patch", "-p1", "-s", "-i", os.path.abspath(patch)], cwd=tmp, check=True)
    root = tmp
try:
    repo = Repo(root)
    for name in argv:
        if "::" in name:
            c, m = name.split("::")
            ci = repo.cls(c)
            b = behaviour(repo, ci.module, ci.methods[m], cls=ci)
        else:
            fi = repo.func(name)
            b = behaviour(repo, fi.module, fi.node)
        print("==", name)
        for line in b:
            print("   ", line)
finally:
    if tmp:
        shutil.rmtree(tmp, ignore_errors=True)
