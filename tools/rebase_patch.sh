#!/bin/bash
# rebase_patch.sh <dir-with-patch.diff> <old-base> <fix-commit>: re-express patch.diff (made against <old-base>) on top of <fix-commit>.
# Writes <dir>/patch.diff.new on success, prints CONFLICT and leaves the worktree at /tmp/rb/<name> otherwise.
set -u
d=$1; old=$2; fix=$3; n=$(basename $d)
wt=/tmp/rb/$n
mkdir -p /tmp/rb
git -C /repo worktree remove --force $wt >/dev/null 2>&1
git -C /repo worktree add -f --detach $wt $old -q || exit 2
cd $wt
git apply $d/patch.diff || { echo "$n: APPLY-FAILED on old base"; exit 2; }
git add -A; git -c user.name=x -c user.email=x@x commit -qm patch
if git -c user.name=x -c user.email=x@x cherry-pick $fix >/dev/null 2>&1; then
  git diff $fix HEAD > $d/patch.diff.new
  echo "$n: rebased"
  cd /; git -C /repo worktree remove --force $wt
else
  echo "$n: CONFLICT"
fi
