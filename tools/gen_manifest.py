"""Refresh the per-property fields of MANIFEST.json that are derived from sa/registry.py
(claimed level text, technique, level note).  Run after changing a property's rule list.

    python3 tools/gen_manifest.py
"""
import json
import os
import sys

HERE = os.path.dirname(os.path.abspath(__file__))
sys.path.insert(0, os.path.join(HERE, ".."))

from sa.registry import PROPS, RULES  # noqa: E402

path = os.path.join(HERE, "..", "MANIFEST.json")
m = json.load(open(path))
for c in m["checks"]:
    spec = PROPS[c["property_id"]]
    c["level_claimed"]["text"] = (
        "Static analysis of /repo's current source (never executed): " + spec["explanation"]
        + " These are necessary structural conditions of the property; the behavioural remainder is not decided: " + spec["undecided"] + ".")
    c["technique"] = ("static analysis: " + ", ".join(spec["rules"])
                      + " over the ast-resolved program (path-sensitive node-term interpreter with lock/with tracking, call graph, lambda normaliser, truth tables)")
    c["level_note"] = c["level_note"].split(" Undecided remainder:")[0] + " Undecided remainder: " + spec["undecided"] + "."
for e in m["engines"]:
    if e["name"] == "sa":
        e["kind_free_text"] = ("repository-specific static analyser: ast program model, path-sensitive op-propagation interpreter over node terms, "
                               f"trace rules, call-graph reachability, lockset, lambda normaliser; {len(RULES)} rules")
json.dump(m, open(path, "w"), indent=1)
print("MANIFEST.json refreshed:", len(m["checks"]), "checks,", len(RULES), "rules")
