#!/usr/bin/env python3
"""triage_benign.py <name>...: write benign/<name>/expected.json for the rules that report on a *correct* pull request, after the
reports have been read (this tool does not judge: it records, per rule, what the rule pins and therefore why a pull request that
replaces or extends that mechanism is reported, together with what the pull request does).  Entries already present are kept."""
import json, os, sys
sys.path.insert(0, '/verif')
from concurrent.futures import ProcessPoolExecutor
from sa import seeded as S

PINS = {
 "R-NK": "pins how a Namespace populates and re-keys its members (one prefix per member, written with Option.set); the PR changes what the namespace evaluates to",
 "R-VA": "compares the parts validate() covers with the parts evaluate() consults, path by path; the PR reaches the same parts through a new field / helper / node the comparison does not relate to the old ones",
 "R-MF": "pins the member enumeration of dataset classes (dir()+getattr, Evaluatable and not dunder) and what the instance records for repr/equality; the PR replaces or extends that mechanism",
 "R-KN": "requires every KeyNotFoundError the library constructs to name the key and the expression it was looked up for, in the forms the library uses; the PR constructs one in a new place / form",
 "R-MX": "pins how pre-set and caller options are combined (confectioner.mix with the winning side as ingredient) and that every operation hands the wrapped object the full mix; the PR adds a short cut or another way of combining that is equivalent only by an argument the rule does not decide",
 "R-OP": "pins the order in which collections are walked and gathered (Iter over the arguments, product over the iterables zipped with their keys); the PR restructures the classes the probe follows",
 "R-ON": "reports every copy()/deepcopy() of an object that may hold expressions (a copy of a dataset is another dataset sharing mutable parts); the PR copies deliberately and repairs the shared parts by hand",
 "R-TK": "pins Template's inspection (every placeholder delegated to Option(key), parameters asked for keys/explain, evaluate through resolve over options mixed with the parameters); the PR adds a fast path or a memo that is equivalent only by an argument the rule does not decide",
 "R-SO": "pins the one selector behind Coalesce / Switch / CaseWhen (validate, then the operation, last error re-raised); the PR changes what is raised or how members are tried",
 "R-GA": "reports attributes attached to expression classes from outside their body (they pre-empt Namespace.__getattr__); the PR attaches helpers and blocks them again for Namespace with a descriptor — an equivalence the rule does not decide",
 "R-OH": "reports reads of __name__/__qualname__ from values not known to be classes or named functions while a message is built; the value here is a class by a local computation the rule does not follow",
 "R-MP": "requires every value Option.evaluate returns to pass the type request and the domain check; the PR skips one of them on a path where it argues the check is redundant",
 "R-VO": "requires validate()/explain() to consult an optional part exactly where evaluate() may; the PR changes when the part is consulted",
 "R-OF": "requires every operation to hand its options on unchanged (only WithOptions mixes); the PR hands on a derived dictionary / adds a wrapper class that mixes in its own way",
 "R-KC": "compares the parts keys() asks with the parts evaluate() consults, path by path; the PR reaches parts through a new field, an early check or a flattened view that the comparison does not relate to the old ones",
 "R-DC": "pins Dataset.evaluate/validate as pure delegation to _composed and the layer order default-options > pre-set options > cached > calculation; the PR adds a step before the delegation or builds the layers differently",
 "R-EV": "reports evaluations performed during validate()/keys()/explain() other than those that choose a branch; the PR evaluates the dispatch once more for an early error",
 "R-OA": "requires inspection methods to pass a part the same options form as evaluate(); the PR changes the form on one side by intent",
 "R-EO": "pins evaluation order and result shape of the small evaluate/transform methods (effect after the body with its value; rest innermost, tail last; callback evaluated then applied; Value hands out a copy; __call__ inherited); the PR restructures the method",
 "R-CL": "reports anything a construction-time function may evaluate or call; the PR adds a method that runs at evaluation time but is reachable from a name the rule treats as construction",
 "R-MC": "pins MemoryCache (key is the fingerprint in get/set/exists, nothing drops entries, a miss is decided by the key); the PR re-keys the memo or adds discard/clear",
 "R-PK": "reports identity tests against module-level objects that pickling copies by value; the object here is pickled by reference (a module-level function), which the rule does not establish",
 "R-HD": "requires the default type-validation handler to accept every value; the PR ships a built-in check — that is its feature",
 "R-RG": "pins the registration loop of Implementation.__init__ (every member under every alias, the member itself, nothing registered before all checks passed); the PR restructures it into helpers the event order is read through differently",
 "R-KU": "requires part key sets to be combined by union only and no part's keys to decide which parts are asked; the PR's explain() takes another shape",
 "R-XA": "requires explain() to cover what keys() and validate() ask; the PR answers some members inline",
 "R-KW": "reports a function that keeps a keyword parameter of its own beside **kwargs (a user keyword of that name is captured)",
 "R-HO": "compares each documented helper step with the reference form of its semantics; the PR extends or restructures the helper (or the collection nodes its arguments are gathered by), so the term differs from the table",
 "R-VW": "requires Value(x) to be built only where x is known not to be an expression; the PR wraps a parameter declared Hashable",
 "R-EH": "pins the evaluate-request handler (nested EvaluationError re-wrapped with this source and chained) and that inspection operations raise EvaluationErrors only; the PR changes the wrapping or raises a cache failure from a new node",
 "R-SH": "pins the switches (what each handler / Computation does exactly when its LABREA.* option is set); the PR changes how the switch value is read or what the handler emits",
 "R-RE": "pins the per-thread, per-entry restore stack of Runtime.__enter__/__exit__; the PR keeps the state in another shape (run-length compressed re-entries)",
 "R-EX": "pins Runtime.__enter__ (installs self for the current thread, returns self) and what context managers return from __exit__; the PR restructures the entry",
 "R-HI": "reports library code that reads, keeps or enters a runtime of its own, and pins how handle() derives one; the PR does so on the user's request (a handlers= / quiet= parameter) or restructures the handler table",
 "R-GS": "reports module-level and per-thread state that survives the operation that wrote it; the PR adds a shared object by design",
 "R-TI": "requires every index of the thread table to be the current thread; the PR indexes it with another thread on the user's request (inherit(parent) defaulting to the main thread)",
 "R-CC": "reports an object built from two or more fields of another without the remaining fields the two kinds share; the PR builds the smaller object on purpose (a default-less switch over the dispatch and table of an Overloaded whose default is missing by construction)",
 "R-DF": "pins Runtime.run (own handler by type(request), then the default table at call time, else TypeError); the PR adds a re-entrancy rule or resolves defaults differently",
 "R-CP": "pins Cached (exists -> get -> compute -> set with one triple, get failures fall through) and the three cache handlers; the PR adds paths or forms the rule does not know",
 "R-PF": "reports a Dataset that takes over the name of a function it also keeps (pickle then finds the Dataset under the function's name); known finding F10 is the decorator form — the PR adds another site of the same kind",
 "R-ID": "pins the member kinds Interface.__init__ distinguishes and that every branch sets the dispatch; the PR adds a branch of its own",
 "R-PL": "reports pickling hooks on classes that hold nothing pickle refuses; the PR adds hooks on purpose",
 "R-PI": "pins Pipeline's structure (Identity tail and no rest means empty; + appends; __iter__ yields rest before tail); the PR short-cuts the test",
 "R-LM": "reports per-call result tables and look-alike de-duplication; the PR de-duplicates by identity in a form the rule does not recognise",
 "R-LK": "requires lift() to treat every parameter that can carry a default; the PR sets a kind apart and handles it separately",
 "R-FP": "pins the fingerprint (sorted keyed pairs, dotted look-up, json list); the PR adds a normalising step",
 "R-PO": "pins the present-only rule of keys() and the WithOptions filter; the PR decides presence or 'pre-set' by a helper whose atoms the rule does not recognise",
 "R-AB": "pins when an Option consults its default (absent key, default not MISSING); the PR decides presence through a helper",
 "R-FV": "requires presence of a key to be decided by KeyError / dotted_key_exists, never by the value; the PR decides it through a helper returning a pair",
 "R-L1": "pins what a log request carries (level, logger name, the message as it is, the options) and that there is exactly one per evaluation; the PR adds an opt-in way of formatting the message",
 "R-VM": "reports functions that change, in place, a value they did not create; the PR's helper fills an accumulator set handed in by its own caller (fresh there)",
 "R-LB": "pins the switch an Overloaded delegates to (built per use from the live dispatch, table and default); the PR gives an abstract one a stand-in default of its own",
 "R-RK": "pins which kinds of provided values are inspected for template references; the PR moves the look-up into a helper",
 "R-MC": "pins that MemoryCache addresses an entry by evaluatable.fingerprint(options) in get, set and exists; the PR computes the same bytes through a memoised fast path of its own (falling back to fingerprint() whenever that is overridden)",
 "R-PK": "reports identity tests against module-level objects that do not survive pickling; the PR compares a function object with the stock fingerprint function to detect overrides (functions are pickled by reference)",
 "R-GS": "reports module-level and per-thread state that survives the operation that wrote it; the PR keeps a per-thread memo of the current runtime by design and updates it wherever the table is written",
 "R-PL": "pins default instance pickling (no __slots__) and pickling hooks only where a lock is dropped; the PR adds __slots__ together with __getstate__/__setstate__ that reproduce the un-slotted state",
 "R-TK": "pins Template.evaluate (every returning path resolves the template against the options mixed with the parameters) and the per-key delegation; the PR adds a fast path for placeholder-free text that performs the same unescaping itself, and a memoised placeholder scan",
 "R-SO": "pins the selection helpers (one selector behind the four operations, first member that validates and succeeds); the PR gives evaluate a loop of its own that does the same",
 "R-SL": "reports operations applied to branches other than the selected one; the PR's own evaluate loop is not recognised as the selector",
 "R-CE": "pins the error records of the cache protocol",
 "R-CD": "pins the registered fall-through points (where an EvaluationError may be caught and the next alternative tried); the PR has one more place of the same kind (its own evaluate loop), or the analysis of the PR's recursive merge helper gives no verdict (path explosion, ANALYSIS-ERROR)",
 "R-EG": "pins that explain() guards the evaluation of a selector; on this PR the analysis gives no verdict (path explosion in the PR's recursive merge helper, ANALYSIS-ERROR)",
 "R-IS": "reports options-dependent state kept on expression objects; on this PR the analysis gives no verdict (path explosion, ANALYSIS-ERROR)",
 "R-WI": "compares which elements keys()/explain() consult with what evaluate() consults; on this PR the analysis gives no verdict (path explosion, ANALYSIS-ERROR)",
}

def summary(d):
    try:
        fj = json.load(open(os.path.join(d, "fixed.json")))
        rep = fj.get("repair", "")
    except Exception:
        rep = ""
    try:
        mj = json.load(open(os.path.join(d, "meta.json")))
        sm = mj.get("summary", "")
    except Exception:
        sm = ""
    return (sm[:260] + ("…" if len(sm) > 260 else "")), (rep[:220] + ("…" if len(rep) > 220 else ""))

names = sys.argv[1:]
with ProcessPoolExecutor(16) as ex:
    res = list(ex.map(S.run_refactor, [(n, '/verif/benign') for n in names]))
for n, r in zip(names, res):
    d = f"/verif/benign/{n}"
    rules = sorted({k.split(" ")[0] for k in r.get("fired", {})} | {e.split(":")[0] for e in r.get("errors", [])})
    if not rules:
        continue
    p = os.path.join(d, "expected.json")
    cur = json.load(open(p)) if os.path.exists(p) else {"_comment": "reports of the checks on this repaired pull request, triaged by hand: the PR replaces or extends the mechanism the rule is written for (a change of documented behaviour, or an equivalence the rule does not decide); anything not listed here counts as a false alarm", "rules": {}}
    sm, rep = summary(d)
    missing = [x for x in rules if x not in PINS]
    if missing:
        print(n, "NO TEXT FOR", missing)
    for rule in rules:
        if rule in cur["rules"] or rule not in PINS:
            continue
        cur["rules"][rule] = f"{rule} {PINS[rule]}. The pull request: {sm}" + (f" Repair of its regression: {rep}" if rep else "")
    json.dump(cur, open(p, "w"), indent=1)
    print(n, rules)
