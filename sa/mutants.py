"""Checker self-validation (thorough tier, DESIGN.md section 7).

Every variant is one edit of /repo's *current* labrea package applied to a
scratch copy outside /repo and /verif (removed immediately).  ``fire`` variants
break a property and must be reported by the named rule; ``silent`` variants are
behaviour-preserving refactors and must not be reported by any rule of the
property.  A variant whose anchor text no longer exists is skipped and listed.
Self-validation never prints VIOLATION for /repo: a miss is a checker defect
and makes the run exit 2.
"""
from __future__ import annotations

import json
import os
import shutil
import sys
import tempfile
import time
from concurrent.futures import ProcessPoolExecutor
from typing import Dict, List, Optional, Tuple

from .model import REPO

HERE = os.path.dirname(os.path.abspath(__file__))


def load_variants() -> List[dict]:
    from .variants import V
    return list(V)


def _apply(root: str, v: dict) -> Optional[str]:
    path = os.path.join(root, v["file"])
    if not os.path.exists(path):
        return f"file {v['file']} missing"
    src = open(path).read()
    if v["old"] not in src:
        return "anchor text not found"
    if src.count(v["old"]) > 1 and not v.get("all"):
        src = src.replace(v["old"], v["new"], 1)
    else:
        src = src.replace(v["old"], v["new"])
    for old2, new2 in v.get("also", ()):
        # further edits of the same file that the variant needs to stay importable (a helper / constant it refers to)
        if old2 not in src:
            return "anchor text of an additional edit not found"
        src = src.replace(old2, new2, 1)
    try:
        compile(src, path, "exec")
    except SyntaxError as e:
        return f"variant does not compile: {e}"
    open(path, "w").write(src)
    return None


def run_variant(v: dict, repo_root: str = None) -> dict:
    """Apply one variant to a scratch copy and run the rules of its properties."""
    repo_root = repo_root or REPO
    tmp = tempfile.mkdtemp(prefix="sa-variant-", dir=os.environ.get("TMPDIR", "/tmp"))
    try:
        shutil.copytree(os.path.join(repo_root, "labrea"), os.path.join(tmp, "labrea"),
                        ignore=shutil.ignore_patterns("__pycache__"))
        err = _apply(tmp, v)
        if err:
            return {"id": v["id"], "status": "skipped", "why": err}
        from .facts import Run
        from .model import AnalysisError, Repo
        from .registry import PROPS, RULES
        from .report import load_known, match_known
        run = Run(Repo(tmp), "quick")
        known = load_known()
        fired: Dict[str, List[str]] = {}
        errors = []
        for prop in v["props"]:
            spec = PROPS[prop]
            for rid in spec["rules"]:
                try:
                    if rid not in run._rule_cache:
                        run._rule_cache[rid] = RULES[rid](run)
                    rr = run._rule_cache[rid]
                except AnalysisError as e:
                    errors.append(f"{rid}: {e}")
                    continue
                flt = spec.get("filters", {}).get(rid)
                for o in rr.obligations:
                    if o.ok:
                        continue
                    if flt and not any(s in o.construct for s in flt):
                        continue
                    if match_known(prop, o, known) is not None:
                        continue
                    fired.setdefault(prop, []).append(f"{o.rule} {o.construct} @ {o.loc()}")
        return {"id": v["id"], "status": "ran", "fired": fired, "errors": errors}
    except Exception as e:  # pragma: no cover
        import traceback
        return {"id": v["id"], "status": "error", "why": f"{e!r}\n{traceback.format_exc()[-800:]}"}
    finally:
        shutil.rmtree(tmp, ignore_errors=True)


def judge(v: dict, r: dict) -> Tuple[bool, str]:
    if r["status"] == "skipped":
        return True, f"skipped ({r['why']})"
    if r["status"] == "error":
        return False, f"harness error {r['why'][:200]}"
    fired = r["fired"]
    if v["kind"] == "fire":
        missing = [p for p in v["props"] if not fired.get(p)]
        if not missing and not any(v.get("rule", "") in x for p in v["props"] for x in fired.get(p, [])):
            return False, f"detected, but not by the expected rule {v.get('rule')}: {fired}"
        if r["errors"] and missing:
            return True, f"reported as ANALYSIS-ERROR: {r['errors'][0][:120]}"
        if missing:
            return False, f"NOT DETECTED for {missing} (fired: {fired})"
        sample = fired[v["props"][0]][0]
        return True, f"detected: {sample[:140]}"
    # silent
    if fired:
        return False, f"FALSE ALARM: {fired}"
    if r["errors"]:
        return False, f"ANALYSIS-ERROR on a behaviour-preserving edit: {r['errors'][0][:160]}"
    return True, "silent"


def run_all(variants: List[dict], jobs: int = 16) -> List[Tuple[dict, dict, bool, str]]:
    out = []
    with ProcessPoolExecutor(max_workers=jobs) as ex:
        results = list(ex.map(run_variant, variants))
    for v, r in zip(variants, results):
        ok, msg = judge(v, r)
        out.append((v, r, ok, msg))
    return out


def run_for_property(prop: str) -> int:
    """Thorough tier: both-ways validation of the rules serving ``prop``."""
    t0 = time.time()
    vs = [v for v in load_variants() if prop in v["props"]]
    vs = [dict(v, props=[prop]) for v in vs]
    res = run_all(vs)
    # independently seeded changes of this property must be reported; the
    # behaviour-preserving refactoring corpus must stay silent
    from . import seeded as _seeded
    extra = []
    try:
        names = [n for n in _seeded.list_seeded() if json.load(open(os.path.join(_seeded.SEEDED, n, "meta.json"))).get("property") == prop
                 and not os.path.exists(os.path.join(_seeded.SEEDED, n, "PENDING"))]     # PENDING: collected, not yet triaged
        with ProcessPoolExecutor(max_workers=16) as ex:
            for r in ex.map(_seeded.run_seed, [(n, False) for n in names]):
                v = {"id": "seeded/" + r["name"], "kind": "fire", "rule": "", "props": [prop]}
                if r["status"] == "patch-failed":
                    # the change was recorded against the pinned tree; on a tree that differs where it applies it is skipped, like a variant
                    res.append((v, {"status": "skipped", "why": "patch does not apply to the current tree"}, True, "skipped (patch does not apply to the current tree)"))
                    continue
                ok = r["status"] == "ran" and bool(r["fired"].get(prop))
                msg = ("detected: " + r["fired"][prop][0][:120]) if ok else f"NOT DETECTED ({r['status']})"
                res.append((v, {"status": "ran" if r["status"] == "ran" else "error"}, ok, msg))
        rdir = os.path.join(os.path.dirname(HERE), "refactors")
        if os.path.isdir(rdir):
            rnames = sorted(d for d in os.listdir(rdir) if os.path.exists(os.path.join(rdir, d, "patch.diff")))
            from .registry import PROPS as _P
            my_rules = set(_P[prop]["rules"])
            with ProcessPoolExecutor(max_workers=16) as ex:
                for r in ex.map(_seeded.run_refactor, [(n, rdir, [prop]) for n in rnames]):
                    if r["status"] != "ran":
                        continue
                    mine = [k for k, ps in r["fired"].items() if prop in ps]
                    errs = [e for e in r["errors"] if e.split(":")[0] in my_rules]
                    ok = not mine and not errs
                    v = {"id": "refactors/" + r["name"], "kind": "silent", "rule": "", "props": [prop]}
                    res.append((v, {"status": "ran"}, ok, "silent" if ok else f"FALSE ALARM {mine or errs}"))
    except Exception as e:  # pragma: no cover
        print(f"   (seeded/refactor corpus not run: {e!r})")
    bad = [(v, msg) for v, r, ok, msg in res if not ok]
    skipped = [v["id"] for v, r, ok, msg in res if r["status"] == "skipped"]
    n_fire = len([v for v in vs if v["kind"] == "fire"])
    n_silent = len(vs) - n_fire
    print(f"[{prop}] self-validation: {n_fire} breaking variants, {n_silent} behaviour-preserving variants, "
          f"{len(bad)} checker defects, {len(skipped)} skipped, {time.time() - t0:.1f}s")
    for v, r, ok, msg in res:
        print(f"   {'ok ' if ok else 'BAD'} {v['kind']:6} {v['id']}: {msg[:200]}")
    # append the table to the evidence file written by the quick part
    from .report import EVIDENCE_DIR
    path = os.path.join(EVIDENCE_DIR, f"{prop}.json")
    try:
        ev = json.load(open(path))
        ev["coverage"]["self_validation"] = {
            "breaking_variants": n_fire, "behaviour_preserving_variants": n_silent,
            "checker_defects": len(bad), "skipped": skipped,
            "table": [{"id": v["id"], "kind": v["kind"], "expect_rule": v.get("rule"), "result": msg[:160]} for v, r, ok, msg in res],
        }
        ev["wall_s"] = round(ev.get("wall_s", 0) + time.time() - t0, 3)
        json.dump(ev, open(path, "w"), indent=1, sort_keys=True, default=str)
    except Exception:
        pass
    if bad:
        print(f"ANALYSIS-ERROR property={prop}: self-validation found {len(bad)} checker defect(s)")
        return 2
    return 0


if __name__ == "__main__":
    # python -m sa.mutants [ids…]   — run variants against all their properties
    ids = set(sys.argv[1:])
    vs = [v for v in load_variants() if not ids or v["id"] in ids or any(i in v["props"] for i in ids)]
    res = run_all(vs)
    nbad = 0
    for v, r, ok, msg in res:
        if not ok:
            nbad += 1
        print(f"{'ok ' if ok else 'BAD'} {v['kind']:6} {v['id']:40} {','.join(v['props']):12} {msg[:220]}")
    nskip = sum(1 for v, r, ok, msg in res if r["status"] == "skipped")
    print(f"{len(res)} variants, {nbad} checker defects" + (f", {nskip} skipped (anchor text not in the current tree)" if nskip else ""))
    sys.exit(2 if nbad else 0)
