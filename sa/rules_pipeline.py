"""Pipelines and helper steps (DESIGN 3.8): lambda normaliser, parameter flow,
iteration = application order."""
from __future__ import annotations

import ast
import copy
from typing import Dict, List, Optional, Tuple

from . import astu
from .facts import Run
from .interp import Ctx, analyse_method
from .model import AnalysisError
from .report import RuleResult
from .terms import Child, Const, New, Sym

OPERATOR_FORMS = {
    "add": "+", "sub": "-", "mul": "*", "truediv": "/", "mod": "%", "floordiv": "//",
    "eq": "==", "ne": "!=", "lt": "<", "le": "<=", "gt": ">", "ge": ">=",
    "and_": "&", "or_": "|", "xor": "^",
}


class _Rename(ast.NodeTransformer):
    def __init__(self, mapping: Dict[str, ast.expr]):
        self.mapping = mapping

    def visit_Name(self, node):
        if node.id in self.mapping:
            return copy.deepcopy(self.mapping[node.id])
        return node

    def visit_Lambda(self, node):
        inner = {k: v for k, v in self.mapping.items() if k not in {a.arg for a in node.args.args}}
        node.body = _Rename(inner).visit(node.body)
        return node

    def visit_Call(self, node):
        self.generic_visit(node)
        # operator.add(a, b) -> a + b
        f = node.func
        if isinstance(f, ast.Attribute) and isinstance(f.value, ast.Name) and f.value.id == "operator" and f.attr in OPERATOR_FORMS and len(node.args) == 2:
            sym = OPERATOR_FORMS[f.attr]
            return ast.parse(f"({ast.unparse(node.args[0])}) {sym} ({ast.unparse(node.args[1])})", mode="eval").body
        return node


def _strip_ensure(e: ast.expr) -> ast.expr:
    while isinstance(e, ast.Call) and isinstance(e.func, ast.Attribute) and e.func.attr == "ensure" and len(e.args) == 1 and ast.unparse(e.func.value) == "Evaluatable":
        e = e.args[0]
    return e


def _arg_form(e: ast.expr) -> str:
    """Canonical text of an argument handed to partial()."""
    e = _strip_ensure(e)
    if isinstance(e, ast.Call) and ast.unparse(e.func).endswith("evaluatable_tuple"):
        parts = []
        for a in e.args:
            if isinstance(a, ast.Starred):
                v = a.value
                if isinstance(v, ast.Call) and ast.unparse(v.func).endswith("map") and len(v.args) == 2 and ast.unparse(v.args[0]) == "Evaluatable.ensure":
                    parts.append("*" + ast.unparse(v.args[1]))
                else:
                    parts.append("*" + ast.unparse(v))
            else:
                parts.append(_arg_form(a))
        return "TUPLE(" + ", ".join(parts) + ")"
    return ast.unparse(e)


def outcomes(repo, module, fn, env=None) -> List[str]:
    """Canonical behaviour of a small function: the sorted set of
    ``<pure path conditions> -> <returned term | raised term>`` over all paths
    (independent of statement order, guard-clause vs if/else form, locals)."""
    from .interp import Ctx, Frame, analyse_function
    out = set()
    for p in analyse_function(Ctx(repo), module, fn, env):
        cs = set()
        for c in p.conds:
            if c[2]:
                k, pol = Frame.norm_cond(c[2], c[1])
                cs.add(f"{k}={'T' if pol else 'F'}")
            else:
                cs.add(c[0])
        if p.status == "ret":
            o = "ret " + (p.ret.key() if p.ret is not None else "None")
        else:
            rev = [e for e in p.events if e.kind == "raise"]
            o = "raise " + (rev[-1].target.key() if rev and rev[-1].target is not None else (p.exc[0] if p.exc else "?"))
        out.add(" & ".join(sorted(cs)) + " -> " + o)
    return sorted(out)


class Normaliser:
    def __init__(self, run: Run):
        self.run = run
        self.mod = run.repo.modules.get("labrea.functions")
        if self.mod is None:
            raise AnalysisError("labrea/functions.py not found")
        self.funcs: Dict[str, ast.FunctionDef] = {}
        self.instances: Dict[str, ast.expr] = {}
        for s in self.mod.tree.body:
            if isinstance(s, ast.FunctionDef) and not any("overload" in ast.unparse(d) for d in s.decorator_list):
                self.funcs[s.name] = s
            elif isinstance(s, ast.Assign) and len(s.targets) == 1 and isinstance(s.targets[0], ast.Name) and isinstance(s.value, ast.Call):
                self.instances[s.targets[0].id] = s.value

    def _private_call_resolver(self, call: ast.Call):
        """Private module-level helpers that are *called* to build an argument (not handed to
        partial()) are replaced by their single returned expression."""
        f = call.func
        if isinstance(f, ast.Name) and f.id.startswith("_") and f.id in self.funcs:
            return self.funcs[f.id], False
        return None

    # -- partial(f, *pos, **kw) -> canonical body
    def partial_form(self, call: ast.Call) -> str:
        if not call.args:
            return "?"
        f = call.args[0]
        pos = call.args[1:]
        kw = {k.arg: k.value for k in call.keywords if k.arg}
        target = None
        if isinstance(f, ast.Lambda):
            target = f
            params = [a.arg for a in f.args.posonlyargs + f.args.args]
            body = f.body
        elif isinstance(f, ast.Name) and f.id in self.funcs:
            target = self.funcs[f.id]
            params = [a.arg for a in target.args.posonlyargs + target.args.args]
            body = None
        else:
            # external callable, e.g. builtins.map
            args = [_arg_form(a) for a in pos] + ["INPUT"] + [f"{k}={_arg_form(v)}" for k, v in kw.items()]
            return f"{ast.unparse(f)}({', '.join(args)})"
        mapping: Dict[str, ast.expr] = {}
        i = 0
        for a in pos:
            if i >= len(params):
                return "?too-many-positional"
            mapping[params[i]] = ast.Name(id=f"⟨{_arg_form(a)}⟩", ctx=ast.Load())
            i += 1
        for k, v in kw.items():
            if k in mapping:
                return f"?multiple-values-for-{k}"
            if k not in params:
                return f"?unknown-keyword-{k}"
            mapping[k] = ast.Name(id=f"⟨{_arg_form(v)}⟩", ctx=ast.Load())
        free = [p_ for p_ in params if p_ not in mapping]
        # the pipeline input binds the first free positional parameter; a
        # keyword-bound parameter *before* it would be hit again -> TypeError
        if not free:
            return "?no-free-parameter"
        first_free = params.index(free[0])
        for k in kw:
            if params.index(k) < first_free:
                return f"?input-collides-with-keyword-{k}"
        for j, p_ in enumerate(free):
            mapping[p_] = ast.Name(id="INPUT" if len(free) == 1 else f"INPUT{j}", ctx=ast.Load())
        if body is not None:
            red = _Rename(mapping).visit(copy.deepcopy(body))
            return ast.unparse(red)
        # named helper: show the binding and reduce its single-return body if any
        return f"{f.id}(" + ", ".join(f"{p_}={ast.unparse(mapping[p_])}" for p_ in params) + ")"

    def step_form(self, e: ast.expr, env: Dict[str, ast.expr] = None) -> str:
        """Canonical form of the first argument of PipelineStep(...)."""
        e = _strip_ensure(e)
        if isinstance(e, ast.Call):
            fn = ast.unparse(e.func)
            if fn == "partial":
                return "λ " + self.partial_form(e)
            if fn == "PipelineStep":
                return self.step_form(e.args[0])
            if isinstance(e.func, ast.Name) and e.func.id in self.funcs:
                args = [self.step_form(a) if isinstance(a, (ast.Call, ast.Lambda, ast.BinOp)) else ("*" + ast.unparse(a.value) if isinstance(a, ast.Starred) else ast.unparse(a)) for a in e.args]
                return f"{e.func.id}({', '.join(args)})"
            if fn == "Pipeline" and not e.args:
                return "ID"
            if fn == "sum" and len(e.args) == 2 and isinstance(e.args[0], (ast.List, ast.Tuple)) and not e.keywords:
                # sum([a, b, c], start) is start + a + b + c
                acc: ast.expr = e.args[1]
                for it in e.args[0].elts:
                    acc = ast.BinOp(left=acc, op=ast.Add(), right=it)
                return self.step_form(acc)
            return ast.unparse(e)
        if isinstance(e, ast.BinOp) and isinstance(e.op, ast.Add):
            return self.step_form(e.left) + " >> " + self.step_form(e.right)
        if isinstance(e, ast.Lambda):
            params = [a.arg for a in e.args.args]
            mapping = {p_: ast.Name(id="INPUT" if len(params) == 1 else f"INPUT{j}", ctx=ast.Load()) for j, p_ in enumerate(params)}
            return "λ " + ast.unparse(_Rename(mapping).visit(copy.deepcopy(e.body)))
        if isinstance(e, ast.Name) and e.id in self.funcs and e.id.startswith("_"):
            f = self.funcs[e.id]
            return "λ " + self.body_form(f)
        if isinstance(e, ast.Name) and e.id in self.instances:
            return e.id
        return ast.unparse(e)

    def body_form(self, f: ast.FunctionDef) -> str:
        """Canonical body of a private one-input helper (first param = INPUT)."""
        params = [a.arg for a in f.args.posonlyargs + f.args.args]
        mapping = {params[0]: ast.Name(id="INPUT", ctx=ast.Load())} if params else {}
        sr = astu.simple_return(f)
        if sr is not None:
            # locals expanded: `r = E; return r` is `return E`
            return "return " + ast.unparse(_Rename(mapping).visit(copy.deepcopy(sr)))
        stmts = [s for s in f.body if not (isinstance(s, ast.Expr) and isinstance(s.value, ast.Constant))]
        return "; ".join(ast.unparse(_Rename(mapping).visit(copy.deepcopy(s))) for s in stmts)

    def helper_form(self, name: str) -> Optional[str]:
        form = self._helper_form(name)
        if form is None or name not in self.funcs:
            return form
        f = self.funcs[name]
        params = [a.arg for a in f.args.posonlyargs + f.args.args + f.args.kwonlyargs]
        if f.args.vararg:
            params.append(f.args.vararg.arg)
        if f.args.kwarg:
            params.append(f.args.kwarg.arg)
        # positional names instead of the helper's own parameter names
        import re as _re
        for i, p_ in enumerate(params):
            form = _re.sub(r"(?<![A-Za-z0-9_])" + _re.escape(p_) + r"(?![A-Za-z0-9_=])", f"P{i}", form)
        return form

    def _helper_form(self, name: str) -> Optional[str]:
        if name in self.funcs:
            f = self.funcs[name]
            inner = {}
            for s in f.body:
                if isinstance(s, ast.FunctionDef):
                    inner[s.name] = s
            amap_h = astu.single_assign_map(f)
            rets_ = sorted((s for s in astu.walk_no_nested(f) if isinstance(s, ast.Return) and s.value is not None), key=lambda s: (s.lineno, s.col_offset))
            forms_ = []
            for s in rets_:
                forms_.append(self._return_form(f, s, inner, amap_h))
            forms_ = [x for x in forms_ if x is not None]
            uniq_ = []
            for x in forms_:
                if x not in uniq_:
                    uniq_.append(x)
            # every way the helper can return must compute the same step
            return " || ".join(uniq_) if uniq_ else None
        if name in self.instances:
            v = self.instances[name]
            if ast.unparse(v.func) == "PipelineStep" and v.args:
                return self.step_form(v.args[0])
            if isinstance(v.func, ast.Name) and v.func.id in self.funcs:
                return f"{v.func.id}({', '.join(ast.unparse(a) for a in v.args)})"
        return None

    def _return_form(self, f, s, inner, amap_h) -> Optional[str]:
        """Canonical form of one ``return PipelineStep(<callable>, …)`` of a helper."""
        v_ = s.value
        keep_ = frozenset(a.arg for a in f.args.posonlyargs + f.args.args + f.args.kwonlyargs)
        if not (isinstance(v_, ast.Call) and ast.unparse(v_.func) == "PipelineStep" and v_.args):
            # a local holding the step; parameters that are re-bound (defaults filled in) stay parameters
            amap_nb = {k: v for k, v in amap_h.items() if k not in keep_}
            v_ = astu.expand_locals(v_, amap_nb)
            if isinstance(v_, ast.Call) and ast.unparse(v_.func) == "PipelineStep" and v_.args:
                v_ = ast.Call(func=v_.func, args=[astu.expand_locals(v_.args[0], amap_nb)] + list(v_.args[1:]), keywords=v_.keywords)
            if not (isinstance(v_, ast.Call) and ast.unparse(v_.func) == "PipelineStep" and v_.args):
                return None
        a0 = v_.args[0]
        if isinstance(a0, ast.Name) and a0.id in amap_h and a0.id not in inner:
            a0 = astu.expand_locals(a0, amap_h)
        elif not isinstance(a0, (ast.Name, ast.Lambda)):
            # locals used inside the expression (``stages = [...]; … sum(stages, Pipeline())``)
            a0 = astu.expand_locals(a0, {k: v for k, v in amap_h.items() if k not in keep_ and k not in inner})
        a0 = astu.inline_helpers(a0, self._private_call_resolver)
        if isinstance(a0, ast.Name) and a0.id in inner:
            g = inner[a0.id]
            if any(ast.unparse(d) == "pipeline_step" for d in g.decorator_list):
                ps = [a.arg for a in g.args.args]
                defaults = dict(zip(ps[len(ps) - len(g.args.defaults):], g.args.defaults))
                env = {ps[0]: Sym("INPUT")}
                for k, v in defaults.items():
                    env[k] = Sym(f"⟨{_arg_form(v)}⟩")
                return "step " + " | ".join(outcomes(self.run.repo, self.mod, g, env))
        return self.step_form(a0)


# canonical forms confirmed against each helper's docstring (INPUT = the value
# flowing through the pipeline, ⟨x⟩ = the helper's parameter x evaluated from options)
EXPECTED = {
    "map": "λ builtins.map(P0, INPUT)",
    "filter": "λ builtins.filter(P0, INPUT)",
    "reduce": "λ _reduce(func=⟨P0⟩, iterable=INPUT, initial=⟨P1⟩)",
    "into": "step call:isinstance(INPUT,ext<typing.Mapping>)=F -> ret call:⟨P0⟩(star(INPUT)) | call:isinstance(INPUT,ext<typing.Mapping>)=T -> ret call:⟨P0⟩(kw:**(INPUT))",
    "flatten": "λ return itertools.chain.from_iterable(INPUT)",
    "flatmap": "map(P0) >> itertools.chain.from_iterable",
    "map_items": "ID >> λ INPUT.items() >> map(into(P0)) >> dict >> MappingProxyType",
    "map_keys": "map_items(λ (⟨P0⟩(INPUT0), INPUT1))",
    "map_values": "map_items(λ (INPUT0, ⟨P0⟩(INPUT1)))",
    "filter_items": "ID >> λ INPUT.items() >> filter(into(P0)) >> dict >> MappingProxyType",
    "filter_keys": "filter_items(λ ⟨P0⟩(INPUT0))",
    "filter_values": "filter_items(λ ⟨P0⟩(INPUT1))",
    "concat": "λ itertools.chain(INPUT, ⟨P0⟩)",
    "append": "concat(collections.evaluatable_tuple(Evaluatable.ensure(P0)))",
    "intersect": "λ set(INPUT) & set(⟨P0⟩)",
    "union": "λ set(INPUT) | set(⟨P0⟩)",
    "difference": "λ set(INPUT) - set(⟨P0⟩)",
    "symmetric_difference": "λ set(INPUT) ^ set(⟨P0⟩)",
    "get": "λ _get(container=INPUT, key=⟨P0⟩, default=⟨P1⟩)",
    "get_from": "λ _get(container=⟨P0⟩, key=INPUT, default=⟨P1⟩)",
    "add": "λ INPUT + ⟨P0⟩",
    "subtract": "λ INPUT - ⟨P0⟩",
    "multiply": "λ INPUT * ⟨P0⟩",
    "left_multiply": "λ ⟨P0⟩ * INPUT",
    "divide_by": "λ INPUT / ⟨P0⟩",
    "divide_into": "λ ⟨P0⟩ / INPUT",
    "negate": "λ return -INPUT",
    "modulo": "λ INPUT % ⟨P0⟩",
    "merge": "λ {**INPUT, **⟨P0⟩}",
    "length": "len",
    "instance_of": "λ isinstance(INPUT, ⟨TUPLE(*P0)⟩)",
    "all": "λ builtins.all((f(INPUT) for f in ⟨TUPLE(*P0)⟩))",
    "any": "λ builtins.any((f(INPUT) for f in ⟨TUPLE(*P0)⟩))",
    "invert": "λ not ⟨P0⟩(INPUT)",
    "eq": "λ INPUT == ⟨P0⟩",
    "ne": "λ INPUT != ⟨P0⟩",
    "gt": "λ INPUT > ⟨P0⟩",
    "ge": "λ INPUT >= ⟨P0⟩",
    "lt": "λ INPUT < ⟨P0⟩",
    "le": "λ INPUT <= ⟨P0⟩",
    "has_remainder": "λ INPUT % ⟨P0⟩ == ⟨P1⟩",
    "positive": "gt(0)",
    "negative": "lt(0)",
    "non_positive": "le(0)",
    "non_negative": "ge(0)",
    "even": "has_remainder(2, 0)",
    "odd": "has_remainder(2, 1)",
    "is_none": "λ INPUT is None",
    "is_not_none": "invert(is_none)",
    "is_in": "λ INPUT in ⟨P0⟩",
    "is_not_in": "invert(is_in(P0))",
    "one_of": "λ INPUT in ⟨TUPLE(*P0)⟩",
    "none_of": "invert(one_of(*P0))",
    "contains": "λ ⟨P0⟩ in INPUT",
    "does_not_contain": "invert(contains(P0))",
    "intersects": "intersect(P0) >> bool",
    "disjoint_from": "invert(intersects(P0))",
    "ensure": "λ _ensure(value=INPUT, predicate=⟨P0⟩, msg=⟨P1⟩)",
    "get_attribute": "λ getattr(INPUT, ⟨P0⟩)",
    "call_method": "λ _call_method(name=⟨P0⟩, args=⟨P1⟩, kwargs=⟨P2⟩, obj=INPUT)",
}
EXPECTED_PRIVATE = {
    # behaviour as path outcomes: "<conditions> -> ret <value> | raise <error>"
    "_reduce": ["cmp:Is(initial,Const(MISSING))=F -> ret call:functools.reduce(func,iterable,initial)",
                "cmp:Is(initial,Const(MISSING))=T -> ret call:functools.reduce(func,iterable)"],
    "_get": [" -> ret getitem(container,key)",
             "cmp:Is(default,Const(MISSING))=F & except (KeyError, IndexError) -> ret default",
             "cmp:Is(default,Const(MISSING))=T & except (KeyError, IndexError) -> raise exc-of(container)"],
    "_ensure": ["call:predicate(value)=F -> raise new:AssertionError(msg)", "call:predicate(value)=T -> ret value"],
    "_call_method": [" -> ret callres(getattr(obj,name),star(args),kw:**(kwargs))"],
}


def _drop_redundant_ensure(form: str) -> str:
    """``evaluatable_tuple(Evaluatable.ensure(x))`` is ``evaluatable_tuple(x)``: the collection constructors hand every
    element to Iter, which ensures it (idempotently)."""
    import re
    prev = None
    while prev != form:
        prev = form
        form = re.sub(r"(evaluatable_\w+\((?:[^()]*,\s*)?)Evaluatable\.ensure\((\*?\w+)\)", r"\1\2", form)
    return form


def _canon_outcomes(outs: List[str]) -> List[str]:
    """Outcomes as a function of the conditions that matter: a path that only lets the failure it caught go on is the
    outcome of not catching it (dropped, like failures outside any handler); two paths with the same result whose
    conditions differ in the polarity of one test are one path without that test."""
    items = []
    for o in outs:
        cs, _, res = o.partition(" -> ")
        if res.startswith("raise exc-of"):
            continue
        items.append((frozenset(c for c in cs.split(" & ") if c), res))
    changed = True
    while changed:
        changed = False
        for i in range(len(items)):
            for j in range(i + 1, len(items)):
                (ci, ri), (cj, rj) = items[i], items[j]
                if ri != rj:
                    continue
                d = ci ^ cj
                if len(d) == 2:
                    a, b = sorted(d)
                    if a[:-1] == b[:-1] and {a[-1], b[-1]} == {"T", "F"} and a[-2] == "=":
                        items[i] = (ci & cj, ri)
                        del items[j]
                        changed = True
                        break
                elif not d:
                    del items[j]
                    changed = True
                    break
            if changed:
                break
    return sorted(" & ".join(sorted(c)) + " -> " + r_ for c, r_ in items)


def rule_HO(run: Run) -> RuleResult:
    res = RuleResult("R-HO")
    nec = ("each helper step computes the documented Python operation with the documented operand "
           "order (subtract: input - x, divide_into: x / input, get vs get_from, contains vs is_in …)")
    nz = Normaliser(run)
    f = nz.mod.relpath
    names = [n for n in list(nz.funcs) + list(nz.instances) if not n.startswith("_") and n not in ("partial",)]
    n_red = 0
    for name in names:
        form = nz.helper_form(name)
        node = nz.funcs.get(name) or nz.instances.get(name)
        if form is None:
            continue
        n_red += 1
        want = EXPECTED.get(name)
        if want is None:
            res.notes.append(f"helper {name} has no table row (form: {form}) — not judged")
            continue
        form, want = _drop_redundant_ensure(form), _drop_redundant_ensure(want)
        res.add(f"labrea.functions.{name}:operand order", form == want, f, node.lineno,
                f"derived `{form}`" + ("" if form == want else f" — documented behaviour is `{want}`"), nec)
    for name, want in EXPECTED_PRIVATE.items():
        fn = nz.funcs.get(name)
        if fn is None:
            continue
        form = _canon_outcomes(outcomes(run.repo, nz.mod, fn))
        want = _canon_outcomes(want)
        res.add(f"labrea.functions.{name}:body", form == want, f, fn.lineno, f"outcomes {form}" + ("" if form == want else f" — expected {want}"), nec)
    res.count("helpers", n_red)
    if n_red < 55:
        raise AnalysisError(f"only {n_red} helper steps reduced (61 confirmed by hand)")
    # PartialApplication.lift / partial(): helper parameters are positional/keyword arguments of the partial
    pf = nz.funcs.get("partial")
    ok = pf is not None
    if ok:
        from .interp import analyse_function
        pps_ = analyse_function(Ctx(run.repo), nz.mod, pf)
        fp_ = [a.arg for a in pf.args.posonlyargs + pf.args.args][0]
        ok = bool(pps_) and all(p.status == "ret" and isinstance(p.ret, New) and p.ret.cls.name == "PartialApplication" and p.ret.attrs.get("func") is not None
                                and fp_ in p.ret.attrs["func"].key() and "*args" in p.ret.key() and "**kwargs" in p.ret.key() for p in pps_)
    res.add("labrea.functions.partial:is PartialApplication(func, *args, **kwargs)", ok, f, pf.lineno if pf else 0, "", nec)
    return res


# ------------------------------------------------------------------ R-HF
def rule_HF(run: Run) -> RuleResult:
    res = RuleResult("R-HF")
    nec = ("a helper parameter captured in a closure instead of being handed to partial()/PipelineStep "
           "is frozen at construction and hidden from keys()/explain(): add(Option('X')) would add the Option object")
    nz = Normaliser(run)
    f = nz.mod.relpath
    n = 0
    for name, fn in nz.funcs.items():
        if name.startswith("_") or name == "partial":
            continue
        params = []
        for a in fn.args.posonlyargs + fn.args.args + fn.args.kwonlyargs + ([fn.args.vararg] if fn.args.vararg else []):
            ann = ast.unparse(a.annotation) if a.annotation is not None else ""
            if "MaybeEvaluatable" in ann or name in ("eq", "ne", "gt", "ge", "lt", "le"):
                params.append(a.arg)
        for p_ in params:
            n += 1
            captured = []
            for x in ast.walk(fn):
                if isinstance(x, ast.Lambda):
                    if astu.contains_name(x.body, p_) and p_ not in {a.arg for a in x.args.args}:
                        captured.append(x)
                elif isinstance(x, ast.FunctionDef) and x is not fn:
                    for s in x.body:
                        if astu.contains_name(s, p_):
                            captured.append(x)
            # handed on as an argument somewhere in the returned step
            passed = False
            amap_f = astu.single_assign_map(fn)
            for r in astu.walk_no_nested(fn):
                rv_ = astu.expand_locals(r.value, {k: v for k, v in amap_f.items() if k != p_}) if isinstance(r, ast.Return) and r.value is not None else None
                if isinstance(rv_, ast.Call) and rv_.args:
                    a0_ = astu.expand_locals(rv_.args[0], {k: v for k, v in amap_f.items() if k != p_})
                    for c in [a0_] + list(astu.calls_in(a0_)):
                        if isinstance(c, ast.Call):
                            for a in list(c.args) + [k.value for k in c.keywords]:
                                if astu.contains_name(a, p_) and not isinstance(a, ast.Lambda):
                                    passed = True
            for x in ast.walk(fn):
                if isinstance(x, ast.FunctionDef) and x is not fn:
                    for d in x.args.defaults + [k for k in x.args.kw_defaults if k is not None]:
                        if astu.contains_name(d, p_):
                            passed = True
            ok = passed and not captured
            res.add(f"labrea.functions.{name}:{p_} flows into the step as an evaluated argument", ok, f, fn.lineno,
                    "passed to partial()/helper as an argument" if ok else ("captured in a closure" if captured else "never handed to the step"), nec)
    res.count("parameters", n)
    if n < 45:
        raise AnalysisError(f"R-HF found only {n} option-valued helper parameters")
    return res


# ------------------------------------------------------------------ R-PI
def rule_PI(run: Run) -> RuleResult:
    res = RuleResult("R-PI")
    repo = run.repo
    nec = ("iterating a pipeline yields its steps in application order and + appends the right operand's "
           "steps after the left one's; (p + q).transform(x) == q.transform(p.transform(x)) (C13)")
    pl = repo.cls("Pipeline")
    f = pl.module.relpath
    it = pl.methods.get("__iter__")
    if it is None:
        raise AnalysisError("Pipeline.__iter__ not found")
    from .facts import cond_pol
    from .interp import analyse_function
    ips = analyse_function(Ctx(repo), pl.module, it, cls=pl)
    forms = []
    ok_it = bool(ips)
    for p in ips:
        k = p.ret.key() if p.status == "ret" and p.ret is not None else p.status
        has_rest = {True: False, False: True}.get(cond_pol(p.conds, "cmp:Is(attr:rest(self),Const(None))"), cond_pol(p.conds, "attr:rest(self)"))
        forms.append(f"rest {'present' if has_rest else 'absent' if has_rest is False else '?'}: {k}")
        # the steps of rest first (when there is one), then the tail
        want = (("Coll(oneof(elem(attr:rest(self)),attr:tail(self)))", "Seq[star(attr:rest(self)),attr:tail(self)]") if has_rest
                else ("Coll(attr:tail(self))", "Seq[attr:tail(self)]"))
        if has_rest is None or k not in want:
            ok_it = False
    res.add("labrea.pipeline.Pipeline.__iter__:rest before tail", ok_it, f, it.lineno, f"yields {forms}", nec)
    ad = pl.methods.get("__add__")
    if ad is None:
        raise AnalysisError("Pipeline.__add__ not found")
    # ``self + other`` is decided per shape of the right operand: a step, a plain callable, the empty pipeline and
    # pipelines of 1, 2 and 3 steps.  A shape is a set of facts about ``other`` and its chain of ``.rest`` nodes
    # (which the interpreter takes as already established on the path); under them every test of __add__ is
    # decided, loops run to their end, and the returned term must flatten to the steps of self followed by the
    # steps of other in application order.  ``a + b`` inside the result flattens by the induction hypothesis
    # (b is a single step or a proper sub-chain of other).
    from .interp import Frame, Path as IPath, SELF
    from .terms import Term
    PS, PL = "class<labrea.pipeline.PipelineStep>", "class<labrea.pipeline.Pipeline>"
    opar = astu.param_names(ad)[0]

    def chain(n):
        return [opar] + [("attr:rest(" * k) + opar + (")" * k) for k in range(1, n)]

    def facts(kind, n=0):
        out = []
        if kind == "step":
            out.append((f"call:isinstance({opar},{PS})", True))
        elif kind == "callable":
            out += [(f"call:isinstance({opar},{PS})", False), (f"call:isinstance({opar},{PL})", False)]
        elif kind == "empty":
            out += [(f"call:isinstance({opar},{PS})", False), (f"call:isinstance({opar},{PL})", True), (f"attr:empty({opar})", True)]
        else:
            nodes = chain(n)
            for k, o in enumerate(nodes):
                out += [(f"call:isinstance({o},{PS})", False), (f"call:isinstance({o},{PL})", True), (f"attr:empty({o})", False),
                        (f"cmp:Is(attr:rest({o}),Const(None))", k == n - 1), (f"attr:rest({o})", k != n - 1)]
        return out

    def expected(kind, n=0):
        if kind == "step":
            return ["SELF", opar]
        if kind == "callable":
            return ["SELF", f"step({opar})"]
        if kind == "empty":
            return ["SELF"]
        return ["SELF"] + [f"attr:tail({o})" for o in reversed(chain(n))]

    def flatten(t, sub):
        """Steps of a pipeline term, or None when it is not understood."""
        if t is None:
            return None
        k = t.key()
        if k == SELF.key():
            return ["SELF"]
        if isinstance(t, Sym) and t.head == "call:typing.cast" and len(t.args) == 2:
            return flatten(t.args[1], sub)
        if isinstance(t, New) and t.cls.name == "Pipeline":
            rest, tail = t.attrs.get("rest"), t.attrs.get("tail")
            if isinstance(rest, Sym) and rest.head == "oneof":
                cands = [a for a in rest.args if not (isinstance(a, Const) and a.v is None)]
                rest = cands[0] if len(cands) == 1 else None
            head = [] if isinstance(rest, Const) and rest.v is None else flatten(rest, sub)
            one = step_of(tail)
            return None if head is None or one is None else head + [one]
        if isinstance(t, Sym) and t.head == "binop:Add" and len(t.args) == 2:
            a = flatten(t.args[0], sub)
            bk = t.args[1].key()
            if bk in sub:                       # a proper sub-chain of other: induction hypothesis
                b = sub[bk]
            else:
                one = step_of(t.args[1])
                b = None if one is None else [one]
            return None if a is None or b is None else a + b
        return None

    def step_of(t):
        if t is None:
            return None
        k = t.key()
        if k == opar or (k.startswith("attr:tail(") and k.endswith(")")):
            return k
        if isinstance(t, New) and t.cls.name == "PipelineStep":
            s_ = t.attrs.get("step")
            if s_ is not None and (s_.key() == opar or (isinstance(s_, New) and s_.attrs.get("value") is not None and s_.attrs["value"].key() == opar)):
                return f"step({opar})"
        return None

    shapes = [("step", 0), ("callable", 0), ("empty", 0), ("chain", 1), ("chain", 2), ("chain", 3)]
    ok = True
    d = ""
    n_paths = 0
    for kind, n in shapes:
        ctx = Ctx(repo)
        ctx.root_cls = pl
        fr = Frame(ctx, pl.module, pl, SELF, None, 0, (), "Pipeline.__add__")
        p0 = IPath()
        for key, pol in facts(kind, n):
            p0.conds.append((f"<shape {kind}{n or ''}>", pol, key))
        names = [a.arg for a in ad.args.posonlyargs + ad.args.args]
        env = {names[0]: SELF, opar: Sym(opar)}
        ctx.unfolding.append((pl.qualname, "__add__"))
        outs = fr.run_function(ad, env, p0)
        ctx.unfolding.pop()
        n_paths += len(outs)
        want = expected(kind, n)
        sub = {}
        if kind == "chain":
            nodes = chain(n)
            for k in range(1, n):
                sub[nodes[k]] = [f"attr:tail({o})" for o in reversed(nodes[k:])]
        label = kind if kind != "chain" else f"a pipeline of {n} step{'s' if n > 1 else ''}"
        if not outs:
            ok = False
            d = d or f"right operand {label}: no path"
        for p in outs:
            if p.status != "ret":
                ok = False
                d = d or f"right operand {label}: a path ends in {p.status} ({p.exc[0] if p.exc else ''})"
                continue
            got = flatten(p.ret, sub)
            if got != want:
                ok = False
                d = d or f"right operand {label}: returns {p.ret.key()[:110]} = steps {got}, expected {want}"
    res.count("paths", n_paths)
    res.add("labrea.pipeline.Pipeline.__add__:right operand's steps appended after self, in order", ok, f, ad.lineno,
            d or f"{len(shapes)} shapes of the right operand (step, callable, empty, 1-3 steps), {n_paths} paths: the result's steps are self's then other's, in order", nec)
    # Pipeline.__init__ drops an empty rest; empty means Identity tail and no rest
    init = pl.methods.get("__init__")
    ok = init is not None
    if ok:
        ip_ = astu.param_names(init)
        tail_p, rest_p = ip_[0], ip_[1]
        for p in analyse_function(Ctx(repo), pl.module, init, cls=pl):
            if p.status != "ret":
                continue
            st = {e.args[1].key(): e.target.key() for e in p.events if e.kind == "store" and len(e.args) == 2 and e.args[0].key() == "self" and e.target is not None}
            is_none = cond_pol(p.conds, f"cmp:Is({rest_p},Const(None))")
            empty = cond_pol(p.conds, f"attr:empty({rest_p})")
            # an empty rest is normalised to None (storing `rest` on the path where it is None is the same thing)
            want_rest = {"Const(None)"} | ({rest_p} if is_none is True else set()) if (is_none is True or empty is True) else {rest_p}
            if st.get("Const('tail')") is None or st.get("Const('rest')") not in want_rest:
                ok = False
    res.add("labrea.pipeline.Pipeline.__init__:stores tail and rest, normalising an empty rest to None", ok, f, init.lineno if init else 0, "", nec)
    em = pl.methods.get("empty")
    ok = em is not None
    shown = []
    if ok:
        from .facts import bool_atoms
        for p in analyse_function(Ctx(repo), pl.module, em, cls=pl):
            k = p.ret.key() if p.status == "ret" and p.ret is not None else p.status
            shown.append(k[:120])
            ats = bool_atoms(p.ret) if p.ret is not None else []
            if not (getattr(p.ret, "head", "") == "and" and len(ats) == 2 and any(a_.startswith("cmp:Eq(attr:tail(self),") and "_identity" in a_ for a_ in ats)
                    and "cmp:Is(attr:rest(self),Const(None))" in ats):
                ok = False
    res.add("labrea.pipeline.Pipeline.empty:Identity tail and no rest", ok, f, em.lineno if em else 0, f"{shown}", nec)
    ps_ = repo.cls("PipelineStep")
    ad2 = ps_.methods.get("__add__")
    ok = ad2 is not None
    if ok:
        oth = astu.param_names(ad2)[0]
        aps = analyse_function(Ctx(repo), ps_.module, ad2, cls=ps_)
        def _is_single(t):
            return isinstance(t, New) and t.cls.name == "Pipeline" and t.attrs.get("tail") is not None and t.attrs["tail"].key() == "self" \
                and t.attrs.get("rest") is not None and t.attrs["rest"].key() == "Const(None)"
        ok = bool(aps) and all(p.status == "ret" and isinstance(p.ret, Sym) and p.ret.head == "binop:Add" and len(p.ret.args) == 2
                               and _is_single(p.ret.args[0]) and p.ret.args[1].key() == oth for p in aps)
    res.add("labrea.pipeline.PipelineStep.__add__:Pipeline(self) + other", ok, f, ad2.lineno if ad2 else 0, "", nec)
    # pipeline_step: first parameter is the input (no default), the rest are option-valued defaults
    psf = repo.func("labrea.pipeline.pipeline_step")
    fpar = [a.arg for a in psf.node.args.posonlyargs + psf.node.args.args][0]
    pps = [p for p in analyse_function(Ctx(repo), psf.module, psf.node) if p.status == "ret" and cond_pol(p.conds, f"cmp:Is({fpar},Const(None))") is False]
    ok = bool(pps)
    for p in pps:
        r_ = p.ret
        stp = r_.attrs.get("step") if isinstance(r_, New) and r_.cls.name == "PipelineStep" else None
        if not (isinstance(stp, New) and stp.cls.name == "PartialApplication" and stp.attrs.get("func") is not None and fpar in stp.attrs["func"].key()):
            ok = False
    res.add("labrea.pipeline.pipeline_step:PipelineStep(PartialApplication.lift(func), name)", ok, f, psf.node.lineno, f"{len(pps)} paths that lift a given function", nec)
    # PartialApplication.lift: every defaulted parameter becomes an evaluated keyword
    pa = repo.cls("PartialApplication")
    lf = pa.methods.get("lift")
    ok = False
    why = "PartialApplication.lift not found"
    if lf is not None:
        from .facts import cond_pol
        from .interp import Frame, analyse_function
        lps = [p for p in analyse_function(Ctx(repo), pa.module, lf) if p.status == "ret"]
        fparam = [a_.arg for a_ in lf.args.posonlyargs + lf.args.args if a_.arg not in ("cls", "self")][0]
        direct = [p for p in lps if cond_pol(p.conds, f"cmp:Is({fparam},Const(None))") is False]
        ok, why = bool(direct), "" if direct else "no path lifts a given function"
        saw_kept = saw_dropped = False
        for p in direct:
            r_ = p.ret
            if not (isinstance(r_, New) and r_.cls.name == "PartialApplication" and r_.attrs.get("func") is not None and fparam in r_.attrs["func"].key()):
                ok, why = False, f"returns {r_.key()[:80]}"
                continue
            gets = [e for e in p.events if e.kind == "call" and e.text.endswith("kwargs.get")]
            # comprehension filters hold for every element that was kept
            at = Frame.atoms(list(p.conds) + [(e.text, True, e.target.key()) for e in p.events if e.kind == "filter" and e.target is not None])
            for e in gets:
                if len(e.args) != 2 or not (e.args[0].key().startswith("attr:name(") and e.args[1].key() == "attr:default(" + e.args[0].key()[len("attr:name("):]):
                    ok, why = False, f"default looked up as kwargs.get({', '.join(a_.key()[:40] for a_ in e.args)})"
            kw_ = r_.attrs.get("arguments")
            kk = kw_.key() if kw_ is not None else ""
            looked = "kwargs.get()" in kk
            empties = [v for k_, v in at.items() if k_.startswith("cmp:Is(") and "kwargs.get()" in k_ and "attr:empty(" in k_]
            if looked:
                saw_kept = True
                if not empties or any(v is True for v in empties):
                    ok, why = False, "a parameter without a default is turned into an evaluated keyword"
            elif gets and empties and all(v is False for v in empties):
                ok, why = False, "a defaulted parameter is not evaluated from the options"
            elif gets and empties:
                saw_dropped = True
            if any(e.kind == "filter" and e.target is not None and "attr:empty(" in e.target.key() and "kwargs.get()" in e.target.key() for e in p.events):
                saw_dropped = True      # a comprehension filter drops the parameters without default
        if ok and not (saw_kept and saw_dropped):
            ok, why = False, f"defaulted parameter kept on some path: {saw_kept}; parameter without default left open on some path: {saw_dropped}"
    res.add("labrea.application.PartialApplication.lift:defaulted parameters evaluated from options", ok, pa.module.relpath, lf.lineno if lf else 0, why, nec)
    return res
