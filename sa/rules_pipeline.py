"""Pipelines and helper steps (DESIGN 3.8): lambda normaliser, parameter flow,
iteration = application order."""
from __future__ import annotations

import ast
import copy
from typing import Dict, List, Optional, Tuple

from . import astu
from .facts import Run
from .interp import Ctx, analyse_method
from .model import AnalysisError
from .report import RuleResult
from .terms import Child, Const, New, Sym

OPERATOR_FORMS = {
    "add": "+", "sub": "-", "mul": "*", "truediv": "/", "mod": "%", "floordiv": "//",
    "eq": "==", "ne": "!=", "lt": "<", "le": "<=", "gt": ">", "ge": ">=",
    "and_": "&", "or_": "|", "xor": "^",
}


# canonical forms confirmed against each helper's docstring.  INPUT = the value flowing through the pipeline,
# ⟨Pi⟩ = the helper's i-th parameter evaluated from the options, ``a >> b`` = a then b, ``{c -> ret v | …}`` = the
# paths of a named function under that binding, ``c ⇒ f || d ⇒ g`` = the step built under construction-time tests.
EXPECTED = {
    'map': 'λ builtins.map(⟨P0⟩, INPUT)',
    'filter': 'λ builtins.filter(⟨P0⟩, INPUT)',
    'reduce': 'λ {cmp:Is(⟨P1⟩,Const(MISSING))=F -> ret call:functools.reduce(⟨P0⟩,INPUT,⟨P1⟩) | cmp:Is(⟨P1⟩,Const(MISSING))=T -> ret call:functools.reduce(⟨P0⟩,INPUT)}',
    'into': 'step call:isinstance(INPUT,ext<typing.Mapping>)=F -> ret call:⟨P0⟩(star(INPUT)) | call:isinstance(INPUT,ext<typing.Mapping>)=T -> ret call:⟨P0⟩(kw:**(INPUT))',
    'flatten': 'λ Coll(elem(elem(INPUT)))',
    'flatmap': 'λ builtins.map(⟨P0⟩, INPUT) >> itertools.chain.from_iterable',
    'map_items': 'ID >> λ call:items(INPUT) >> λ builtins.map(⟨step call:isinstance(INPUT,ext<typing.Mapping>)=F -> ret call:⟨P0⟩(star(INPUT)) | call:isinstance(INPUT,ext<typing.Mapping>)=T -> ret call:⟨P0⟩(kw:**(INPUT))⟩, INPUT) >> dict >> types.MappingProxyType',
    'map_keys': 'ID >> λ call:items(INPUT) >> λ builtins.map(⟨step call:isinstance(INPUT,ext<typing.Mapping>)=F -> ret call:⟨λ Seq[call:⟨P0⟩(INPUT0),INPUT1]⟩(star(INPUT)) | call:isinstance(INPUT,ext<typing.Mapping>)=T -> ret call:⟨λ Seq[call:⟨P0⟩(INPUT0),INPUT1]⟩(kw:**(INPUT))⟩, INPUT) >> dict >> types.MappingProxyType',
    'map_values': 'ID >> λ call:items(INPUT) >> λ builtins.map(⟨step call:isinstance(INPUT,ext<typing.Mapping>)=F -> ret call:⟨λ Seq[INPUT0,call:⟨P0⟩(INPUT1)]⟩(star(INPUT)) | call:isinstance(INPUT,ext<typing.Mapping>)=T -> ret call:⟨λ Seq[INPUT0,call:⟨P0⟩(INPUT1)]⟩(kw:**(INPUT))⟩, INPUT) >> dict >> types.MappingProxyType',
    'filter_items': 'ID >> λ call:items(INPUT) >> λ builtins.filter(⟨step call:isinstance(INPUT,ext<typing.Mapping>)=F -> ret call:⟨P0⟩(star(INPUT)) | call:isinstance(INPUT,ext<typing.Mapping>)=T -> ret call:⟨P0⟩(kw:**(INPUT))⟩, INPUT) >> dict >> types.MappingProxyType',
    'filter_keys': 'ID >> λ call:items(INPUT) >> λ builtins.filter(⟨step call:isinstance(INPUT,ext<typing.Mapping>)=F -> ret call:⟨λ call:⟨P0⟩(INPUT0)⟩(star(INPUT)) | call:isinstance(INPUT,ext<typing.Mapping>)=T -> ret call:⟨λ call:⟨P0⟩(INPUT0)⟩(kw:**(INPUT))⟩, INPUT) >> dict >> types.MappingProxyType',
    'filter_values': 'ID >> λ call:items(INPUT) >> λ builtins.filter(⟨step call:isinstance(INPUT,ext<typing.Mapping>)=F -> ret call:⟨λ call:⟨P0⟩(INPUT1)⟩(star(INPUT)) | call:isinstance(INPUT,ext<typing.Mapping>)=T -> ret call:⟨λ call:⟨P0⟩(INPUT1)⟩(kw:**(INPUT))⟩, INPUT) >> dict >> types.MappingProxyType',
    'concat': 'λ Seq[star(INPUT),star(⟨P0⟩)]',
    'append': 'λ Seq[star(INPUT),star(⟨tuple[[P0]]⟩)]',
    'intersect': 'λ binop:BitAnd(set(INPUT),set(⟨P0⟩))',
    'union': 'λ binop:BitOr(set(INPUT),set(⟨P0⟩))',
    'difference': 'λ binop:Sub(set(INPUT),set(⟨P0⟩))',
    'symmetric_difference': 'λ binop:BitXor(set(INPUT),set(⟨P0⟩))',
    'get': 'λ { -> ret getitem(INPUT,⟨P0⟩) | cmp:Is(⟨P1⟩,Const(MISSING))=F & except (KeyError, IndexError) -> ret ⟨P1⟩}',
    'get_from': 'λ { -> ret getitem(⟨P0⟩,INPUT) | cmp:Is(⟨P1⟩,Const(MISSING))=F & except (KeyError, IndexError) -> ret ⟨P1⟩}',
    'add': 'λ binop:Add(INPUT,⟨P0⟩)',
    'subtract': 'λ binop:Sub(INPUT,⟨P0⟩)',
    'multiply': 'λ binop:Mult(INPUT,⟨P0⟩)',
    'left_multiply': 'λ binop:Mult(⟨P0⟩,INPUT)',
    'divide_by': 'λ binop:Div(INPUT,⟨P0⟩)',
    'divide_into': 'λ binop:Div(⟨P0⟩,INPUT)',
    'negate': 'λ unop:USub(INPUT)',
    'modulo': 'λ binop:Mod(INPUT,⟨P0⟩)',
    'merge': 'λ dict(dstar(INPUT),dstar(⟨P0⟩))',
    'length': 'len',
    'instance_of': 'λ call:isinstance(INPUT,⟨tuple[[*P0[*] …]]⟩)',
    'all': 'λ call:builtins.all(Coll(callres(elem(⟨tuple[[*P0[*] …]]⟩),INPUT)))',
    'any': 'λ call:builtins.any(Coll(callres(elem(⟨tuple[[*P0[*] …]]⟩),INPUT)))',
    'invert': 'λ unop:Not(call:⟨P0⟩(INPUT))',
    'eq': 'λ cmp:Eq(INPUT,⟨P0⟩)',
    'ne': 'λ cmp:NotEq(INPUT,⟨P0⟩)',
    'gt': 'λ cmp:Gt(INPUT,⟨P0⟩)',
    'ge': 'λ cmp:GtE(INPUT,⟨P0⟩)',
    'lt': 'λ cmp:Lt(INPUT,⟨P0⟩)',
    'le': 'λ cmp:LtE(INPUT,⟨P0⟩)',
    'has_remainder': 'λ cmp:Eq(binop:Mod(INPUT,⟨P0⟩),⟨P1⟩)',
    'positive': 'λ cmp:Gt(INPUT,⟨0⟩)',
    'negative': 'λ cmp:Lt(INPUT,⟨0⟩)',
    'non_positive': 'λ cmp:LtE(INPUT,⟨0⟩)',
    'non_negative': 'λ cmp:GtE(INPUT,⟨0⟩)',
    'even': 'λ cmp:Eq(binop:Mod(INPUT,⟨2⟩),⟨0⟩)',
    'odd': 'λ cmp:Eq(binop:Mod(INPUT,⟨2⟩),⟨1⟩)',
    'is_none': 'λ cmp:Is(INPUT,Const(None))',
    'is_not_none': 'λ unop:Not(call:⟨labrea.functions.is_none⟩(INPUT))',
    'is_in': 'λ cmp:In(INPUT,⟨P0⟩)',
    'is_not_in': 'λ unop:Not(call:⟨λ cmp:In(INPUT,⟨P0⟩)⟩(INPUT))',
    'one_of': 'λ cmp:In(INPUT,⟨tuple[[*P0[*] …]]⟩)',
    'none_of': 'λ unop:Not(call:⟨λ cmp:In(INPUT,⟨tuple[[*P0[*] …]]⟩)⟩(INPUT))',
    'contains': 'λ cmp:In(⟨P0⟩,INPUT)',
    'does_not_contain': 'λ unop:Not(call:⟨λ cmp:In(⟨P0⟩,INPUT)⟩(INPUT))',
    'intersects': 'λ binop:BitAnd(set(INPUT),set(⟨P0⟩)) >> bool',
    'disjoint_from': 'λ unop:Not(call:⟨λ binop:BitAnd(set(INPUT),set(⟨P0⟩)) >> bool⟩(INPUT))',
    'ensure': "cmp:Is(P1,Const(MISSING))=F ⇒ λ {call:⟨P0⟩(INPUT)=F -> raise new:AssertionError(⟨P1⟩) | call:⟨P0⟩(INPUT)=T -> ret INPUT} || cmp:Is(P1,Const(MISSING))=T ⇒ λ {call:⟨P0⟩(INPUT)=F -> raise new:AssertionError(⟨fstr('Predicate ', fmt!r(P0), ' failed')⟩) | call:⟨P0⟩(INPUT)=T -> ret INPUT}",
    'get_attribute': 'λ getattr(INPUT,⟨P0⟩)',
    'call_method': 'λ callres(getattr(INPUT,⟨P0⟩),star(⟨*P1⟩),kw:**(⟨**PK⟩))',
}


def _public_helpers(mod) -> Dict[str, ast.AST]:
    out: Dict[str, ast.AST] = {}
    for s in mod.tree.body:
        if isinstance(s, ast.FunctionDef) and not s.name.startswith("_") and not any("overload" in ast.unparse(d) for d in s.decorator_list):
            out[s.name] = s
        elif isinstance(s, ast.Assign) and len(s.targets) == 1 and isinstance(s.targets[0], ast.Name) and isinstance(s.value, ast.Call) and not s.targets[0].id.startswith("_"):
            out[s.targets[0].id] = s
        elif isinstance(s, ast.AnnAssign) and isinstance(s.target, ast.Name) and isinstance(s.value, ast.Call) and not s.target.id.startswith("_"):
            out[s.target.id] = s        # ``flatten: Final[PipelineStep[...]] = PipelineStep(...)``
    return out


def _helper_semantics(run: Run):
    """name -> (node, forms, StepSem) for every public helper of labrea.functions that builds a step (cached per run)."""
    cache = run.__dict__.setdefault("_helper_sem", None)
    if cache is not None:
        return cache
    from . import stepsem
    mod = run.repo.modules.get("labrea.functions")
    if mod is None:
        raise AnalysisError("labrea/functions.py not found")
    out = {}
    for name, node in _public_helpers(mod).items():
        if name == "partial":
            continue
        if isinstance(node, ast.FunctionDef):
            forms, sem = stepsem.helper_forms(run.repo, mod, node)
        else:
            forms, sem = stepsem.instance_forms(run.repo, mod, node.value, node.lineno)
        if forms:
            out[name] = (node, forms, sem)
    run.__dict__["_helper_sem"] = (mod, out)
    return mod, out


def rule_HO(run: Run) -> RuleResult:
    res = RuleResult("R-HO")
    nec = ("each helper step computes the documented Python operation with the documented operand "
           "order (subtract: input - x, divide_into: x / input, get vs get_from, contains vs is_in …)")
    mod, sems = _helper_semantics(run)
    f = mod.relpath
    for name, (node, forms, sem) in sems.items():
        form = " || ".join(forms)
        want = EXPECTED.get(name)
        if want is None:
            res.notes.append(f"helper {name} has no table row (form: {form}) — not judged")
            continue
        want = want.replace("ID >> ", "")        # (the empty pipeline in front of a chain is the chain: see stepsem)
        res.add(f"labrea.functions.{name}:operand order", form == want, f, node.lineno,
                f"derived `{form}`" + ("" if form == want else f" — documented behaviour is `{want}`"), nec)
    missing = sorted(set(EXPECTED) - set(sems))
    for name in missing:
        res.add(f"labrea.functions.{name}:operand order", False, f, 0, "the helper is gone or no longer builds a pipeline step", nec)
    res.count("helpers", len(sems))
    if len(sems) < 55:
        raise AnalysisError(f"only {len(sems)} helper steps reduced (61 confirmed by hand)")
    # PartialApplication.lift / partial(): helper parameters are positional/keyword arguments of the partial
    pf = next((s for s in mod.tree.body if isinstance(s, ast.FunctionDef) and s.name == "partial"), None)
    ok = pf is not None
    if ok:
        from .interp import analyse_function
        pps_ = analyse_function(Ctx(run.repo), mod, pf)
        fp_ = [a.arg for a in pf.args.posonlyargs + pf.args.args][0]
        ok = bool(pps_) and all(p.status == "ret" and isinstance(p.ret, New) and p.ret.cls.name == "PartialApplication" and p.ret.attrs.get("func") is not None
                                and fp_ in p.ret.attrs["func"].key() and "*args" in p.ret.key() and "**kwargs" in p.ret.key() for p in pps_)
    res.add("labrea.functions.partial:is PartialApplication(func, *args, **kwargs)", ok, f, pf.lineno if pf else 0, "", nec)
    return res


# ------------------------------------------------------------------ R-HF
def rule_HF(run: Run) -> RuleResult:
    res = RuleResult("R-HF")
    nec = ("a helper parameter captured in a closure instead of being handed to partial()/PipelineStep "
           "is frozen at construction and hidden from keys()/explain(): add(Option('X')) would add the Option object")
    mod, sems = _helper_semantics(run)
    f = mod.relpath
    n = n_m = 0
    # … and as an expression when it is one: the parameter is asked whether it is an Evaluatable (ensure); wrapped without asking
    # (unit, Value(x)) an Option or dataset given as the operand is a constant — never evaluated, its keys never reported.  A parameter
    # is asked when a path of the helper tests it (or its elements) for Evaluatable, when it is the default of a parameter of a nested
    # @pipeline_step function (the decorator lifts — ensures — the defaults), or when it is handed on to such a parameter of another helper
    import re as _re
    asked_params = set()
    for name, (fn, forms, sem) in sems.items():
        if not isinstance(fn, ast.FunctionDef):
            continue
        names = [a.arg for a in fn.args.posonlyargs + fn.args.args + fn.args.kwonlyargs]
        for a in fn.args.posonlyargs + fn.args.args + fn.args.kwonlyargs + ([fn.args.vararg] if fn.args.vararg else []):
            tag = f"P{names.index(a.arg)}" if a.arg in names else f"P{len(names)}"
            if any(_re.match(r"call:isinstance\((?:Child\(\*{1,2}|elem\()?%s(?:\[\*\])?\)?,class<" % tag, c) for c in sem.ensured) or any(
                    isinstance(g, ast.FunctionDef) and g is not fn and any(ast.unparse(d_).split(".")[-1] == "pipeline_step" for d_ in g.decorator_list)
                    and any(isinstance(dv, ast.Name) and dv.id == a.arg for dv in g.args.defaults + [x for x in g.args.kw_defaults if x is not None])
                    for g in ast.walk(fn)):
                asked_params.add((name, a.arg))
    grew = True
    while grew:
        grew = False
        for name, (fn, forms, sem) in sems.items():
            if not isinstance(fn, ast.FunctionDef):
                continue
            for c in ast.walk(fn):
                if isinstance(c, ast.Call) and isinstance(c.func, ast.Name) and c.func.id in sems and isinstance(sems[c.func.id][0], ast.FunctionDef):
                    cal = sems[c.func.id][0]
                    cps = [x.arg for x in cal.args.posonlyargs + cal.args.args]
                    for i, av in enumerate(c.args):
                        if isinstance(av, ast.Name) and i < len(cps) and (c.func.id, cps[i]) in asked_params and (name, av.id) not in asked_params:
                            asked_params.add((name, av.id))
                            grew = True
    for name, (fn, forms, sem) in sems.items():
        if not isinstance(fn, ast.FunctionDef):
            continue
        names = [a.arg for a in fn.args.posonlyargs + fn.args.args + fn.args.kwonlyargs]
        allp = fn.args.posonlyargs + fn.args.args + fn.args.kwonlyargs + ([fn.args.vararg] if fn.args.vararg else [])
        for a in allp:
            ann = ast.unparse(a.annotation) if a.annotation is not None else ""
            if not ("MaybeEvaluatable" in ann or name in ("eq", "ne", "gt", "ge", "lt", "le")):
                continue
            n += 1
            tag = f"P{names.index(a.arg)}" if a.arg in names else f"P{len(names)}"
            captured = [c for c in sem.captured if tag in c]
            passed = tag in sem.evaluated
            ok = passed and not captured
            res.add(f"labrea.functions.{name}:{a.arg} flows into the step as an evaluated argument", ok, f, fn.lineno,
                    "passed to partial()/helper as an argument" if ok else ("captured in a closure" if captured else "never handed to the step"), nec)
            asked = (name, a.arg) in asked_params
            if ok and "MaybeEvaluatable" in ann:
                n_m += 1
                res.add(f"labrea.functions.{name}:{a.arg} is evaluated when it is an expression (ensure, not a constant wrapper)", asked, f, fn.lineno,
                        "the step asks whether the operand is an Evaluatable" if asked else
                        f"no path of {name}() asks whether `{a.arg}` is an Evaluatable: it reaches the step wrapped as a constant, an Option or dataset "
                        "given as the operand is compared/combined as an object and none of evaluate/validate/keys/explain is issued for it",
                        "step parameters are evaluated from the same options at evaluation time and reported by keys()/explain() (C13); every operation on "
                        "an expression that is part of the graph is issued as a request (C18)")
    res.count("parameters", n)
    res.count("maybe_evaluatable_parameters", n_m)
    if n < 45:
        raise AnalysisError(f"R-HF found only {n} option-valued helper parameters")
    return res


# ------------------------------------------------------------------ R-PI
def rule_PI(run: Run) -> RuleResult:
    res = RuleResult("R-PI")
    repo = run.repo
    nec = ("iterating a pipeline yields its steps in application order and + appends the right operand's "
           "steps after the left one's; (p + q).transform(x) == q.transform(p.transform(x)) (C13)")
    pl = repo.cls("Pipeline")
    f = pl.module.relpath
    it = pl.methods.get("__iter__")
    if it is None:
        raise AnalysisError("Pipeline.__iter__ not found")
    from .facts import cond_pol
    from .interp import analyse_function
    ips = analyse_function(Ctx(repo), pl.module, it, cls=pl)
    forms = []
    ok_it = bool(ips)
    for p in ips:
        k = p.ret.key() if p.status == "ret" and p.ret is not None else p.status
        has_rest = {True: False, False: True}.get(cond_pol(p.conds, "cmp:Is(attr:rest(self),Const(None))"), cond_pol(p.conds, "attr:rest(self)"))
        forms.append(f"rest {'present' if has_rest else 'absent' if has_rest is False else '?'}: {k}")
        # the steps of rest first (when there is one), then the tail
        want = (("Coll(oneof(elem(attr:rest(self)),attr:tail(self)))", "Seq[star(attr:rest(self)),attr:tail(self)]") if has_rest
                else ("Coll(attr:tail(self))", "Seq[attr:tail(self)]"))
        if has_rest is None or k not in want:
            ok_it = False
    res.add("labrea.pipeline.Pipeline.__iter__:rest before tail", ok_it, f, it.lineno, f"yields {forms}", nec)
    ad = pl.methods.get("__add__")
    if ad is None:
        raise AnalysisError("Pipeline.__add__ not found")
    # ``self + other`` is decided per shape of the right operand: a step, a plain callable, the empty pipeline and
    # pipelines of 1, 2 and 3 steps.  A shape is a set of facts about ``other`` and its chain of ``.rest`` nodes
    # (which the interpreter takes as already established on the path); under them every test of __add__ is
    # decided, loops run to their end, and the returned term must flatten to the steps of self followed by the
    # steps of other in application order.  ``a + b`` inside the result flattens by the induction hypothesis
    # (b is a single step or a proper sub-chain of other).
    from .interp import Frame, Path as IPath, SELF
    from .terms import Term
    PS, PL = "class<labrea.pipeline.PipelineStep>", "class<labrea.pipeline.Pipeline>"
    opar = astu.param_names(ad)[0]

    def chain(n):
        return [opar] + [("attr:rest(" * k) + opar + (")" * k) for k in range(1, n)]

    def facts(kind, n=0):
        out = []
        if kind == "step":
            out.append((f"call:isinstance({opar},{PS})", True))
        elif kind == "callable":
            out += [(f"call:isinstance({opar},{PS})", False), (f"call:isinstance({opar},{PL})", False)]
        elif kind == "empty":
            out += [(f"call:isinstance({opar},{PS})", False), (f"call:isinstance({opar},{PL})", True), (f"attr:empty({opar})", True)]
        else:
            nodes = chain(n)
            for k, o in enumerate(nodes):
                out += [(f"call:isinstance({o},{PS})", False), (f"call:isinstance({o},{PL})", True), (f"attr:empty({o})", False),
                        (f"cmp:Is(attr:rest({o}),Const(None))", k == n - 1), (f"attr:rest({o})", k != n - 1)]
        return out

    def expected(kind, n=0):
        if kind == "step":
            return ["SELF", opar]
        if kind == "callable":
            return ["SELF", f"step({opar})"]
        if kind == "empty":
            return ["SELF"]
        return ["SELF"] + [f"attr:tail({o})" for o in reversed(chain(n))]

    def flatten(t, sub):
        """Steps of a pipeline term, or None when it is not understood."""
        if t is None:
            return None
        k = t.key()
        if k == SELF.key():
            return ["SELF"]
        if isinstance(t, Sym) and t.head == "call:typing.cast" and len(t.args) == 2:
            return flatten(t.args[1], sub)
        if isinstance(t, New) and t.cls.name == "Pipeline":
            rest, tail = t.attrs.get("rest"), t.attrs.get("tail")
            if isinstance(rest, Sym) and rest.head == "oneof":
                cands = [a for a in rest.args if not (isinstance(a, Const) and a.v is None)]
                rest = cands[0] if len(cands) == 1 else None
            head = [] if isinstance(rest, Const) and rest.v is None else flatten(rest, sub)
            one = step_of(tail)
            return None if head is None or one is None else head + [one]
        if isinstance(t, Sym) and t.head == "binop:Add" and len(t.args) == 2:
            a = flatten(t.args[0], sub)
            bk = t.args[1].key()
            if bk in sub:                       # a proper sub-chain of other: induction hypothesis
                b = sub[bk]
            else:
                one = step_of(t.args[1])
                b = None if one is None else [one]
            return None if a is None or b is None else a + b
        return None

    def step_of(t):
        if t is None:
            return None
        k = t.key()
        if k == opar or (k.startswith("attr:tail(") and k.endswith(")")):
            return k
        if isinstance(t, New) and t.cls.name == "PipelineStep":
            s_ = t.attrs.get("step")
            if s_ is not None and (s_.key() == opar or (isinstance(s_, New) and s_.attrs.get("value") is not None and s_.attrs["value"].key() == opar)):
                return f"step({opar})"
        return None

    shapes = [("step", 0), ("callable", 0), ("empty", 0), ("chain", 1), ("chain", 2), ("chain", 3)]
    ok = True
    d = ""
    n_paths = 0
    for kind, n in shapes:
        ctx = Ctx(repo)
        ctx.root_cls = pl
        fr = Frame(ctx, pl.module, pl, SELF, None, 0, (), "Pipeline.__add__")
        p0 = IPath()
        for key, pol in facts(kind, n):
            p0.conds.append((f"<shape {kind}{n or ''}>", pol, key))
        names = [a.arg for a in ad.args.posonlyargs + ad.args.args]
        env = {names[0]: SELF, opar: Sym(opar)}
        ctx.unfolding.append((pl.qualname, "__add__"))
        outs = fr.run_function(ad, env, p0)
        ctx.unfolding.pop()
        n_paths += len(outs)
        want = expected(kind, n)
        sub = {}
        if kind == "chain":
            nodes = chain(n)
            for k in range(1, n):
                sub[nodes[k]] = [f"attr:tail({o})" for o in reversed(nodes[k:])]
        label = kind if kind != "chain" else f"a pipeline of {n} step{'s' if n > 1 else ''}"
        if not outs:
            ok = False
            d = d or f"right operand {label}: no path"
        for p in outs:
            if p.status != "ret":
                ok = False
                d = d or f"right operand {label}: a path ends in {p.status} ({p.exc[0] if p.exc else ''})"
                continue
            got = flatten(p.ret, sub)
            if got != want:
                ok = False
                d = d or f"right operand {label}: returns {p.ret.key()[:110]} = steps {got}, expected {want}"
    res.count("paths", n_paths)
    res.add("labrea.pipeline.Pipeline.__add__:right operand's steps appended after self, in order", ok, f, ad.lineno,
            d or f"{len(shapes)} shapes of the right operand (step, callable, empty, 1-3 steps), {n_paths} paths: the result's steps are self's then other's, in order", nec)
    # Pipeline.__init__ drops an empty rest; empty means Identity tail and no rest
    init = pl.methods.get("__init__")
    ok = init is not None
    if ok:
        ip_ = astu.param_names(init)
        tail_p, rest_p = ip_[0], ip_[1]
        for p in analyse_function(Ctx(repo), pl.module, init, cls=pl):
            if p.status != "ret":
                continue
            st = {e.args[1].key(): e.target.key() for e in p.events if e.kind == "store" and len(e.args) == 2 and e.args[0].key() == "self" and e.target is not None}
            is_none = cond_pol(p.conds, f"cmp:Is({rest_p},Const(None))")
            empty = cond_pol(p.conds, f"attr:empty({rest_p})")
            # an empty rest is normalised to None (storing `rest` on the path where it is None is the same thing)
            want_rest = {"Const(None)"} | ({rest_p} if is_none is True else set()) if (is_none is True or empty is True) else {rest_p}
            if st.get("Const('tail')") is None or st.get("Const('rest')") not in want_rest:
                ok = False
    res.add("labrea.pipeline.Pipeline.__init__:stores tail and rest, normalising an empty rest to None", ok, f, init.lineno if init else 0, "", nec)
    em = pl.methods.get("empty")
    ok = em is not None
    shown = []
    if ok:
        from .facts import bool_atoms
        for p in analyse_function(Ctx(repo), pl.module, em, cls=pl):
            k = p.ret.key() if p.status == "ret" and p.ret is not None else p.status
            shown.append(k[:120])
            ats = bool_atoms(p.ret) if p.ret is not None else []
            if not (getattr(p.ret, "head", "") == "and" and len(ats) == 2 and any(a_.startswith("cmp:Eq(attr:tail(self),") and "_identity" in a_ for a_ in ats)
                    and "cmp:Is(attr:rest(self),Const(None))" in ats):
                ok = False
    res.add("labrea.pipeline.Pipeline.empty:Identity tail and no rest", ok, f, em.lineno if em else 0, f"{shown}", nec)
    ps_ = repo.cls("PipelineStep")
    ad2 = ps_.methods.get("__add__")
    ok = ad2 is not None
    if ok:
        oth = astu.param_names(ad2)[0]
        aps = analyse_function(Ctx(repo), ps_.module, ad2, cls=ps_)
        def _is_single(t):
            return isinstance(t, New) and t.cls.name == "Pipeline" and t.attrs.get("tail") is not None and t.attrs["tail"].key() == "self" \
                and t.attrs.get("rest") is not None and t.attrs["rest"].key() == "Const(None)"
        ok = bool(aps) and all(p.status == "ret" and isinstance(p.ret, Sym) and p.ret.head == "binop:Add" and len(p.ret.args) == 2
                               and _is_single(p.ret.args[0]) and p.ret.args[1].key() == oth for p in aps)
    res.add("labrea.pipeline.PipelineStep.__add__:Pipeline(self) + other", ok, f, ad2.lineno if ad2 else 0, "", nec)
    # pipeline_step: first parameter is the input (no default), the rest are option-valued defaults
    psf = repo.func("labrea.pipeline.pipeline_step")
    fpar = [a.arg for a in psf.node.args.posonlyargs + psf.node.args.args][0]
    pps = [p for p in analyse_function(Ctx(repo), psf.module, psf.node) if p.status == "ret" and cond_pol(p.conds, f"cmp:Is({fpar},Const(None))") is False]
    ok = bool(pps)
    for p in pps:
        r_ = p.ret
        stp = r_.attrs.get("step") if isinstance(r_, New) and r_.cls.name == "PipelineStep" else None
        if not (isinstance(stp, New) and stp.cls.name == "PartialApplication" and stp.attrs.get("func") is not None and fpar in stp.attrs["func"].key()):
            ok = False
    res.add("labrea.pipeline.pipeline_step:PipelineStep(PartialApplication.lift(func), name)", ok, f, psf.node.lineno, f"{len(pps)} paths that lift a given function", nec)
    # PartialApplication.lift: every defaulted parameter becomes an evaluated keyword
    pa = repo.cls("PartialApplication")
    lf = pa.methods.get("lift")
    ok = False
    why = "PartialApplication.lift not found"
    if lf is not None:
        from .facts import cond_pol
        from .interp import Frame, analyse_function
        lps = [p for p in analyse_function(Ctx(repo), pa.module, lf) if p.status == "ret"]
        fparam = [a_.arg for a_ in lf.args.posonlyargs + lf.args.args if a_.arg not in ("cls", "self")][0]
        direct = [p for p in lps if cond_pol(p.conds, f"cmp:Is({fparam},Const(None))") is False]
        ok, why = bool(direct), "" if direct else "no path lifts a given function"
        saw_kept = saw_dropped = False
        for p in direct:
            r_ = p.ret
            if not (isinstance(r_, New) and r_.cls.name == "PartialApplication" and r_.attrs.get("func") is not None and fparam in r_.attrs["func"].key()):
                ok, why = False, f"returns {r_.key()[:80]}"
                continue
            gets = [e for e in p.events if e.kind == "call" and e.text.endswith("kwargs.get")]
            # comprehension filters hold for every element that was kept
            at = Frame.atoms(list(p.conds) + [(e.text, True, e.target.key()) for e in p.events if e.kind == "filter" and e.target is not None])
            for e in gets:
                a0_, a1_ = (e.args[0].key(), e.args[1].key()) if len(e.args) == 2 else ("", "")
                # (``signature.parameters`` maps each parameter's name to the parameter: its key is param.name)
                by_item = a0_.startswith("key(attr:parameters(") and a1_ == "attr:default(elem(" + a0_[len("key("):] + ")"
                if len(e.args) != 2 or not (by_item or (a0_.startswith("attr:name(") and a1_ == "attr:default(" + a0_[len("attr:name("):])):
                    ok, why = False, f"default looked up as kwargs.get({', '.join(a_.key()[:40] for a_ in e.args)})"
            kw_ = r_.attrs.get("arguments")
            kk = kw_.key() if kw_ is not None else ""
            looked = "kwargs.get()" in kk
            empties = [v for k_, v in at.items() if k_.startswith("cmp:Is(") and "kwargs.get()" in k_ and "attr:empty(" in k_]
            if looked:
                saw_kept = True
                if not empties or any(v is True for v in empties):
                    ok, why = False, "a parameter without a default is turned into an evaluated keyword"
            elif gets and empties and all(v is False for v in empties):
                ok, why = False, "a defaulted parameter is not evaluated from the options"
            elif gets and empties:
                saw_dropped = True
            if any(e.kind == "filter" and e.target is not None and "attr:empty(" in e.target.key() and "kwargs.get()" in e.target.key() for e in p.events):
                saw_dropped = True      # a comprehension filter drops the parameters without default
        if ok and not (saw_kept and saw_dropped):
            ok, why = False, f"defaulted parameter kept on some path: {saw_kept}; parameter without default left open on some path: {saw_dropped}"
    res.add("labrea.application.PartialApplication.lift:defaulted parameters evaluated from options", ok, pa.module.relpath, lf.lineno if lf else 0, why, nec)
    return res
