"""Def-use analysis of a *value walk*: code that receives a JSON-like value and must visit every string in it,
however deeply it is nested in lists and mappings.

The walk may be written recursively (``f(item) for item in value``), with a comprehension, or with an explicit
work list (``pending.extend(...)`` / ``pending.pop()``); it may live in a method, a static method, a module-level
function of another module, or be split over several of them.  What all correct forms share is visible in the
def-use graph of the functions involved:

 * a variable holding (a part of) the value is tested for each kind the resolver follows (``str``, ``Mapping``,
   ``list``);
 * in the branch that recognises a ``str`` the string is wrapped in ``Template`` (the object whose
   keys()/explain() report the referenced keys);
 * in the branch that recognises a container, its *elements* (for a mapping: its *values*) flow — through
   assignments, ``list()``/``reversed()``, iteration, ``extend``/``append``/``pop`` — back to a variable that is
   again tested for every kind (or into the cursor parameter of a recursive call).

The graph's nodes are local names; an edge records how the destination is obtained from the source:
``delta`` (-1: an element of it, 0: the same collection, +1: a collection holding it) and ``label``
(``values`` / ``keys`` / ``partial`` / ``plain``: which part of the source).  Control flow enters only as
"can statement B run after statement A" (later in the same block nest, not in the other arm of the same ``if``,
or anywhere inside a loop both belong to).
"""
import ast
from typing import Dict, List, Optional, Set, Tuple

from . import astu

TRANSPARENT = {"list", "tuple", "reversed", "sorted", "iter", "set", "frozenset", "deque", "collections.deque"}
ADDERS0 = {"extend", "update", "extendleft", "__iadd__"}      # destination holds the elements of the argument
ADDERS1 = {"append", "add", "appendleft", "insert", "push"}  # destination holds the argument as an element
TAKERS = {"pop", "popleft", "get"}


class Edge:
    __slots__ = ("src", "dst", "delta", "label", "node", "rec")

    def __init__(self, src, dst, delta, label, node, rec=False):
        self.src, self.dst, self.delta, self.label, self.node, self.rec = src, dst, delta, label, node, rec

    def __repr__(self):
        return f"{self.src}-[{self.label}{self.delta:+d}{' rec' if self.rec else ''}]->{self.dst}@{getattr(self.node, 'lineno', 0)}"


class Test:
    __slots__ = ("var", "kinds", "node", "region", "negated")

    def __init__(self, var, kinds, node, region):
        self.var, self.kinds, self.node, self.region = var, kinds, node, region


class FnFlow:
    """Flow graph of one function."""

    def __init__(self, fn: ast.FunctionDef, is_self_call):
        self.fn = fn
        self.parents = astu.parent_map(fn)
        self.edges: List[Edge] = []
        self.tests: List[Test] = []
        self.assigns: List[Tuple[str, ast.AST, Set[str]]] = []   # plain re-bindings: (name, statement, names read)
        self.is_self_call = is_self_call      # Call -> index offset of the positional arguments or None
        self.params = [a.arg for a in fn.args.posonlyargs + fn.args.args]
        self._collect()

    # ------------------------------------------------------------------ sources of an expression
    def sources(self, e: ast.AST, delta=0, label="plain") -> List[Tuple[str, int, str]]:
        """(name, delta, label) for every local name whose value (or part of it) the expression denotes."""
        if isinstance(e, ast.Name):
            return [(e.id, delta, label)]
        if isinstance(e, ast.Starred):
            return self.sources(e.value, delta, label)
        if isinstance(e, (ast.List, ast.Tuple, ast.Set)):
            out = []
            for x in e.elts:
                if isinstance(x, ast.Starred):
                    out += self.sources(x.value, delta, label)
                else:
                    out += self.sources(x, delta + 1, label)
            return out
        if isinstance(e, ast.Call):
            f = e.func
            if isinstance(f, ast.Attribute) and not e.keywords:
                if f.attr in ("values", "keys", "items") and not e.args:
                    lab = f.attr if label == "plain" else label
                    return self.sources(f.value, delta, lab)
                if f.attr in TAKERS:
                    return self.sources(f.value, delta - 1, label)
                if f.attr == "copy" and not e.args:
                    return self.sources(f.value, delta, label)
            name = astu.callee_name(e)
            if name in TRANSPARENT and len(e.args) == 1 and not e.keywords:
                return self.sources(e.args[0], delta, label)
            if name == "next" and e.args:
                return self.sources(e.args[0], delta - 1, label)
            if name in ("itertools.chain", "chain"):
                return [s for a in e.args for s in self.sources(a, delta, label)]
            if name in ("itertools.chain.from_iterable", "chain.from_iterable") and len(e.args) == 1:
                return self.sources(e.args[0], delta - 1, label)
            return []
        if isinstance(e, ast.Subscript):
            s = e.slice
            if isinstance(s, ast.Slice):
                return self.sources(e.value, delta, "partial")
            if isinstance(s, ast.Constant):
                return self.sources(e.value, delta - 1, "partial")
            return self.sources(e.value, delta - 1, label)
        if isinstance(e, ast.IfExp):
            return self.sources(e.body, delta, label) + self.sources(e.orelse, delta, label)
        if isinstance(e, ast.BoolOp):
            return [s for v in e.values for s in self.sources(v, delta, label)]
        if isinstance(e, ast.BinOp) and isinstance(e.op, ast.Add):
            return self.sources(e.left, delta, label) + self.sources(e.right, delta, label)
        if isinstance(e, (ast.ListComp, ast.SetComp, ast.GeneratorExp)):
            # [x for x in s] holds what its element expression denotes; the generators add their own edges
            return [(n, d + 1, l) for n, d, l in self.sources(e.elt, delta, label)]
        if isinstance(e, ast.NamedExpr):
            return self.sources(e.value, delta, label)
        return []

    def _bind(self, target: ast.AST, srcs, node, from_items=False):
        if isinstance(target, ast.Name):
            for n, d, l in srcs:
                self.edges.append(Edge(n, target.id, d, l, node))
        elif isinstance(target, (ast.Tuple, ast.List)) and from_items and len(target.elts) == 2:
            for i, t in enumerate(target.elts):
                if isinstance(t, ast.Name):
                    for n, d, l in srcs:
                        self.edges.append(Edge(n, t.id, d, ("keys", "values")[i] if l == "items" else l, node))
        elif isinstance(target, (ast.Tuple, ast.List)):
            for t in target.elts:
                self._bind(t, [(n, d - 1, "partial") for n, d, l in srcs], node)

    # ------------------------------------------------------------------ collection
    def _collect(self):
        for x in ast.walk(self.fn):
            if isinstance(x, (ast.FunctionDef, ast.AsyncFunctionDef, ast.Lambda)) and x is not self.fn:
                continue
            if isinstance(x, ast.Assign):
                srcs = self.sources(x.value)
                for t in x.targets:
                    self._bind(t, srcs, x)
                    if isinstance(t, ast.Name):
                        self.assigns.append((t.id, x, {n.id for n in ast.walk(x.value) if isinstance(n, ast.Name)}))
            elif isinstance(x, ast.AnnAssign) and x.value is not None:
                self._bind(x.target, self.sources(x.value), x)
            elif isinstance(x, ast.AugAssign) and isinstance(x.target, ast.Name):
                self._bind(x.target, self.sources(x.value), x)
            elif isinstance(x, ast.NamedExpr):
                self._bind(x.target, self.sources(x.value), x)
            elif isinstance(x, (ast.For, ast.AsyncFor)):
                srcs = [(n, d - 1, l) for n, d, l in self.sources(x.iter)]
                self._bind(x.target, srcs, x, from_items=any(l == "items" for _, _, l in srcs))
            elif isinstance(x, ast.comprehension):
                srcs = [(n, d - 1, l) for n, d, l in self.sources(x.iter)]
                self._bind(x.target, srcs, x, from_items=any(l == "items" for _, _, l in srcs))
            elif isinstance(x, ast.Call):
                f = x.func
                if isinstance(f, ast.Attribute) and isinstance(f.value, ast.Name) and x.args:
                    if f.attr in ADDERS0:
                        for n, d, l in self.sources(x.args[-1]):
                            self.edges.append(Edge(n, f.value.id, d, l, x))
                    elif f.attr in ADDERS1:
                        for n, d, l in self.sources(x.args[-1]):
                            self.edges.append(Edge(n, f.value.id, d + 1, l, x))
                off = self.is_self_call(x)
                if off is not None:
                    # a recursive call: the arguments flow into the parameters
                    ps = self.params[off:]
                    for i, a in enumerate(x.args):
                        if i < len(ps):
                            for n, d, l in self.sources(a):
                                self.edges.append(Edge(n, ps[i], d, l, x, rec=True))
                    for k in x.keywords:
                        if k.arg in self.params:
                            for n, d, l in self.sources(k.value):
                                self.edges.append(Edge(n, k.arg, d, l, x, rec=True))
                if astu.callee_name(x) in ("map", "filter", "itertools.starmap") and len(x.args) >= 2 and isinstance(x.args[0], ast.Lambda):
                    # map(lambda item: …, xs): the parameter ranges over the elements of xs
                    lam = x.args[0]
                    lps = [a.arg for a in lam.args.posonlyargs + lam.args.args]
                    for prm, it in zip(lps, x.args[1:]):
                        for n, d, l in self.sources(it):
                            self.edges.append(Edge(n, prm, d - 1, l, x))
            elif hasattr(ast, "Match") and isinstance(x, ast.Match) and isinstance(x.subject, ast.Name):
                # ``match value: case str(): … case Mapping(): …`` is the isinstance chain
                for case in x.cases:
                    pats = case.pattern.patterns if isinstance(case.pattern, ast.MatchOr) else [case.pattern]
                    kinds = {ast.unparse(q_.cls).split(".")[-1] for q_ in pats if isinstance(q_, ast.MatchClass) and not q_.patterns and not q_.kwd_patterns}
                    if kinds:
                        self.tests.append(Test(x.subject.id, kinds, case.pattern, list(case.body)))
            if isinstance(x, ast.Call):
                if astu.short_name(x) == "isinstance" and len(x.args) == 2 and isinstance(x.args[0], ast.Name):
                    t = x.args[1]
                    kinds = {ast.unparse(y).split(".")[-1] for y in (t.elts if isinstance(t, ast.Tuple) else [t])}
                    self.tests.append(Test(x.args[0].id, kinds, x, self._region(x)))

    def _region(self, test: ast.Call) -> List[ast.AST]:
        """Nodes that run only when the test holds."""
        cur: ast.AST = test
        neg = False
        while True:
            par = self.parents.get(id(cur))
            if par is None:
                return []
            if isinstance(par, (ast.Assign, ast.AnnAssign)) and par.value is cur:
                # the test is kept in a local and used by a following ``if`` (before the local is re-bound)
                tg = par.targets[0] if isinstance(par, ast.Assign) and len(par.targets) == 1 else getattr(par, "target", None)
                if not isinstance(tg, ast.Name):
                    return []
                for st in self._following(par):
                    uses = [x for x in ast.walk(st.test) if isinstance(x, ast.Name) and x.id == tg.id] if isinstance(st, (ast.If, ast.While)) else []
                    if uses:
                        cur = uses[0]
                        break
                    if any(isinstance(x, ast.Name) and x.id == tg.id and isinstance(x.ctx, ast.Store) for x in ast.walk(st)):
                        return []
                else:
                    return []
                continue
            if isinstance(par, ast.UnaryOp) and isinstance(par.op, ast.Not):
                neg = not neg
                cur = par
                continue
            if isinstance(par, ast.BoolOp) and isinstance(par.op, ast.And) and not neg:
                cur = par
                continue
            if isinstance(par, ast.If) and par.test is cur:
                if not neg:
                    return list(par.body)
                # ``if not isinstance(...): <exit>`` guards everything that follows
                out = list(par.orelse)
                if par.body and isinstance(par.body[-1], (ast.Return, ast.Raise, ast.Continue, ast.Break)):
                    out += self._following(par)
                return out
            if isinstance(par, ast.IfExp) and par.test is cur:
                return [par.orelse if neg else par.body]
            if isinstance(par, ast.While) and par.test is cur and not neg:
                return list(par.body)
            if isinstance(par, ast.comprehension) and cur in par.ifs and not neg:
                comp = self.parents.get(id(par))
                out = [getattr(comp, "elt", None), getattr(comp, "key", None), getattr(comp, "value", None)]
                gens = comp.generators
                out += gens[gens.index(par) + 1:]
                return [o for o in out if o is not None]
            return []

    def _following(self, st: ast.AST) -> List[ast.AST]:
        par = self.parents.get(id(st))
        for fld in ("body", "orelse", "finalbody"):
            blk = getattr(par, fld, None)
            if isinstance(blk, list) and st in blk:
                return blk[blk.index(st) + 1:]
        return []

    # ------------------------------------------------------------------ order
    def _chain(self, n: ast.AST) -> List[ast.AST]:
        out = [n]
        while id(out[-1]) in self.parents:
            out.append(self.parents[id(out[-1])])
        return out

    def may_follow(self, a: ast.AST, b: ast.AST) -> bool:
        """May ``b`` run after ``a`` (in the same activation)?"""
        ca, cb = self._chain(a), self._chain(b)
        ids_b = {id(x): i for i, x in enumerate(cb)}
        for i, x in enumerate(ca):
            if id(x) in ids_b:
                lca, ia, ib = x, i, ids_b[id(x)]
                break
        else:
            return False
        # inside a common loop (or comprehension) everything may follow everything
        for x in ca[ia:]:
            if isinstance(x, (ast.For, ast.AsyncFor, ast.While, ast.ListComp, ast.SetComp, ast.GeneratorExp, ast.DictComp)):
                return True
        if a is lca or b is lca:
            return True
        sa, sb = ca[ia - 1], cb[ib - 1]
        if isinstance(lca, ast.If):
            in_body_a, in_body_b = sa in lca.body, sb in lca.body
            in_else_a, in_else_b = sa in lca.orelse, sb in lca.orelse
            if (in_body_a and in_else_b) or (in_else_a and in_body_b):
                return False
            if sa is lca.test:
                return True
            if sb is lca.test:
                return False
        if hasattr(ast, "Match") and isinstance(lca, ast.Match) and sa is not lca.subject and sb is not lca.subject and sa is not sb:
            return False        # two different cases of one match statement
        pa = (getattr(sa, "lineno", 0), getattr(sa, "col_offset", 0))
        pb = (getattr(sb, "lineno", 0), getattr(sb, "col_offset", 0))
        if pb < pa:
            return False
        # a return/raise/continue/break that ends a's statement list before b is reached
        for x in ca[:ia]:
            par = self.parents.get(id(x))
            for fld in ("body", "orelse"):
                blk = getattr(par, fld, None)
                if isinstance(blk, list) and x in blk and par in ca[: ia + 1] and par is not lca:
                    if any(isinstance(s, (ast.Return, ast.Raise)) for s in blk[blk.index(x):]):
                        return False
        return True

    def within(self, node: ast.AST, region: List[ast.AST]) -> bool:
        ids = {id(x) for r in region for x in ast.walk(r)}
        return id(node) in ids

    # ------------------------------------------------------------------ queries
    def reach(self, start: Set[str]) -> Set[str]:
        seen = set(start)
        todo = list(start)
        while todo:
            v = todo.pop()
            for e in self.edges:
                if e.src == v and e.dst not in seen:
                    seen.add(e.dst)
                    todo.append(e.dst)
        return seen

    def kinds_tested_after(self, var: str, after: Optional[ast.AST], eq) -> Set[str]:
        out = set()
        for t in self.tests:
            if t.var == var and (after is None or self.may_follow(after, t.node)):
                for k in t.kinds:
                    out |= {c for c, names in eq.items() if k in names}
        return out


def check_walk(fl: FnFlow, cursors: Set[str], followed: Set[str], eq: Dict[str, Set[str]], is_template_call) -> Tuple[Set[str], List[str], int]:
    """-> (kinds tested on some part of the value, problems, number of kind branches judged)."""
    live = fl.reach(cursors)
    seen_kinds: Set[str] = set()
    problems: List[str] = []
    n = 0

    def full_reentry(var: str, after: ast.AST) -> bool:
        return fl.kinds_tested_after(var, after, eq) >= followed

    def elements_reenter(var: str, first_labels: Set[str], region: List[ast.AST]) -> Optional[str]:
        """Do the elements of the container held by ``var`` (tested at the head of ``region``) reach a variable
        that is tested again for every followed kind?  None when they do, else the reason."""
        # states: (variable, depth relative to the container, node of the last edge)
        start_edges = [e for e in fl.edges if e.src == var and fl.within(e.node, region)]
        if not start_edges:
            return "nothing in this branch reads the container's elements"
        why = "its elements never come back to a variable that is tested for every kind"
        todo = []
        for e in start_edges:
            if e.label not in first_labels:
                why = f"only its {e.label if e.label != 'plain' else 'own iteration (for a mapping: the keys)'} are read (line {getattr(e.node, 'lineno', 0)})"
                continue
            todo.append((e.dst, e.delta, e.node, e.rec))
        seen = set()
        while todo:
            v, d, node, rec = todo.pop()
            if (v, d) in seen or d < -1 or d > 2:
                continue
            seen.add((v, d))
            if d == -1:
                if rec and v in cursors:
                    return None
                if full_reentry(v, node):
                    return None
            if d == 0 and not rec and (fl.kinds_tested_after(v, node, eq) & {"list"}) and v != var:
                pass
            for e in fl.edges:
                if e.src == v and e.label in ("plain", "values") and (rec or fl.may_follow(node, e.node)):
                    if e.label == "values" and d != 0:
                        continue
                    todo.append((e.dst, d + e.delta, e.node, e.rec))
        return why

    # a recursive call hands every parameter that is not the value itself on to the nested level: a parameter left to
    # its default (or replaced by a constant) makes the nested levels run a different operation than the top level
    all_params = fl.params + [a.arg for a in fl.fn.args.kwonlyargs]
    for x in ast.walk(fl.fn):
        if not isinstance(x, ast.Call):
            continue
        off = fl.is_self_call(x)
        if off is None or any(isinstance(a, ast.Starred) for a in x.args) or any(k.arg is None for k in x.keywords):
            continue
        given = {}
        for i, a in enumerate(x.args):
            if off + i < len(fl.params):
                given[fl.params[off + i]] = a
        for k in x.keywords:
            given[k.arg] = k.value
        for prm in all_params[off:]:
            if prm in cursors:
                continue
            a = given.get(prm)
            if a is None or not any(isinstance(y, ast.Name) and y.id == prm for y in ast.walk(a)):
                n += 1
                problems.append(f"line {x.lineno}: the recursive call does not hand on the parameter `{prm}` "
                                f"({'left to its default' if a is None else 'given ' + ast.unparse(a)[:30]}): "
                                "values nested inside a container are inspected with a different operation than the top level")

    # a work list that is consumed inside a loop must not be re-bound there: the entries still pending would be lost
    loops = (ast.For, ast.AsyncFor, ast.While)
    tested = {t.var for t in fl.tests}
    for e in fl.edges:
        if e.delta == -1 and e.src in live and e.dst in tested and e.src != e.dst:
            encl = [x for x in fl._chain(e.node) if isinstance(x, loops)]
            for name, st, reads in fl.assigns:
                if name == e.src and name not in reads and any(x in encl for x in fl._chain(st)[1:]):
                    msg = (f"line {st.lineno}: the work list `{name}` is re-bound inside the loop that consumes it: "
                           "the entries still pending are dropped, so values nested next to a container are missed")
                    if msg not in problems:
                        problems.append(msg)
                        n += 1

    for t in fl.tests:
        if t.var not in live:
            continue
        canon = {c for c, names in eq.items() if t.kinds & names}
        seen_kinds |= canon
        for k in sorted(canon & followed):
            n += 1
            where = f"line {t.node.lineno}"
            if k == "str":
                ok = any(isinstance(x, ast.Call) and is_template_call(x) and any(isinstance(y, ast.Name) and y.id == t.var for a in x.args for y in ast.walk(a))
                         for r in t.region for x in ast.walk(r))
                if not ok:
                    problems.append(f"{where}: a str held by `{t.var}` is recognised but not wrapped in Template")
            elif k == "Mapping":
                # a test for (Mapping, list) at once must still read the mapping's values
                why = elements_reenter(t.var, {"values"}, t.region)
                if why is not None and not (canon & {"list"}):
                    # the mapping may first be turned into the list of its values and handled by the list branch
                    pass
                if why is not None:
                    problems.append(f"{where}: a Mapping held by `{t.var}` is recognised but {why}: templates in its values are missed")
            elif k == "list":
                why = elements_reenter(t.var, {"plain"}, t.region)
                if why is not None:
                    problems.append(f"{where}: a list held by `{t.var}` is recognised but {why}: templates nested in it are missed")
    return seen_kinds, problems, n


# ---------------------------------------------------------------------- finding the walk
def resolve_call(repo, module, cls, call: ast.Call):
    """-> (module, class or None, function node, offset of the first positional argument in its parameters)."""
    f = call.func
    if isinstance(f, ast.Name):
        r = repo.resolve_name(module, f.id)
        if r and r[0] == "func":
            return r[1].module, None, r[1].node, 0
        return None
    if isinstance(f, ast.Attribute) and isinstance(f.value, ast.Name):
        ci = None
        if f.value.id in ("self", "cls") and cls is not None:
            ci = cls
        else:
            r = repo.resolve_name(module, f.value.id)
            if r and r[0] == "class":
                ci = r[1]
        if ci is None:
            return None
        m = ci.find_method(f.attr)
        if m is not None:
            owner, fn = m
            decos = [ast.unparse(d) for d in fn.decorator_list]
            off = 0 if "staticmethod" in decos else (1 if f.value.id in ("self", "cls") or "classmethod" in decos else 0)
            return owner.module, owner, fn, off
        for c in ci.mro():
            e = c.class_assigns.get(f.attr)
            if e is not None:
                inner = e.args[0] if isinstance(e, ast.Call) and astu.callee_name(e) in ("staticmethod",) and e.args else e
                if isinstance(inner, ast.Name):
                    r = repo.resolve_name(c.module, inner.id)
                    if r and r[0] == "func":
                        return r[1].module, None, r[1].node, 0
                return None
    return None


def find_walks(repo, cls, start_fns, is_origin, max_depth=4):
    """Walk functions: ``start_fns`` (methods of ``cls``) bind the value (``x = <origin call>``) and may hand it,
    or parts of it, to other functions of the repository.  -> [(module, class, fn, FnFlow, cursors)]"""
    out = []
    seen = set()
    todo = []
    for fn in start_fns:
        cur = set()
        for n in astu.walk_no_nested(fn):
            if isinstance(n, (ast.Assign, ast.AnnAssign)) and isinstance(n.value, ast.Call) and is_origin(n.value):
                for t in (n.targets if isinstance(n, ast.Assign) else [n.target]):
                    if isinstance(t, ast.Name):
                        cur.add(t.id)
        if cur:
            todo.append((cls.module, cls, fn, frozenset(cur), 0))
    while todo:
        module, c, fn, cursors, depth = todo.pop()
        key = (id(fn), cursors)
        if key in seen:
            continue
        seen.add(key)

        def is_self_call(call, _m=module, _c=c, _fn=fn):
            r = resolve_call(repo, _m, _c, call)
            if r is not None and r[2] is _fn:
                return r[3]
            if isinstance(call.func, ast.Name) and call.func.id == _fn.name:
                return 0
            return None

        fl = FnFlow(fn, is_self_call)
        out.append((module, c, fn, fl, set(cursors)))
        if depth >= max_depth:
            continue
        live = fl.reach(set(cursors))
        for call in astu.calls_in(fn):
            r = resolve_call(repo, module, c, call)
            if r is None or r[2] is fn:
                continue
            m2, c2, fn2, off = r
            ps = [a.arg for a in fn2.args.posonlyargs + fn2.args.args][off:]
            cur2 = set()
            for i, a in enumerate(call.args):
                if i < len(ps) and any(n in live for n, _, _ in fl.sources(a)):
                    cur2.add(ps[i])
            for k in call.keywords:
                if k.arg and any(n in live for n, _, _ in fl.sources(k.value)):
                    cur2.add(k.arg)
            if cur2:
                todo.append((m2, c2, fn2, frozenset(cur2), depth + 1))
    return out
