"""Abstract values ("node terms") of the op-propagation interpreter."""
from __future__ import annotations

from typing import Dict, List, Optional, Tuple


class Term:
    _k = None

    def _key(self) -> str:  # canonical text
        raise NotImplementedError

    def key(self) -> str:
        k = self._k
        if k is None:
            k = self._key()
            self._k = k
        return k

    def __repr__(self):
        return self.key()

    def __eq__(self, other):
        return isinstance(other, Term) and self.key() == other.key()

    def __hash__(self):
        return hash(self.key())


class Child(Term):
    """An attribute of the analysed object (or an element of it)."""

    def __init__(self, path: str, container: bool = False):
        self.path = path

    def _key(self):
        return f"Child({self.path})"


class New(Term):
    """A node constructed in the analysed code: class + attribute terms."""

    def __init__(self, cls, attrs: Dict[str, Term], lineno: int = 0):
        self.cls = cls  # ClassInfo
        self.attrs = attrs
        self.lineno = lineno

    def _key(self):
        inner = ",".join(f"{k}={v.key()}" for k, v in sorted(self.attrs.items()))
        return f"New({self.cls.name};{inner})"


class Fn(Term):
    """A callable: bound helper method, partial, lambda or nested def."""

    def __init__(self, kind: str, owner, node, bound: Optional[Dict[str, Term]] = None,
                 frame=None, pos: Tuple[Term, ...] = ()):
        self.kind = kind  # "method" | "lambda" | "func"
        self.owner = owner  # (ClassInfo, selfterm) for methods
        self.node = node
        self.bound = dict(bound or {})  # keyword-bound args (partial)
        self.pos = tuple(pos)
        self.frame = frame  # closure env for lambdas

    def _key(self):
        n = getattr(self.node, "name", "<lambda>")
        b = ",".join(f"{k}={v.key()}" for k, v in sorted(self.bound.items()))
        return f"Fn({n};{b})"


class Const(Term):
    def __init__(self, v):
        self.v = v

    def _key(self):
        return f"Const({self.v!r})"


class Sym(Term):
    """Symbolic value: head + argument terms (normal-form text)."""

    def __init__(self, head: str, args: Tuple[Term, ...] = (), text: str = ""):
        self.head = head
        self.args = tuple(args)
        self.text = text

    def _key(self):
        if self.args:
            return f"{self.head}({','.join(a.key() for a in self.args)})"
        return self.head if not self.text else f"{self.head}<{self.text}>"


class Val(Term):
    """Result of applying an op to a node term (value provenance)."""

    def __init__(self, op: str, target: Term):
        self.op = op
        self.target = target

    def _key(self):
        return f"Val({self.op},{self.target.key()})"


class Bound(Term):
    """getattr(term, 'op') — a bound op awaiting its call."""

    def __init__(self, target: Term, name: str):
        self.target = target
        self.name = name

    def _key(self):
        return f"Bound({self.target.key()}.{self.name})"


class Seq(Term):
    """A tuple/list display or star-args of terms (order preserved)."""

    def __init__(self, items: List[Term], star: Optional[Term] = None):
        self.items = list(items)

    def _key(self):
        return "Seq[" + ",".join(i.key() for i in self.items) + "]"


class Opaque(Term):
    def __init__(self, text: str = "?"):
        self.text = text

    def _key(self):
        return f"Opaque({self.text})"


def is_node(t: Term) -> bool:
    return isinstance(t, (Child, New))
