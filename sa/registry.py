"""Rule and property registry."""
from __future__ import annotations

from . import rules_agree as A
from . import rules_cache as C

RULES = {
    "R-KC": A.rule_KC, "R-VA": A.rule_VA, "R-XA": A.rule_XA, "R-OA": A.rule_OA,
    "R-EV": A.rule_EV, "R-EG": A.rule_EG, "R-SL": A.rule_SL,
    "R-FP": C.rule_FP, "R-CP": C.rule_CP, "R-MC": C.rule_MC, "R-CE": C.rule_CE,
    "R-OS": C.rule_OS, "R-RK": C.rule_RK,
}

PROPS = {}
