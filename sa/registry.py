"""Rule and property registry."""
from __future__ import annotations

from . import rules_agree as A
from . import rules_cache as C
from . import rules_compose as K
from . import rules_option as O
from . import rules_pipeline as P
from . import rules_runtime as R
from . import rules_select as S
from . import rules_switch as W

RULES = {
    "R-KC": A.rule_KC, "R-KU": A.rule_KU, "R-VA": A.rule_VA, "R-VO": A.rule_VO, "R-OF": A.rule_OF, "R-XA": A.rule_XA, "R-OA": A.rule_OA, "R-WI": A.rule_WI,
    "R-EV": A.rule_EV, "R-EG": A.rule_EG, "R-SL": A.rule_SL,
    "R-FP": C.rule_FP, "R-CP": C.rule_CP, "R-MC": C.rule_MC, "R-CE": C.rule_CE,
    "R-OS": C.rule_OS, "R-LM": C.rule_LM, "R-RK": C.rule_RK,
    "R-DC": K.rule_DC, "R-CC": K.rule_CC, "R-CL": K.rule_CL, "R-OC": K.rule_OC, "R-UW": K.rule_UW, "R-CF": K.rule_CF, "R-TB": K.rule_TB, "R-VW": K.rule_VW, "R-LB": K.rule_LB,
    "R-MX": K.rule_MX, "R-TK": K.rule_TK,
    "R-MS": O.rule_MS, "R-FV": O.rule_FV, "R-AB": O.rule_AB, "R-MP": O.rule_MP,
    "R-KN": O.rule_KN, "R-PU": O.rule_PU, "R-VM": O.rule_VM, "R-DK": O.rule_DK, "R-PO": O.rule_PO, "R-NK": O.rule_NK,
    "R-HO": P.rule_HO, "R-HF": P.rule_HF, "R-PI": P.rule_PI,
    "R-RE": R.rule_RE, "R-NR": R.rule_NR, "R-DF": R.rule_DF, "R-HI": R.rule_HI,
    "R-EX": R.rule_EX, "R-LS": R.rule_LS, "R-CW": R.rule_CW, "R-TI": R.rule_TI,
    "R-SO": S.rule_SO, "R-OP": S.rule_OP, "R-EO": S.rule_EO, "R-RG": S.rule_RG, "R-ON": S.rule_ON, "R-KW": S.rule_KW, "R-LK": S.rule_LK, "R-KB": S.rule_KB,
    "R-ID": S.rule_ID, "R-EH": S.rule_EH, "R-CH": S.rule_CH, "R-CD": S.rule_CD,
    "R-VP": W.rule_VP, "R-SH": W.rule_SH, "R-DH": W.rule_DH, "R-L1": W.rule_L1,
    "R-WR": W.rule_WR, "R-RQ": W.rule_RQ, "R-HD": W.rule_HD, "R-MF": W.rule_MF, "R-IS": W.rule_IS, "R-PK": W.rule_PK, "R-AI": W.rule_AI, "R-OH": W.rule_OH, "R-JS": W.rule_JS, "R-TV": W.rule_TV, "R-HK": W.rule_HK,
    "R-PL": W.rule_PL, "R-PF": W.rule_PF, "R-GA": W.rule_GA, "R-GS": W.rule_GS, "R-SK": W.rule_SK,
}

COMMON_ASSUMPTIONS = [
    "CPython's ast module parses /repo/labrea exactly as the interpreter would",
    "only the structural clauses named in coverage.explanation are decided; values, counts, schedules and histories are not explored",
    "third-party subclasses of the labrea ABCs and user-supplied callables are outside the analysed program",
    "confectioner (mix, resolve, get_dotted_key, dotted_key_exists, set_dotted_key) behaves as documented: mix(dish, ingredient) lets the ingredient win and copies",
    "dynamic idioms (getattr(member, method), dir(cls), metaclass instantiation, __init_subclass__ rebinding) are modelled by the explicit idiom table of sa/interp.py",
]


def _p(rules, explanation, undecided, filters=None, floors=None, extra_assumptions=()):
    return {"rules": rules, "explanation": explanation, "undecided": undecided, "filters": filters or {},
            "floors": floors or {}, "assumptions": COMMON_ASSUMPTIONS + list(extra_assumptions)}


PROPS = {
    "C01": _p(["R-KC", "R-FP", "R-CP", "R-MC", "R-DC", "R-OA", "R-RK", "R-OS", "R-PO", "R-MX", "R-OP", "R-GS", "R-WI", "R-IS", "R-SO", "R-AI", "R-VM", "R-SH", "R-OC", "R-OF", "R-KB", "R-KU", "R-TK", "R-LM"],
              "Decides the key-set mechanism behind cache transparency, not values: every child that any evaluate() path of any of the "
              "node classes consults is keyed on the same path of keys() (through constructed wrapper terms); the fingerprint reads "
              "nothing but sorted keyed pairs; Cached uses one (evaluatable, options, cache) triple for exists/get/set/keys and stores "
              "only a successfully computed value; MemoryCache indexes by the same fingerprint in get/set/exists; the dataset nests "
              "default-options > pre-set options > cached; inspection methods pass the same options form as evaluate; container values "
              "whose templates resolve() follows are inspected by Option.keys; no evaluate returns a one-shot iterator; a child evaluated once "
              "per element of a collection (every Map combination) is keyed once per element; no operation keeps an options-dependent "
              "result on the shared expression object."
              " Values are never changed in place by code that did not create them (a cached list is the object the cache holds); side-request handlers evaluate nothing but their switch; every dataset has a cache of its own unless the user handed one in; every operation hands its options on unchanged (only WithOptions mixes its pre-sets in); dotted keys are compared at the dot."
              " The key sets of the parts of a composite are combined by union and nothing else (no `^`, `&`, `-` of part results, no `a.keys(o) or b.keys(o)`)." " A template's placeholders are read off self.template by each operation (a scan kept from construction goes stale when the text is replaced, and with it the reported keys)." " The parts of an expression are told apart by identity alone (two Options that print alike, Value(1) == Value(True)): a part collapsed into a look-alike loses its keys, its validation, its requests and its value.",
              "whether stored values equal uncached evaluation for concrete graphs; prefix relations between run-time key strings "
              "beyond the one case the WithOptions filter decides (a forced pre-set section the caller's section is merged into, F13, repaired); history effects",
              floors={"R-KC": 30, "R-OA": 80}, filters={"R-FP": ["options-only-via-keys-and-lookup", "sorted-iteration", "json-list-serialiser", "returns-dump", "no-nondeterministic-source", "every-reported-key-serialised", "a sequence value keeps its order"], "R-LM": ["tells the parts"], "R-TK": ["iterates find_template_keys"], "R-SH": ["evaluates nothing but its switch"], "R-OP": [":iterates"], "R-WI": [":keys:"]}),
    "C02": _p(["R-FP", "R-PO", "R-OA", "R-DC", "R-EO", "R-CP", "R-MC", "R-CW", "R-SK", "R-IS", "R-AI", "R-OC", "R-TK", "R-RE", "R-CC", "R-ON"],
              "Decides the structural conditions for effective memoization: the fingerprint depends on keys(options) only (extra or "
              "re-ordered top-level keys cannot split entries); WithOptions.keys removes keys fixed by the pre-set dictionary; "
              "Computation and Logged sit inside cached() so effects and logging happen only on a miss; the effect runs after the "
              "body with its value; the set handler stores and reads back; a miss of MemoryCache.get is decided by the key, never by the "
              "stored value (a stored None is served); no operation keeps an options-dependent result on a shared object."
              " The implementation dataset of an overload carries nothing of its parent (effects would run twice); no part of an evaluation runs on a thread of the library's making."
              " Template.keys asks its parameters for keys(), not explain() (effect-only keys would split entries); leaving a handler context restores the runtime its entry saved (a cache.disabled() runtime that stays installed after a re-entrant use makes every later evaluation miss)."
              " A dataset rebuilt from the parts of another through the factory carries its cache (a copy without it is a second memo for the same body)." " A dataset is never duplicated by copying the object (a shallow copy shares the effects list: an effect added to one dataset then runs after the other's body as well)." " (Round 10) A dataset keeps its own copy of the effects list it is built with: shared with its derived variants, an effect added to one fires for all, more than once per body execution (R-CC).",
              "the number of body executions for concrete DAGs, sharing inside one evaluation, behaviour of over-wide key sets",
              filters={"R-ON": ["labrea.dataset"], "R-CC": ["dataset(...) rebuilt", "keeps a copy of the effects list"], "R-TK": ["Template.keys"], "R-RE": ["Runtime.__exit__", "Runtime.__enter__"], "R-AI": ["starts no threads"], "R-PO": ["WithOptions"], "R-EO": ["Computation", "CallbackEffect", "ChainedEffect"], "R-OA": ["WithOptions", "Cached", "Dataset"],
                       "R-MC": ["MemoryCache"], "R-CW": ["Dataset.overload", "carries nothing"]}),
    "C03": _p(["R-PO", "R-FP", "R-KC", "R-DK", "R-RK", "R-MF", "R-WI", "R-OP", "R-SO", "R-OA", "R-AI", "R-HK", "R-HD", "R-KB", "R-KU", "R-RE", "R-LM"],
              "Decides: every component of every keys() result is a child's keys, an empty set, a literal key guarded by "
              "dotted_key_exists, or a filtered subset (WithOptions filter checked as a propositional formula on all 8 assignments); "
              "the fingerprint is a deterministic function of the sorted keyed pairs (no hash/id/set-order/environment dependence); "
              "nothing consulted is unkeyed; dotted keys are only looked up through dotted accessors; keys() follows the same member "
              "selection as evaluate() (coalesce validates before keying) and consults per-element children per element."
              " The library reads no option by a literal name except the documented side switches; the default type-validation handler accepts every value; key prefixes are tested at the dot."
              " Part key sets are combined by union only; leaving a handler context restores the runtime saved by the matching entry (keys/evaluate/fingerprint are served by the current runtime: a leaked context changes them for the rest of the thread)." " The parts of an expression are told apart by identity alone (two Options that print alike, Value(1) == Value(True)): a part collapsed into a look-alike loses its keys, its validation, its requests and its value.",
              "restrict-and-re-evaluate equality on concrete dictionaries; F13",
              filters={"R-LM": ["tells the parts"], "R-RE": ["Runtime.__exit__", "Runtime.__enter__"], "R-HD": ["type-validation"], "R-WI": [":keys:"], "R-OP": [":iterates"], "R-OA": [":keys:"]}),
    "C04": _p(["R-MS", "R-FV", "R-AB", "R-MP", "R-KN", "R-PU", "R-CC", "R-KC", "R-NK", "R-IS", "R-TK", "R-OF", "R-HD", "R-MF", "R-CW", "R-LM", "R-KW", "R-GA"],
              "Decides: the MISSING sentinel and looked-up values never flow into a truthiness test (presence is decided by "
              "KeyError/dotted_key_exists only); the default is consulted only on the key-absent branch behind `is not MISSING`; "
              "every returning path of Option.evaluate passes the returned value through the type request and the domain check, and "
              "a rejecting domain always raises; KeyNotFoundError names key and source; Option.set builds a fresh dictionary and "
              "mixes it over the input; re-keying an Option into a namespace carries every field and exactly one prefix; Template.evaluate "
              "always goes through resolve(); no evaluated domain or other options-dependent result is memoised on the Option."
              " Options are handed on unchanged by every class but WithOptions (no second resolve of the dictionary); a shallow copy of an options dictionary is never written into below its first level; the default type-validation handler accepts every value."
              " An Option declared as a member of a dataset class is resolved by the instance initialiser for every non-dunder name (a skipped member stays an Option object instead of the value under its key)." " An implementation registered under a hashable key (a tuple of option values) is found under that key: an Option whose default or domain is such a dataset yields what the dataset is defined to yield." " An argument that merely looks like another (same key, different domain) is evaluated on its own: its domain is enforced." " lift() keeps no keyword of its own beside **kwargs (a parameter called like it could no longer be overridden through where()/defaults=, and an Option whose default is such a dataset would ignore the override)." " Nothing is attached to an expression class from outside its body (Namespace members are reached through __getattr__, which normal look-up pre-empts)." " (Round 9) An Option's default may be an overloaded dataset: what the default evaluates to is the implementation registered last under the alias, so the order in which register() merges the new entry into the table (R-CW) is judged here too. A lifted definition that takes **kwargs keeps the extra evaluatable arguments given to lift/where: the question whether it takes them is any() over the parameters, and a function is applied through lift, not bare (R-KW).",
              "the values returned for particular dictionaries; list-index and prefix-key semantics inside confectioner",
              filters={"R-GA": ["attaches"], "R-KW": [".lift", "a variadic parameter", "built directly"], "R-LM": ["labrea.application", "labrea.arguments", "labrea.option"], "R-CW": ["a hashable key is registered whole", "assigns a fresh table"], "R-MF": ["_DatasetClassMixin.__init__", "members are the Evaluatable"], "R-OF": ["labrea.computation", "labrea.option", "labrea.template", "labrea.dataset", "labrea.logging", "labrea.cache"], "R-HD": ["type-validation"], "R-CC": ["Option(", "Namespace(", "_Auto("], "R-PU": ["labrea.option", "labrea.template"], "R-KC": ["labrea.option.Option:"],
                       "R-IS": ["labrea.option.", "labrea.template."], "R-TK": ["Template.evaluate"]}),
    "C05": _p(["R-SO", "R-OP", "R-SL", "R-EO", "R-MX", "R-CD", "R-DC", "R-RG", "R-FP", "R-VM", "R-KW", "R-ON", "R-LK", "R-HO", "R-VP", "R-LM", "R-EH", "R-CC", "R-CW"],
              "Decides only the selection/order skeleton: switch indexes the table by the dispatch value, default exactly on dispatch "
              "failure or miss, SwitchError without default; case-when returns the result paired with the first condition that holds; "
              "coalesce returns at the first member that validates and evaluates; collections and the Map product iterate in stored "
              "order from one mapping and pre-set each combination as dotted option keys; Apply/Bind/FunctionApplication apply the function "
              "to the evaluated parts; the combinator API (call, >>, apply, bind) is not overridden by a concrete class; a dataset nests "
              "default options > pre-set options > cache > calculation, so what the cache keys on is what the body is evaluated under."
              " Only a list of aliases is split into aliases; every reported key value reaches the fingerprint as it is; functions that collect **kwargs keep no keyword of their own; lift() sets apart only *args/**kwargs."
              " The library's own steps used with >> (F.eq, F.gt … as case-when conditions) compute the documented Python operation; the Logged wrapper returns exactly the wrapped value whichever order it logs in." " Every element of a Map / argument list is evaluated on its own (no result handed out again for an element that merely looks the same); what an expression or effect raises in validate/keys/explain is an EvaluationError, so coalesce and switch step over a part that cannot be used." " Dataset.evaluate/validate do nothing but delegate to the composed expression (a check of the dispatch against the caller's raw options ignores the dataset's own pre-set and default options)." " (Round 9) A combinator rebuilt from itself (CaseWhen.when/otherwise) carries every field over — a default dropped by when() turns 'no case matched' from the default into an error (R-CC)." " (Round 10) Switch takes the branch registered under the dispatch value: for an overloaded dataset that is the implementation registered last under the alias (R-CW, merge order of register).",
              "value equality with a reference interpreter for arbitrary expression trees (most of the property)",
              filters={"R-CW": ["assigns a fresh table"], "R-CC": ["CaseWhen(", "Switch(", "Coalesce(", "Iter(", "Map(", "Pipeline("], "R-EH": [":raises "], "R-VP": ["Logged"], "R-FP": ["every-reported-key-serialised"], "R-RG": ["element-wise"], "R-MX": ["Map._iter", "WithOptions.evaluate"], "R-CD": ["Switch", "Coalesce", "CaseWhen", "user callable"], "R-DC": ["default-options > pre-set options", "delegates to _composed"]}),
    "C06": _p(["R-CL", "R-SL", "R-AB", "R-EO", "R-EV", "R-SO", "R-PU", "R-AI", "R-RQ", "R-OP"],
              "Decides: no evaluation op is reachable from construction/decoration/registration code (whole-program reachability "
              "over resolved callees); unselected switch/case/coalesce branches never receive an op; the default is touched only when "
              "the key is absent; the source of >> is evaluated before the function (and no class overrides apply/>> to collapse chains); "
              "inspection methods evaluate selectors only."
              " Construction code calls no user-supplied object with empty arguments (a dataset class is a type and an expression); Map's per-combination dictionaries share no nested section; the library starts no threads." " Cached.validate asks the cache first and validates the wrapped expression only on a miss (re-validating a memoised member makes coalesce pass it over and run the next member's body)." " (Round 9) The keys of an evaluatable dictionary are carried literally: a key that is itself an expression is not a child to evaluate (R-OP, evaluatable_dict).",
              "which bodies actually ran for a given dictionary",
              filters={"R-OP": ["evaluatable_dict"], "R-RQ": ["Cached.validate"], "R-AI": ["starts no threads"], "R-PU": ["Map", "shallow"], "R-SO": ["Coalesce", "CaseWhen"]}),
    "C07": _p(["R-RG", "R-LB", "R-KC", "R-DC", "R-CC", "R-ID", "R-CW", "R-SO", "R-CD", "R-LS", "R-UW", "R-FP", "R-DK", "R-CF", "R-TB", "R-VW", "R-EO", "R-HD", "R-MX", "R-OP"],
              "Decides: an implementation registers nothing before all rejections are decided; the overload switch is rebuilt from "
              "the live table on every use; the dispatch is keyed on every successful-dispatch path; the callback is applied outside "
              "the switch; derivatives share overloads and cache by reference; every interface member receives the interface's "
              "dispatch; the overload table is replaced, never mutated; the cache sits inside both option wrappers, so a value stored under one "
              "(default-supplied) dispatch value is keyed apart from another's."
              " Wrapping never copies the wrapped object's __dict__ (a dataset wrapping a dataset would take over its overload table); tuple aliases are registered whole."
              " The fingerprint looks every reported key up with the dotted accessor (a nested dispatch option 'IMPL.KIND' read with options.get would fingerprint as None for every value: one stored value for all implementations); request records keep each constructor argument in the field of its name (a handler of the type request reads request.options when the dispatch Option is typed)."
              " Expressions are always truthy (a dispatch that is an empty switch must survive `dispatch or self.dispatch`); a member that is itself an expression is never frozen into a Value." " The callback pipeline applies all of its steps (rest innermost, tail last) to whichever implementation was selected. The default type check accepts every value: a dispatch option declared float and given 2 still selects the implementation registered under 2." " (Round 9) Map sets each combination over the caller's options with a forcing WithOptions: mapped over a dispatch key, every element must select the implementation of its own value (R-MX). A dispatch built with evaluatable_tuple is the tuple of all components in order, repeated values included (R-OP).",
              "which implementation a given dictionary selects; cross-member consistency of values",
              filters={"R-OP": ["evaluatable_tuple"], "R-MX": ["forcing WithOptions"], "R-HD": ["type-validation"], "R-EO": ["Pipeline.evaluate"], "R-FP": ["every-reported-key-serialised", "options-only-via-keys-and-lookup"], "R-DK": ["fingerprint"], "R-CF": ["Request"], "R-KC": ["Switch", "Overloaded", "_DependsOn", "Dataset"], "R-CC": ["Dataset(", "Overloaded("], "R-SO": ["Switch"],
                       "R-DC": ["callback", "delegates", "default-options > pre-set options"], "R-CD": ["Switch"], "R-LS": ["Overloaded", "_LOCKS"]}),
    "C08": _p(["R-MX", "R-OA", "R-DC", "R-CC", "R-PU", "R-PO", "R-IS", "R-UW", "R-VM", "R-OF", "R-FP", "R-MF"],
              "Decides: WithOptions mixes the pre-set dictionary as the winning ingredient exactly when forced; all four ops see the "
              "mixed dictionary; dataset decorator options end in the same wrappers in the right nesting; with_options / "
              "with_default_options mix new over stored and carry every other field; no function mutates an options dictionary it did "
              "not allocate; no operation keeps an options-dependent result on the object."
              " A WithOptions rebuilt from another carries its force flag; wrapping copies no __dict__; values and options are not changed in place, also not through shallow copies." " A dataset and its with_options / with_default_options variants share one cache, told apart by the fingerprint: a list-valued option keeps its order there (lists that differ in order are different overlays)." " What a dataset-class instance records for repr/equality is read from the options, never written back into a section it shares with the caller's or the pre-set dictionary.",
              "merge semantics of confectioner.mix itself; F13",
              filters={"R-MF": ["_DatasetClassMixin"], "R-FP": ["a sequence value keeps its order"], "R-CC": ["Dataset(", "WithOptions("], "R-OA": ["WithOptions", "Dataset", "Map"], "R-PO": ["WithOptions"]}),
    "C09": _p(["R-TK", "R-KC", "R-RK", "R-CH", "R-GS", "R-KW", "R-MX", "R-ID", "R-L1", "R-RG", "R-OA"],
              "Decides: Template.keys/explain/validate iterate the same key source as evaluate resolves, skip exactly the :param: "
              "keys, delegate every other key to Option(key).<same op> (transitivity), and visit all params; Option.keys/explain "
              "inspect every container kind whose embedded references resolve() follows; KeyError translations are chained."
              " Collecting functions keep no keyword of their own (a lifted parameter called `name` is still lifted); no thread-local walk state survives a failed keys()."
              " A dataset derived with with_options / with_default_options and used as a {:name:} parameter is evaluated under the options given, with the stored pre-set dictionary (not the default one) mixed in; an interface member declared as `name: T = <dataset>` keeps that default implementation (no abstract member is declared over it)." " WithOptions asks the wrapped object to explain / key itself under the mixed options (the values the wrapper supplies may be templated and refer to further keys)." " The log request of a dataset used as a template parameter carries its message as it is (a message run through option-placeholder formatting fails for an absent key that evaluation never reads)." " (Round 9) A template parameter that is an interface member evaluates to the registered implementation only if the member of every interface was collected for registration (R-RG, _get_members)." " (Round 10) explain() of a Template hands the caller's options on to its parameters, as evaluate does (R-OA on Template).",
              "the substituted text",
              filters={"R-OA": ["labrea.template.Template:"], "R-RG": ["_get_members"], "R-L1": ["request carries"], "R-MX": ["with_options", "with_default_options", "WithOptions.explain", "WithOptions.keys"], "R-ID": ["abstract member only"], "R-KC": ["Template", "Option"], "R-CH": ["Template", "Option"], "R-GS": ["labrea.template", "labrea.option"]}),
    "C10": _p(["R-VA", "R-KC", "R-OA", "R-CP", "R-EV", "R-SL", "R-OP", "R-SH", "R-WI", "R-MF", "R-VO", "R-RK", "R-TK", "R-L1", "R-OF", "R-LB", "R-SO", "R-VP", "R-KW", "R-DC"],
              "Decides: for every node class, every evaluate path's children are covered by one validate path; the same children are "
              "keyed; the same options form is passed; Cached.validate skips only on exists; inspection evaluates selectors only; "
              "unselected branches are not validated; a child evaluated per element is validated per element; dataset-class "
              "validate/keys/instantiation enumerate the same members; conversely validate consults a child only in situations in which some "
              "evaluate path does (a flag honoured by evaluate but not by validate is reported); Option.keys follows templated values into "
              "every container kind that evaluation resolves."
              " Template inspection skips exactly the :param: keys; inspection methods do not log; options are handed on unchanged." " The switch an overloaded dataset delegates to is built from the live dispatch, table and default — an abstract dataset has no stand-in default that validates and keys trivially. Coalesce validates a member before every operation on it, evaluate included (Iter and Map evaluate lazily: unvalidated, the lazy result of a member that keys() and validate() reject is returned)." " (Round 9) With caching disabled the stand-in for the presence request answers False: a True makes Cached.validate skip the wrapped expression while evaluate recomputes it (R-VP). A plain function becomes part of the graph through lift — built directly without arguments, validate/keys see no argument while evaluate calls the body with raw Option objects (R-KW)." " (Round 10) Dataset.validate forwards to the composed expression on every call: a remembered verdict (keyed by a fingerprint that leaves out what effects read) lets validate pass where evaluate fails (R-DC). A dataset class validates and keys the members instantiation evaluates: all Evaluatable attributes found by dir(), inherited and unannotated ones included (R-MF).",
              "agreement for a particular dictionary when it hinges on values",
              filters={"R-DC": ["delegates to _composed"], "R-KW": ["built directly", "a variadic parameter"], "R-VP": ["_disabled_exists_cache_handler"], "R-SO": ["Coalesce"], "R-LB": ["switch reads live"], "R-L1": ["inspection does not log"], "R-TK": ["validate", "keys"], "R-CP": ["validate"], "R-OP": [":iterates"], "R-SH": ["labrea.cache."], "R-WI": [":validate:", ":keys:"], "R-MF": ["same member source", "one member enumeration", "members are the Evaluatable"]}),
    "C11": _p(["R-XA", "R-EG", "R-OA", "R-EV", "R-TK", "R-OP", "R-WI", "R-SO", "R-SL", "R-AB", "R-RK", "R-VO", "R-PO", "R-L1", "R-SH", "R-KU", "R-VP"],
              "Decides: every child keyed or validated is explained, path by path for equal selections; every evaluate/validate "
              "reached from an explain method lies inside a try that catches EvaluationError and raises "
              "InsufficientInformationError from it or falls back statically; explain follows the same selection as validate/keys "
              "(coalesce, switch), decides presence like keys (not by the value), and covers per-element children; explain consults a child only "
              "where evaluate may; the keys WithOptions hides from explain are exactly those its pre-set dictionary supplies (dotted lookup)."
              " Inspection methods issue no log request (whose handler would read an option explain never lists)."
              " Computation.explain lists the effect's keys exactly when Computation.validate checks them (effects not disabled); part key sets are combined by union only." " The default handler of an option's type check evaluates nothing it was handed (a configurable type would make validate() depend on keys explain() never lists)." " (Round 9) With caching disabled the presence stand-in answers False; otherwise validate passes while explain lists keys still to be supplied (R-VP)." " (Round 10) The default of an Option is reached only when the key is absent: a failure while resolving a value that is present is reported, not replaced by the default — explain lists the unresolved reference as missing (R-AB).",
              "the iterative fill-until-valid behaviour on concrete dictionaries",
              filters={"R-VP": ["_disabled_exists_cache_handler"], "R-SH": ["Computation.explain", "Computation.validate", "type_validation"], "R-L1": ["inspection does not log"], "R-TK": ["explain"], "R-OP": [":iterates"], "R-WI": [":explain:"], "R-SO": ["Coalesce"], "R-SL": [":explain:"], "R-AB": ["explain", "Option.evaluate:default consulted"], "R-RK": ["explain", "every recognised kind"], "R-VO": [":explain:"], "R-PO": ["WithOptions"]}),
    "C12": _p(["R-EH", "R-CH", "R-CD", "R-KN", "R-CP", "R-MC", "R-WR", "R-DC", "R-GS", "R-HI", "R-EX", "R-AB", "R-OH", "R-JS", "R-MS", "R-DF"],
              "Decides: the default evaluate handler wraps every exception into EvaluationError(source = this object) chained with "
              "`from`, re-raising its own; all raises inside handlers are chained; only documented fall-through points catch "
              "EvaluationError and nothing else catches Exception; the only path into the memo dictionary is CacheSetRequest built in "
              "Cached.evaluate from a successful inner evaluation; a failed resolve() of a provided value is reported, not treated as "
              "'not provided'; the context managers that swap handlers restore the previous runtime on every exit; no module-level state and no "
              "mutated default argument carries anything from one evaluation to the next; no __repr__ (error messages embed them) orders "
              "user-supplied aliases."
              " No StopIteration of user code is taken for exhaustion (next(filter(…), default)); no error message is built by ordering looked-up option values or reading __name__ of arbitrary callables."
              " What an error message joins has been turned into text first (lookup keys and aliases are arbitrary hashables: an unconverted join fails inside the error's constructor); the reported key is element 0 of (*e.args, fallback)." " A missing option is reported with its key: no None standing for 'not given' reaches an Option's default (which would make the key optional)." " (Round 9) Runtime.run calls the handler outside the try that covers its look-up: a KeyError raised by a handler is a failure to surface, not a missing registration (R-DF).",
              "the concrete cause chain for a given graph; outcomes of later evaluations",
              filters={"R-DF": ["the handler is called outside the try"], "R-MS": ["None when not given", "None-marked"], "R-CP": ["store-after-compute"], "R-MC": ["writes", "constructs", "calls Cache.set"], "R-WR": ["__init_subclass__", "_evaluate_request", "directly"],
                       "R-DC": ["cache layer", "cached"], "R-HI": ["disabled"], "R-AB": ["Option.evaluate"]}),
    "C13": _p(["R-HO", "R-HF", "R-PI", "R-KC", "R-XA", "R-EO", "R-IS", "R-SO", "R-HD", "R-VM", "R-KW", "R-LK", "R-RE", "R-VP", "R-OA", "R-OF", "R-SH"],
              "Decides: the operand order of each helper step by symbolic beta-reduction of partial(f, …) against the documented "
              "behaviour; every option-valued helper parameter is handed to the step as an evaluated argument, not captured; "
              "PipelineStep/Pipeline/PartialApplication key and explain their parameters; __iter__ yields rest before tail, "
              "evaluate applies rest innermost, + appends the right operand's steps; Value hands out a copy (the wrapped object only "
              "when copying failed or for deepcopy-atomic types); no composed function is memoised on the pipeline."
              " Coalesce chooses its member through one selector in all four operations; the default type-validation handler accepts every value (an int for a float-typed parameter); helper steps never change the piped value in place."
              " Every step of a pipeline is explained/keyed/validated under the options the pipeline was given (none is asked with no options at all); a step parameter wrapped in Logged yields the wrapped value; a step body that enters and leaves a handler context leaves the runtime as it found it (sequential and composed application then agree)." " The parameters a helper step gathers through Iter are evaluated from the very options the step was given (no pre-resolved copy)." " With effects disabled, Computation.explain still explains the wrapped expression (the step parameters of a dataset's callback pipeline stay listed).",
              "associativity/identity of + over all bracketings (a structural induction, not attempted); transform values",
              filters={"R-SH": ["Computation.explain", "Computation.validate"], "R-OF": ["Iter.evaluate"], "R-RE": ["Runtime.__exit__", "Runtime.__enter__"], "R-VP": ["Logged"], "R-OA": ["Pipeline", "PartialApplication", "PipelineStep", "EvaluatableArg", "EvaluatableKwargs", "Apply", "FunctionApplication"], "R-VM": ["labrea.functions", "labrea.pipeline"], "R-HD": ["type-validation"], "R-SO": ["Coalesce"], "R-KC": ["Pipeline", "PartialApplication", "Apply", "FunctionApplication", "EvaluatableArg", "EvaluatableKwargs"],
                       "R-XA": ["Pipeline", "PartialApplication", "Apply", "FunctionApplication", "EvaluatableArg", "EvaluatableKwargs"],
                       "R-EO": ["Pipeline", "Apply", "PartialApplication", "Value.evaluate"], "R-IS": ["labrea.pipeline.", "labrea.application.", "labrea.types."]}),
    "C14": _p(["R-RE", "R-NR", "R-DF", "R-HI", "R-EX", "R-TI", "R-CL"],
              "Decides: the runtime to restore is saved per entry and per thread (re-entrancy), None is never stored in the "
              "thread->runtime table, run() falls back to the default table at call time and fails with TypeError otherwise, "
              "handlers are assigned once from a fresh dict and handle() derives a new Runtime, __exit__ restores on every path "
              "independent of the exception and returns nothing truthy, every table index is the current thread."
              " The current runtime is read only by Request.run and handle(); no library function enters a runtime of its own; a Runtime subclass keeps no per-entry state in one attribute." " Building an expression (a decorated step, a dataset, an overload) issues no request: a request at definition time creates a runtime for the defining thread whose default-handler snapshot then serves instead of defaults registered later.",
              "the stack discipline over arbitrary enter/exit histories (needs a model)"),
    "C15": _p(["R-LS", "R-CW", "R-TI", "R-RE", "R-MC", "R-LB", "R-GS", "R-SO", "R-FP", "R-KU", "R-HI", "R-KC"],
              "Decides the lock and ownership discipline only: every access to the thread->runtime table under the module lock and "
              "keyed by the current thread; the overload table written under the object's lock and replaced copy-on-write; restore "
              "state of shared runtime objects is per thread; cache entries addressed by fingerprint in all three operations; no switch "
              "built from the overload table is kept on the object (an unlocked check-build-store would race with register)."
              " No object's overload table is re-bound from outside; no module-level or thread-local state beyond the three guarded tables."
              " `the value belonging to their own options`: the entries of one cache are told apart by the fingerprint alone — it covers every key the selection reads (coalesce keys the member it evaluates, validated first), serialised by dotted lookup, part key sets combined by union." " No library function makes a runtime and enters it later (a runtime derived while a step is evaluated carries that thread's handler table; entered lazily by whichever thread consumes the result, it replaces that thread's handlers)." " (Round 9) Concurrent evaluations of a cached dataset are kept apart by the fingerprint, which is built from keys(): a pipeline that omits the keys of its earlier steps makes two threads with different options share one entry (R-KC on Pipeline).",
              "behaviour under interleavings — no schedule is explored (most of the property)",
              filters={"R-FP": ["options-only-via-keys-and-lookup", "sorted-iteration", "json-list-serialiser", "returns-dump", "no-nondeterministic-source", "every-reported-key-serialised", "a sequence value keeps its order"], "R-KC": ["Pipeline"], "R-HI": ["enters a runtime of its own", "reads the current runtime"], "R-SO": ["Coalesce"], "R-MC": ["key-is-fingerprint"]}),
    "C16": _p(["R-VP", "R-SH", "R-DH", "R-L1", "R-DC", "R-RQ", "R-HI", "R-SK", "R-CP", "R-GS", "R-AI", "R-VO", "R-MX", "R-UW", "R-HK", "R-KU", "R-LM", "R-MC", "R-SO", "R-VA"],
              "Decides: no data flow from a switch, an effect result or a log result into any returned value; the three cache "
              "handlers test both switch spellings first and delegate to disabled twins that touch no backend; the effects switch "
              "selects between two terms containing the same calculation; exactly one log request per Logged.evaluate path, Logged "
              "inside cached; Cached.evaluate returns only the retrieved, stored or computed value; no hidden module-level state in "
              "the cache/logging/computation modules; no module reads the process environment, a clock or a random source (switches come "
              "from options and handlers only); a per-object switch is honoured by all sibling operations alike."
              " Map delivers every mapped dotted key (switch options included) to the mapped expression; the library reads no option by literal name except the documented switches."
              " Part key sets are combined by union only (a key two steps share must not vanish from the fingerprint: cached and uncached values would differ)." " No expression keeps a table of its parts' results for the duration of one evaluation: with caching disabled every repeated evaluation recomputes, runs its effects and issues its log request." " The memo is addressed by the fingerprint alone: toggling effects on a dataset (which changes the repr of its composed expression) neither hides a stored entry nor forces a recomputation." " (Round 9) A value that differs between caching on and caching disabled is a switch changing a value: Coalesce must report the keys of the member it evaluates (R-SO), and validation of keyword arguments must validate, not only key, them (R-VA on labrea.arguments).",
              "observed counts of recomputation and emitted records",
              filters={"R-VA": ["labrea.arguments"], "R-SO": ["Coalesce"], "R-MC": ["key-is-fingerprint"], "R-MX": ["Map"], "R-DC": ["effects", "calculation", "Logged"], "R-HI": ["handle", "disabled"], "R-CP": ["returns-retrieved-stored-or-computed"], "R-GS": ["labrea.cache", "labrea.logging", "labrea.computation"], "R-VO": ["Computation", "Dataset", "Logged", "Cached"]}),
    "C17": _p(["R-CE", "R-CP", "R-MC", "R-SO", "R-OH", "R-OC", "R-FP", "R-DK", "R-RK", "R-LM", "R-HO"],
              "Decides: CacheGetFailure cannot escape Cached.evaluate/validate, Cache.exists or the set/exists handlers through any "
              "resolved call chain; every return of Cached.evaluate is the retrieved, the stored-and-read-back or the freshly "
              "computed value; a failed get falls through to the computation; the set handler falls back to request.value; MemoryCache "
              "decides a miss by the key; coalesce falls through when a member that validated fails to evaluate; a handler that caught a backend "
              "failure passes it on without doing anything that could fail differently; the reprs embedded in CacheGetFailure's message "
              "never order user-supplied aliases."
              " Every dataset has its own cache unless handed one; reprs (embedded in CacheGetFailure) are total: no ordering of aliases, no unguarded __name__."
              " A backend that follows the contract is addressed by the fingerprint: every reported key is serialised by dotted lookup, and Option.keys follows templated values into the values (not the keys) of a mapping — otherwise a well-behaved backend hands back a value stored for other options." " The parts of an expression are told apart by identity alone (two Options that print alike, Value(1) == Value(True)): a part collapsed into a look-alike loses its keys, its validation, its requests and its value." " (Round 9) A step that compares by identity instead of equality makes a value depend on whether an operand came out of the cache (the stored object) or was recomputed (R-HO on eq/ne).",
              "backends that violate the Cache contract in other ways (other exception types)",
              filters={"R-FP": ["options-only-via-keys-and-lookup", "sorted-iteration", "json-list-serialiser", "returns-dump", "no-nondeterministic-source", "every-reported-key-serialised", "a sequence value keeps its order"], "R-HO": ["labrea.functions.eq:", "labrea.functions.ne:"], "R-LM": ["tells the parts"], "R-DK": ["fingerprint"], "R-RK": ["every recognised kind"], "R-MC": ["MemoryCache.get:a miss"], "R-SO": ["Coalesce"]}),
    "C18": _p(["R-WR", "R-RQ", "R-HD", "R-MP", "R-L1", "R-HI", "R-MF", "R-EO", "R-ON", "R-EV", "R-CF", "R-RG", "R-GS", "R-LM", "R-DF", "R-HF"],
              "Decides nearly the whole mechanism: the four ABC hooks replace every op by a request-issuing wrapper and the default "
              "handlers call the saved implementation; nothing else calls the saved implementations; every concrete class defines "
              "plain methods; cache/log/type-check sites go through XRequest(...).run(); backends are called only by handlers; every "
              "request type has a default handler; dataset-class members are evaluated through member.evaluate(); no concrete class "
              "overrides __call__ (which would evaluate without issuing the request); a pipeline evaluates all its steps before it returns the "
              "composed function (no request is issued later, under another runtime); operations are issued on the objects the expression "
              "was built from, not on copies derived on the way."
              " No library function enters a runtime of its own (shadowing the user's handlers); expressions are never deep-copied."
              " validate/keys/explain ask their parts to validate/key/explain (an effect whose validate evaluates its callback issues EvaluateRequests where ValidateRequests are due); request records keep each constructor argument in the field of its name."
              " What an implementation registers on the interface member is its own member object (the dataset the user wrote, so that its requests are issued when the interface dispatches to it)." " Which handler serves a request depends on the handler tables alone: the runtime module keeps no further module-level or per-thread state that could route a request past an installed handler." " The parts of an expression are told apart by identity alone (two Options that print alike, Value(1) == Value(True)): a part collapsed into a look-alike loses its keys, its validation, its requests and its value." " Runtime.run serves every request from the runtime's own handler for its type — nested requests of the same type included." " (Round 9) An expression given as a step parameter is part of the graph only if the helper asks whether it is an Evaluatable (ensure); wrapped as a constant none of its four operations is ever issued (R-HF)." " (Round 10) A pipeline evaluates its prefix pipeline as an expression of its own (one EvaluateRequest per nested pipeline), not flattened into steps (R-EO).",
              "third-party subclasses; that a pass-through handler changes no value",
              filters={"R-HF": ["is evaluated when it is an expression"], "R-DF": ["looks the handler up by type(request)", "the handler is called outside the try"], "R-LM": ["tells the parts"], "R-GS": ["labrea.runtime"], "R-RG": ["registers the implementation member itself"], "R-MP": ["type request"], "R-HI": ["handle", "disabled", "enters a runtime", "reads the current runtime"], "R-MF": ["set to its evaluation"], "R-EO": ["__call__", "combinator API", "before the function is returned", "Pipeline.evaluate"]}),
    "C19": _p(["R-DK", "R-MF", "R-KC", "R-VA", "R-XA", "R-WI", "R-EO", "R-KB", "R-LK", "R-TI", "R-MX", "R-RG", "R-VW", "R-OC", "R-CC", "R-MC", "R-RK", "R-PO", "R-OA"],
              "Decides: relevant options are read with dotted accessors; validate/keys/explain/instantiation enumerate members with "
              "the same source and predicate; __eq__ and __repr__ read the recorded relevant options; members are children for key "
              "coverage / validate / explain agreement; no per-class member memo that derived classes inherit; plain members are "
              "handed out as copies."
              " Recorded keys are compared at the dot; lift() lifts keyword-only defaults; inherit() always installs the parent's runtime."
              " A member derived with with_options / with_default_options carries the stored forced dictionary on (members are evaluations under the instance's options); every member of an implemented interface is registered under every alias (the aliases are a collection that can be walked once per member)."
              " A member that is itself an expression (a dataset class is a type and an expression) is never wrapped as a constant." " Configuring a dataset factory creates no cache: members of a dataset class made by one pre-configured factory each get a cache of their own (a shared one hands a member its sibling's value)." " An interface member rebuilt from an existing dataset keeps its callback (the callback's option keys are part of the dataset class's keys, repr and equality). Members of a dataset class are memoised under their JSON fingerprint: 1, 1.0 and True under one key are three entries, not one." " (Round 9) A dataset class reports the union of its members' keys: a member Option that does not look into a section for templated references (R-RK) or a WithOptions member whose pre-set filter is wrong (R-PO) makes instances compare equal or unequal on the wrong keys." " (Round 10) The class's explain is the union over its members under the same options (R-OA on the metaclass).",
              "instance attribute values",
              filters={"R-OA": ["_DatasetClassMeta:"], "R-PO": ["pre-set keys filtered"], "R-RK": ["_template_keys"], "R-MC": ["key-is-fingerprint"], "R-CC": ["Dataset(...) rebuilt"], "R-OC": ["creates no cache"], "R-MX": ["with_options", "with_default_options"], "R-RG": ["walked once per member", "every member registered"], "R-KC": ["_DatasetClassMeta"], "R-VA": ["_DatasetClassMeta"], "R-XA": ["_DatasetClassMeta"], "R-DK": ["datasetclass"],
                       "R-WI": ["_DatasetClassMeta"], "R-EO": ["Value.evaluate"]}),
    "C20": _p(["R-PL", "R-PF", "R-GA", "R-PK", "R-IS", "R-TV", "R-FP"],
              "Decides necessary conditions of picklability: every class holding a lock drops it in __getstate__ and re-creates it in "
              "__setstate__; node classes use default instance pickling (no __slots__); no wrapper object takes a decorated function's "
              "name while retaining the function without customising pickling; __getattr__ rejects private names before touching "
              "instance state; identity tests only against objects that keep their identity through pickling (MISSING is an Enum member); "
              "no operation stores closures or other options-dependent state on the object."
              " __getattr__ rejects private names before reading any instance attribute — also inside the guard's own test."
              " Type variables carry the name they are bound to (objects built through a subscripted constructor pickle the alias by name); the fingerprint iterates sorted keys (set order differs between processes: entries pickled with a MemoryCache would all miss).",
              "behavioural equality after a round trip, protocols, fresh-process loading",
              filters={"R-FP": ["sorted-iteration"]}),
}
