"""Static analysis of 8451/labrea for properties C01..C20.

Nothing in this package imports or executes ``labrea``: every check parses the
current working tree of /repo (or $LABREA_REPO) and decides structural clauses
of the properties over the resolved program.
"""
