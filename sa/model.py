"""Front end: the resolved program model of /repo/labrea (pure ``ast``).

Module table, per-module name resolution (imports, aliases), class table with
linearised MRO across modules, method table (``@overload`` stubs dropped),
class-level attribute annotations, module-level function table.
"""
from __future__ import annotations

import ast
import hashlib
import os
from dataclasses import dataclass, field
from typing import Dict, Iterator, List, Optional, Tuple

REPO = os.environ.get("LABREA_REPO", "/repo")
PKG = "labrea"


class AnalysisError(Exception):
    """The analysis cannot decide (anchor vanished, unreadable idiom …) — exit 2."""


def _is_overload_stub(fn: ast.FunctionDef) -> bool:
    for d in fn.decorator_list:
        if isinstance(d, ast.Name) and d.id == "overload":
            return True
        if isinstance(d, ast.Attribute) and d.attr == "overload":
            return True
    return False


def decorator_names(fn) -> List[str]:
    out = []
    for d in fn.decorator_list:
        try:
            out.append(ast.unparse(d))
        except Exception:  # pragma: no cover
            out.append("?")
    return out


@dataclass(repr=False)
class Module:
    name: str  # labrea.types
    path: str
    relpath: str
    src: str
    tree: ast.Module
    # local name -> ("class"|"func"|"alias"|"import"|"var", target)
    names: Dict[str, Tuple[str, object]] = field(default_factory=dict)
    imports: Dict[str, Tuple[str, Optional[str]]] = field(default_factory=dict)
    # name -> (module, attr|None)


@dataclass(repr=False, eq=False)
class ClassInfo:
    name: str
    module: Module
    node: ast.ClassDef
    base_exprs: List[ast.expr]
    methods: Dict[str, ast.FunctionDef]
    annotations: Dict[str, ast.expr]
    class_assigns: Dict[str, ast.expr]
    repo: "Repo" = None  # type: ignore

    def __repr__(self):
        return f"<class {self.module.name}.{self.name}>"

    @property
    def qualname(self) -> str:
        return f"{self.module.name}.{self.name}"

    def bases(self) -> List["ClassInfo"]:
        out = []
        for b in self.base_exprs:
            e = b
            if isinstance(e, ast.Subscript):
                e = e.value
            c = self.repo.resolve_class(self.module, e)
            if c is not None:
                out.append(c)
        return out

    def external_bases(self) -> List[str]:
        out = []
        for b in self.base_exprs:
            e = b.value if isinstance(b, ast.Subscript) else b
            if self.repo.resolve_class(self.module, e) is None:
                out.append(ast.unparse(e))
        return out

    def mro(self) -> List["ClassInfo"]:
        # simple depth-first, left-to-right, duplicates removed keeping the last
        # occurrence (good enough for labrea's single-inheritance + mixin ABCs;
        # cross-checked against C3 where it matters: no diamond redefines an op).
        seen: List[ClassInfo] = []

        def walk(c: "ClassInfo"):
            seen.append(c)
            for b in c.bases():
                walk(b)

        walk(self)
        out: List[ClassInfo] = []
        for c in seen:
            if c in out:
                out.remove(c)
            out.append(c)
        return out

    def is_subclass_of(self, qual_or_simple: str) -> bool:
        for c in self.mro():
            if c.qualname == qual_or_simple or c.name == qual_or_simple:
                return True
        return False

    def method(self, name: str) -> ast.FunctionDef:
        """The function that ``self.name`` resolves to (own or inherited from a class of the repository)."""
        r = self.find_method(name)
        if r is None:
            raise AnalysisError(f"{self.qualname} has no method {name} (anchor vanished)")
        return r[1]

    def find_method(self, name: str) -> Optional[Tuple["ClassInfo", ast.FunctionDef]]:
        for c in self.mro():
            if name in c.methods:
                return c, c.methods[name]
        return None

    def all_annotations(self) -> Dict[str, ast.expr]:
        out: Dict[str, ast.expr] = {}
        for c in reversed(self.mro()):
            out.update(c.annotations)
        return out

    def is_abstract(self) -> bool:
        for n, m in self.methods.items():
            for d in m.decorator_list:
                if (isinstance(d, ast.Name) and d.id == "abstractmethod") or (
                    isinstance(d, ast.Attribute) and d.attr == "abstractmethod"
                ):
                    return True
        return False


@dataclass(repr=False, eq=False)
class FuncInfo:
    name: str
    module: Module
    node: ast.FunctionDef

    @property
    def qualname(self) -> str:
        return f"{self.module.name}.{self.name}"


class Repo:
    def __init__(self, root: str = None):
        self.root = root or REPO
        self.pkgdir = os.path.join(self.root, PKG)
        if not os.path.isdir(self.pkgdir):
            raise AnalysisError(f"package directory {self.pkgdir} not found")
        self.modules: Dict[str, Module] = {}
        self.classes: Dict[str, ClassInfo] = {}
        self.functions: Dict[str, FuncInfo] = {}
        self._load()

    # ------------------------------------------------------------------ load
    def _load(self):
        h = hashlib.sha256()
        for dirpath, dirnames, filenames in sorted(os.walk(self.pkgdir)):
            dirnames[:] = sorted(d for d in dirnames if d != "__pycache__")
            for fn in sorted(filenames):
                if not fn.endswith(".py"):
                    continue
                path = os.path.join(dirpath, fn)
                rel = os.path.relpath(path, self.root)
                modname = rel[:-3].replace(os.sep, ".")
                if modname.endswith(".__init__"):
                    modname = modname[: -len(".__init__")]
                with open(path, encoding="utf-8") as f:
                    src = f.read()
                h.update(rel.encode() + b"\0" + src.encode() + b"\0")
                try:
                    tree = ast.parse(src, filename=path)
                except SyntaxError as e:
                    raise AnalysisError(f"cannot parse {rel}: {e}")
                self.modules[modname] = Module(modname, path, rel, src, tree)
        self.digest = h.hexdigest()
        for m in self.modules.values():
            self._index_module(m)

    def _module_body(self, m: Module) -> Iterator[ast.stmt]:
        # flatten ``if sys.version_info``/TYPE_CHECKING blocks at module level
        def walk(stmts):
            for s in stmts:
                if isinstance(s, ast.If):
                    yield from walk(s.body)
                    yield from walk(s.orelse)
                elif isinstance(s, ast.Try):
                    yield from walk(s.body)
                else:
                    yield s

        return walk(m.tree.body)

    def _index_module(self, m: Module):
        for s in self._module_body(m):
            if isinstance(s, ast.ImportFrom):
                base = m.name.split(".")
                is_pkg = m.path.endswith("__init__.py")
                if s.level:
                    # ``labrea.x`` with level 1 -> ``labrea``; a package's
                    # __init__ with level 1 -> the package itself
                    up = s.level - (1 if is_pkg else 0)
                    base = base[: len(base) - up] if up else base
                    target = ".".join(base + ([s.module] if s.module else []))
                else:
                    target = s.module or ""
                for a in s.names:
                    local = a.asname or a.name
                    # ``from . import runtime`` imports a module
                    if f"{target}.{a.name}" in self.modules or (
                        s.module is None and s.level
                    ):
                        m.imports[local] = (f"{target}.{a.name}", None)
                    else:
                        m.imports[local] = (target, a.name)
            elif isinstance(s, ast.Import):
                for a in s.names:
                    m.imports[a.asname or a.name.split(".")[0]] = (a.name, None)
            elif isinstance(s, ast.ClassDef):
                ci = self._class_info(m, s)
                self.classes[ci.qualname] = ci
                m.names[s.name] = ("class", ci)
            elif isinstance(s, (ast.FunctionDef, ast.AsyncFunctionDef)):
                if _is_overload_stub(s):
                    continue
                fi = FuncInfo(s.name, m, s)
                self.functions[fi.qualname] = fi
                m.names[s.name] = ("func", fi)
            elif isinstance(s, ast.Assign) and len(s.targets) == 1:
                t = s.targets[0]
                if isinstance(t, ast.Name):
                    if isinstance(s.value, ast.Name):
                        m.names[t.id] = ("alias", s.value.id)
                    else:
                        m.names[t.id] = ("var", s.value)
            elif isinstance(s, ast.AnnAssign) and isinstance(s.target, ast.Name):
                if s.value is not None:
                    m.names[s.target.id] = ("var", s.value)

    def _class_info(self, m: Module, node: ast.ClassDef) -> ClassInfo:
        methods: Dict[str, ast.FunctionDef] = {}
        ann: Dict[str, ast.expr] = {}
        assigns: Dict[str, ast.expr] = {}
        for s in node.body:
            if isinstance(s, (ast.FunctionDef, ast.AsyncFunctionDef)):
                if _is_overload_stub(s):
                    continue
                methods[s.name] = s
            elif isinstance(s, ast.AnnAssign) and isinstance(s.target, ast.Name):
                ann[s.target.id] = s.annotation
                if s.value is not None:
                    assigns[s.target.id] = s.value
            elif isinstance(s, ast.Assign):
                for t in s.targets:
                    if isinstance(t, ast.Name):
                        assigns[t.id] = s.value
        ci = ClassInfo(node.name, m, node, list(node.bases), methods, ann, assigns)
        ci.repo = self
        return ci

    # --------------------------------------------------------------- resolve
    def resolve_name(self, m: Module, name: str, _depth=0):
        """Resolve a bare name used in module ``m`` to ("class", ClassInfo) /
        ("func", FuncInfo) / ("var", expr, module) / ("module", modname) /
        ("external", "mod.attr") / None."""
        if _depth > 8:
            return None
        if name in m.names:
            kind, tgt = m.names[name]
            if kind == "alias":
                return self.resolve_name(m, tgt, _depth + 1)
            if kind == "var":
                return ("var", tgt, m)
            return (kind, tgt)
        if name in m.imports:
            mod, attr = m.imports[name]
            if attr is None:
                if mod in self.modules:
                    return ("module", mod)
                return ("external", mod)
            if mod in self.modules:
                return self.resolve_name(self.modules[mod], attr, _depth + 1)
            return ("external", f"{mod}.{attr}")
        return None

    def resolve_expr(self, m: Module, e: ast.expr):
        """Resolve Name / module.attr expressions."""
        if isinstance(e, ast.Name):
            return self.resolve_name(m, e.id)
        if isinstance(e, ast.Attribute) and isinstance(e.value, ast.Name):
            r = self.resolve_name(m, e.value.id)
            if r and r[0] == "module":
                return self.resolve_name(self.modules[r[1]], e.attr)
            if r and r[0] == "external":
                return ("external", f"{r[1]}.{e.attr}")
        return None

    def resolve_class(self, m: Module, e: ast.expr) -> Optional[ClassInfo]:
        r = self.resolve_expr(m, e)
        if r and r[0] == "class":
            return r[1]
        return None

    def cls(self, simple_or_qual: str) -> ClassInfo:
        if simple_or_qual in self.classes:
            return self.classes[simple_or_qual]
        hits = [c for c in self.classes.values() if c.name == simple_or_qual]
        if len(hits) == 1:
            return hits[0]
        raise AnalysisError(
            f"anchor class {simple_or_qual!r} not found (or ambiguous: {len(hits)})"
        )

    def func(self, qual: str) -> FuncInfo:
        if qual in self.functions:
            return self.functions[qual]
        raise AnalysisError(f"anchor function {qual!r} not found")

    def method(self, cls: str, name: str) -> Tuple[ClassInfo, ast.FunctionDef]:
        c = self.cls(cls)
        r = c.find_method(name)
        if r is None:
            raise AnalysisError(f"anchor method {cls}.{name} not found")
        return r

    # ------------------------------------------------------------- queries
    def subclasses_of(self, base: str, concrete_only=True) -> List[ClassInfo]:
        out = []
        for c in self.classes.values():
            if c.name == base or c.qualname == base:
                continue
            if c.is_subclass_of(base):
                out.append(c)
        return sorted(out, key=lambda c: c.qualname)

    def role_class(self, role: str):
        """Private classes found by what they are, not by what they are called.
          dsc_meta   the metaclass of dataset classes (labrea.datasetclass, derives from type)
          dsc_mixin  the instance mixin of dataset classes (labrea.datasetclass, defines __eq__)
          all_options  the class of the public instance labrea.option.AllOptions"""
        import ast as _ast
        dm = self.modules.get("labrea.datasetclass")
        if role in ("dsc_meta", "dsc_mixin") and dm is not None:
            cands = [c for c in self.classes.values() if c.module is dm]
            if role == "dsc_meta":
                r = [c for c in cands if any("type" in k.external_bases() for k in c.mro())]
            else:
                r = [c for c in cands if "__eq__" in c.methods and not any("type" in k.external_bases() for k in c.mro())]
            if len(r) == 1:
                return r[0]
            raise AnalysisError(f"labrea/datasetclass.py: {len(r)} candidates for the {role} class")
        if role == "all_options":
            om = self.modules.get("labrea.option")
            v = om.names.get("AllOptions") if om is not None else None
            if v and v[0] == "var" and isinstance(v[1], _ast.Call):
                c = self.resolve_class(om, v[1].func) if isinstance(v[1].func, (_ast.Name, _ast.Attribute)) else None
                if c is not None:
                    return c
            raise AnalysisError("labrea.option.AllOptions is not an instance of a class of the module")
        raise AnalysisError(f"unknown role {role}")

    def node_classes(self) -> List[ClassInfo]:
        """Concrete Evaluatable classes: define (or inherit from a concrete
        labrea class) the four operations."""
        out = []
        for c in self.subclasses_of("Evaluatable"):
            ok = True
            for op in ("evaluate", "validate", "keys", "explain"):
                r = c.find_method(op)
                if r is None or r[0].name in (
                    "Evaluatable",
                    "Cacheable",
                    "Explainable",
                    "Validatable",
                ):
                    ok = False
            if ok and self._has_open_abstract_method(c):
                ok = False          # an abstract base of the library's own (cannot be instantiated)
            if ok:
                out.append(c)
        return out

    @staticmethod
    def _has_open_abstract_method(c: ClassInfo) -> bool:
        """Some method declared ``@abstractmethod`` in the class or an ancestor of the library is not overridden below it."""
        mro = c.mro()
        for i, k in enumerate(mro):
            for name, fn in k.methods.items():
                if any(ast.unparse(d).split(".")[-1] == "abstractmethod" for d in fn.decorator_list):
                    if not any(name in kk.methods and not any(ast.unparse(d).split(".")[-1] == "abstractmethod" for d in kk.methods[name].decorator_list) for kk in mro[:i]):
                        return True
        return False

    def annotation_mentions(self, m: Module, ann: ast.expr, base: str, _seen=None) -> bool:
        """Does annotation expression mention a class deriving ``base``?"""
        if ann is None:
            return False
        _seen = _seen if _seen is not None else set()
        if id(ann) in _seen or len(_seen) > 200:
            return False
        _seen.add(id(ann))
        if isinstance(ann, ast.Constant) and isinstance(ann.value, str):
            try:
                ann = ast.parse(ann.value, mode="eval").body
            except SyntaxError:
                return False
        for n in ast.walk(ann):
            if isinstance(n, ast.Constant) and isinstance(n.value, str):
                try:
                    sub = ast.parse(n.value, mode="eval").body
                except SyntaxError:
                    continue
                if self.annotation_mentions(m, sub, base, _seen):
                    return True
            if isinstance(n, (ast.Name, ast.Attribute)):
                r = self.resolve_expr(m, n) if not isinstance(n, ast.Name) else self.resolve_name(m, n.id)
                if r and r[0] == "class" and (r[1].name == base or r[1].is_subclass_of(base)):
                    return True
                if r and r[0] == "var":
                    # type alias, e.g. Domain = Evaluatable[_Domain]
                    if isinstance(r[1], ast.expr) and not isinstance(r[1], ast.Call):
                        if r[1] is not ann and self.annotation_mentions(r[2], r[1], base, _seen):
                            return True
        return False

    def loc(self, m: Module, node: ast.AST) -> str:
        return f"{m.relpath}:{getattr(node, 'lineno', 0)}"


def norm(e: ast.AST) -> str:
    """Normalised statement/expression text (position independent)."""
    return ast.unparse(e)


def iter_functions(repo: Repo):
    """Yield (module, class-or-None, function node, qualname) for every def,
    including nested defs (qualname uses '.<locals>.')."""
    for m in repo.modules.values():
        def walk(body, cls, prefix):
            for s in body:
                if isinstance(s, (ast.FunctionDef, ast.AsyncFunctionDef)):
                    q = f"{prefix}{s.name}"
                    yield m, cls, s, q
                    yield from walk(s.body, cls, q + ".<locals>.")
                elif isinstance(s, ast.ClassDef):
                    yield from walk(s.body, s, f"{prefix}{s.name}.")
                elif isinstance(s, (ast.If, ast.Try, ast.With, ast.For, ast.While)):
                    for fld in ("body", "orelse", "finalbody"):
                        yield from walk(getattr(s, fld, []) or [], cls, prefix)
                    for h in getattr(s, "handlers", []) or []:
                        yield from walk(h.body, cls, prefix)
        yield from walk(m.tree.body, None, m.name + ".")
