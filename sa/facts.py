"""Per-run shared state: repo model + memoised op facts of every node class."""
from __future__ import annotations

from typing import Dict, List, Tuple

from .interp import OPS, Ctx, Path, analyse_method
from .model import AnalysisError, ClassInfo, Repo
from .terms import Child, New, Term


class Run:
    def __init__(self, repo: Repo = None, tier: str = "quick"):
        self.repo = repo or Repo()
        self.tier = tier
        self.unroll = 1 if tier == "quick" else 2
        self._facts: Dict[Tuple[str, str, int], List[Path]] = {}
        self.imprecise: List[str] = []
        self.paths_total = 0
        self._rule_cache = {}

    def paths(self, cls: ClassInfo, op: str, unroll: int = None, max_steps: int = None) -> List[Path]:
        u = unroll if unroll is not None else self.unroll
        k = (cls.qualname, op, u)
        if k not in self._facts:
            ctx = Ctx(self.repo, unroll=u)
            if max_steps is not None:
                ctx.max_steps = max_steps
            elif u >= 2:
                ctx.max_steps = 20000
            try:
                ps = analyse_method(ctx, cls, op)
            except AnalysisError:
                if u < 2 or max_steps is not None:
                    raise
                # deep unrolling is an optional refinement: fall back to one iteration
                self.imprecise.append(f"{cls.name}.{op}: unrolling loops {u} times exceeds the step budget; analysed with one iteration")
                ctx = Ctx(self.repo, unroll=1)
                ps = analyse_method(ctx, cls, op)
            for n in ctx.imprecise:
                msg = f"{cls.name}.{op}: {n}"
                if msg not in self.imprecise:
                    self.imprecise.append(msg)
            if len(ps) >= ctx.max_paths:
                # the rules compare the paths of the four operations pairwise: beyond this the comparison itself does not end in useful time
                raise AnalysisError(f"{cls.name}.{op}: {len(ps)} paths (path explosion) — no verdict")
            self._facts[k] = ps
            self.paths_total += len(ps)
        return self._facts[k]

    def node_classes(self) -> List[ClassInfo]:
        ncs = self.repo.node_classes()
        if len(ncs) < 20:
            raise AnalysisError(f"only {len(ncs)} concrete Evaluatable classes found (expected >= 20)")
        return ncs


def leaf_children(t: Term, out=None) -> List[str]:
    """Child paths mentioned inside a term (for atomic, non-unfolded ops)."""
    out = out if out is not None else []
    if isinstance(t, Child):
        if t.path not in out:
            out.append(t.path)
    elif isinstance(t, New):
        for v in t.attrs.values():
            leaf_children(v, out)
    else:
        for a in getattr(t, "args", ()) or ():
            leaf_children(a, out)
        for a in getattr(t, "items", ()) or ():
            leaf_children(a, out)
        e = getattr(t, "elem", None)
        if e is not None:
            leaf_children(e, out)
    return out


def op_targets(path: Path, op: str, include_failed=False) -> List[str]:
    """Child paths that received ``op`` on this path."""
    out = []
    for e in path.events:
        if e.kind != "op" or e.op != op:
            continue
        if e.failed and not include_failed:
            continue
        if isinstance(e.target, Child):
            if e.target.path not in out:
                out.append(e.target.path)
        elif isinstance(e.target, New):
            for c in leaf_children(e.target):
                if c not in out:
                    out.append(c)
    return out


def normal(paths: List[Path]) -> List[Path]:
    return [p for p in paths if p.status == "ret"]


def cond_pol(conds, base: str, contains: bool = False):
    """Polarity (True/False) with which the pure condition ``base`` holds among
    ``conds`` (a path's conditions), after folding ``not`` / ``is not`` /
    ``not in`` into the polarity; None when the path never tests it.  With
    ``contains`` the first condition whose normalised term *contains* base is used
    (only for conjunction-free tests)."""
    from .interp import Frame
    if not contains:
        at = Frame.atoms(conds)
        if base in at:
            return at[base]
    for c in conds:
        if not c[2]:
            continue
        k, pol = Frame.norm_cond(c[2], c[1])
        if k == base or (contains and base in k and not k.startswith("and(") and not k.startswith("or(")):
            return pol
    return None


def bool_atoms(t: Term, out=None) -> List[str]:
    """Keys of the atomic tests of a boolean term (and / or / not structure removed)."""
    out = out if out is not None else []
    from .interp import Frame
    head = getattr(t, "head", None)
    if head in ("and", "or") or head == "unop:Not":
        for a in t.args:
            bool_atoms(a, out)
        return out
    from .terms import Const
    if isinstance(t, Const) and isinstance(t.v, bool):
        return out          # a constant is no test
    k, _ = Frame.norm_cond(t.key(), True)
    if k not in out:
        out.append(k)
    return out


def eval_bool(t: Term, assign: Dict[str, bool]):
    """Truth value of a boolean term under an assignment of its atoms (None when
    an atom is unassigned)."""
    from .interp import Frame
    head = getattr(t, "head", None)
    if head == "unop:Not":
        v = eval_bool(t.args[0], assign)
        return None if v is None else (not v)
    if head in ("and", "or"):
        vs = [eval_bool(a, assign) for a in t.args]
        if head == "and":
            if any(v is False for v in vs):
                return False
            return None if any(v is None for v in vs) else True
        if any(v is True for v in vs):
            return True
        return None if any(v is None for v in vs) else False
    from .terms import Const
    if isinstance(t, Const) and isinstance(t.v, bool):
        return t.v
    k, pol = Frame.norm_cond(t.key(), True)
    if k not in assign:
        return None
    return assign[k] if pol else (not assign[k])


def forwarded_to(path: Path, op: str):
    """The event by which an operation's path forwards ``op`` to another expression
    first (not inside an unfolded child), or None."""
    for e in path.events:
        if e.kind in ("unfold", "op") and not e.via:
            return e if (e.op == op and isinstance(e.target, New)) else None
    return None


def effects_toggle(run: "Run") -> str:
    """Name of the per-dataset attribute that Dataset.disable_effects() sets to True (the effects toggle)."""
    if "effects_toggle" in run._rule_cache:
        return run._rule_cache["effects_toggle"]
    from .interp import Ctx, analyse_function
    ds = run.repo.cls("Dataset")
    fn = ds.methods.get("disable_effects")
    if fn is None:
        raise AnalysisError("Dataset.disable_effects not found")
    names = set()
    for p in analyse_function(Ctx(run.repo), ds.module, fn, cls=ds):
        for e in p.events:
            if e.kind == "store" and len(e.args) == 2 and e.args[0].key() == "self" and e.target is not None and e.target.key() == "Const(True)":
                names.add(getattr(e.args[1], "v", None))
    if len(names) != 1:
        raise AnalysisError(f"Dataset.disable_effects sets {sorted(map(str, names))} to True; exactly one toggle attribute expected")
    run._rule_cache["effects_toggle"] = names.pop()
    return run._rule_cache["effects_toggle"]


def dataset_compositions(run: "Run"):
    """[(effects_disabled polarity, composed term)]: the expression(s) a Dataset
    forwards evaluate() to, read off the paths of Dataset.evaluate."""
    ds = run.repo.cls("Dataset")
    out, seen = [], set()
    for p0 in run.paths(ds, "evaluate"):
        e0 = forwarded_to(p0, "evaluate")
        if e0 is None:
            continue
        dis = cond_pol(p0.conds, f"Child({effects_toggle(run)})")
        if (dis, e0.target.key()) in seen:
            continue
        seen.add((dis, e0.target.key()))
        out.append((dis, e0.target))
    if not out:
        raise AnalysisError("Dataset.evaluate does not forward to a composed expression (anchor vanished)")
    return out


_MUTATING_CALLS = {"append", "appendleft", "extend", "add", "update", "setdefault", "pop", "popitem", "clear", "remove", "discard", "insert",
                   "__setitem__", "__delitem__", "register", "run", "warn", "log", "acquire", "release"}


def behaviour(repo, module, fn, cls=None, env=None, effects: bool = True, ctx=None) -> List[str]:
    """Canonical behaviour of a small function, independent of statement order, local names,
    guard-clause vs if/else form and private helpers (they are inlined): the sorted set of

        <established atomic conditions> => <effects in order> -> ret <term> | raise <term> [from e]

    over all paths.  Effects are attribute / item stores, operations applied to nodes, requests and
    calls of mutating methods."""
    from .interp import Ctx, Frame, analyse_function
    out = set()
    for p in analyse_function(ctx or Ctx(repo), module, fn, env, cls=cls):
        cs = set()
        for k, pol in Frame.atoms(p.conds).items():
            cs.add(f"{k}={'T' if pol else 'F'}")
        for c in p.conds:
            if not c[2] and c[0]:
                cs.add(c[0])
        effs = []
        if effects:
            for e in p.events:
                if e.kind == "store" and len(e.args) == 2:
                    a1 = e.args[1]
                    slot = (f"[{a1.args[0].key()}]" if getattr(a1, "head", "") == "index" and a1.args else "." + str(getattr(a1, "v", a1.key())))
                    effs.append(f"store {e.args[0].key()}{slot} = {e.target.key() if e.target is not None else '?'}")
                elif e.kind == "op":
                    effs.append(f"op {e.op}({e.target.key() if e.target is not None else '?'}, {e.opts.key() if e.opts is not None else None})" + (" failed" if e.failed else ""))
                elif e.kind == "call" and e.text in _MUTATING_CALLS:
                    effs.append(f"call {e.target.key() if e.target is not None else ''}.{e.text}({', '.join(a.key() for a in e.args)})" + (" failed" if e.failed else ""))
        if p.status == "ret":
            o = "ret " + (p.ret.key() if p.ret is not None else "None")
        else:
            rev = [e for e in p.events if e.kind == "raise"]
            o = "raise " + (rev[-1].target.key() if rev and rev[-1].target is not None else (p.exc[0] if p.exc else "?"))
            if p.exc and p.exc[1] not in ("none", None):
                o += f" [{p.exc[1]}]"
        out.add(" & ".join(sorted(cs)) + " => " + "; ".join(effs) + " -> " + o)
    return sorted(out)
