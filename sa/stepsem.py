"""What a helper step computes, read off the *term* its constructor returns (DESIGN 3.8).

``labrea.functions`` builds every helper as ``PipelineStep(<callable>, <name>)`` where the callable is a
``PartialApplication`` (``partial(f, *args, **kwargs)``), a lambda, a private function, a builtin, or a ``+`` chain of
such things.  The interpreter evaluates the helper's body — through private builders, locals, ``**bound`` dictionaries
and calls of other helpers — to one term per path; this module turns that term into a canonical expression over

    INPUT      the value flowing through the pipeline
    ⟨Pi⟩       the helper's i-th parameter, evaluated from the options (it went through partial()/PipelineStep)
    CAPTURED   a parameter frozen in a closure (never evaluated: the R-HF failure)

so that R-HO / R-HF compare *what is computed*, not how the constructor is written.
"""
from __future__ import annotations

import ast
import copy
from typing import Dict, List, Optional, Tuple

from .interp import Coll, Ctx, Frame, analyse_function
from .terms import Child, Const, Fn, New, Opaque, Seq, Sym, Term

OPERATOR_FORMS = {
    "add": "+", "sub": "-", "mul": "*", "truediv": "/", "mod": "%", "floordiv": "//",
    "eq": "==", "ne": "!=", "lt": "<", "le": "<=", "gt": ">", "ge": ">=",
    "and_": "&", "or_": "|", "xor": "^",
}


class _Subst(ast.NodeTransformer):
    def __init__(self, mapping: Dict[str, str], free):
        self.mapping = mapping
        self.free = free  # name -> text for names that are neither parameters nor mapped

    def visit_Name(self, node):
        if node.id in self.mapping:
            return ast.Name(id=self.mapping[node.id], ctx=ast.Load())
        t = self.free(node.id)
        if t is not None:
            return ast.Name(id=t, ctx=ast.Load())
        return node

    def visit_Lambda(self, node):
        own = {a.arg for a in node.args.posonlyargs + node.args.args}
        node.body = _Subst({k: v for k, v in self.mapping.items() if k not in own}, lambda n: None if n in own else self.free(n)).visit(node.body)
        return node

    def _comp(self, node):
        own = {n.id for g in node.generators for n in ast.walk(g.target) if isinstance(n, ast.Name)}
        sub = _Subst({k: v for k, v in self.mapping.items() if k not in own}, lambda n: None if n in own else self.free(n))
        for g in node.generators:
            g.iter = sub.visit(g.iter)
            g.ifs = [sub.visit(i) for i in g.ifs]
        for f in ("elt", "key", "value"):
            if hasattr(node, f):
                setattr(node, f, sub.visit(getattr(node, f)))
        return node

    visit_GeneratorExp = visit_ListComp = visit_SetComp = visit_DictComp = _comp

    def visit_Call(self, node):
        self.generic_visit(node)
        f = node.func
        if isinstance(f, ast.Attribute) and isinstance(f.value, ast.Name) and f.value.id == "operator" and f.attr in OPERATOR_FORMS and len(node.args) == 2 and not node.keywords:
            sym = OPERATOR_FORMS[f.attr]
            return ast.parse(f"({ast.unparse(node.args[0])}) {sym} ({ast.unparse(node.args[1])})", mode="eval").body
        return node


class StepSem:
    def __init__(self, repo, module, params: List[str], vararg: Optional[str] = None, kwarg: Optional[str] = None):
        self.repo = repo
        self.module = module
        self.params = list(params)
        self.vararg = vararg
        self.kwarg = kwarg
        self.captured: List[str] = []
        self.evaluated: List[str] = []
        self.ensured: set = set()

    # ---------------------------------------------------------------- parameters
    def pname(self, name: str) -> Optional[str]:
        if name in self.params:
            return f"P{self.params.index(name)}"
        return None

    def rename(self, text: str) -> str:
        """Parameter names in a term key -> positional names."""
        import re
        names = list(self.params) + ([self.vararg] if self.vararg else []) + ([self.kwarg] if self.kwarg else [])
        for i, n in enumerate(names):
            text = re.sub(r"(?<![A-Za-z0-9_'])" + re.escape(n) + r"(?![A-Za-z0-9_'=])", f"P{i}", text)
        return text

    # ---------------------------------------------------------------- value terms
    def strip(self, t: Term) -> Term:
        while isinstance(t, New) and t.cls.name == "Value" and "value" in t.attrs:
            t = t.attrs["value"]
        return t

    def raw(self, t: Term) -> str:
        """A term as an expression over the helper's parameters (no evaluation implied)."""
        t = self.strip(t)
        if isinstance(t, Sym) and not t.args and not t.text:
            return self.pname(t.head) or t.head
        if isinstance(t, Child):
            path = t.path
            if self.vararg and path.startswith("*" + self.vararg):
                return "*P" + str(len(self.params)) + path[len(self.vararg) + 1:]
            if self.kwarg and path.startswith("**" + self.kwarg):
                return "**PK" + path[len(self.kwarg) + 2:]
            return t.key()
        if isinstance(t, Const):
            return repr(t.v)
        if isinstance(t, New):
            if t.cls.name in ("PipelineStep", "PartialApplication", "Pipeline"):
                return self.sem(t)
            if t.cls.name == "Apply" and "evaluatable" in t.attrs and "func" in t.attrs:
                inner = self.strip(t.attrs["evaluatable"])
                if isinstance(inner, New) and inner.cls.name == "Iter" and "evaluatables" in inner.attrs:
                    return f"{self.raw(t.attrs['func'])}[{self.raw(inner.attrs['evaluatables'])}]"
                return f"{self.raw(t.attrs['func'])}({self.raw(inner)})"
            inner = ",".join(f"{k}={self.raw(v)}" for k, v in sorted(t.attrs.items()) if not k.startswith("_"))
            return f"{t.cls.name}({inner})"
        if isinstance(t, Seq):
            return "[" + ", ".join(self.raw(i) for i in t.items) + "]"
        if isinstance(t, Coll):
            return "[" + self.raw(t.elem) + " …]"
        if isinstance(t, Fn):
            return self.sem(t)
        if isinstance(t, Sym):
            if t.head in ("ext", "name", "class", "global") and t.text:
                return t.text
            if t.head.startswith("binop:Add") and len(t.args) == 2:
                return self.sem(t)
            return f"{t.head}({', '.join(self.raw(a) for a in t.args)})" if t.args else t.key()
        return t.key()

    def arg(self, t: Term) -> str:
        """An argument of partial(): evaluated against the options before the call."""
        r = self.raw(t)
        for i in range(len(self.params) + 1):
            if f"P{i}" in r:
                self.evaluated.append(f"P{i}")
        if "PK" in r:
            self.evaluated.append("PK")
        return "⟨" + r + "⟩"

    # ---------------------------------------------------------------- callables
    def _lambda_body(self, fn: Fn, mapping: Dict[str, str]) -> str:
        own = {a.arg for a in fn.node.args.posonlyargs + fn.node.args.args}
        frame = fn.frame or {}

        def free(name: str) -> Optional[str]:
            if name in own:
                return None
            t = frame.get(name)
            if t is None:
                return None
            r = self.raw(t)
            if any(f"P{i}" in r for i in range(len(self.params) + 1)) or "PK" in r:
                self.captured.append(r)
                return "CAPTURED⟨" + r + "⟩"
            return None
        body = _Subst(mapping, free).visit(copy.deepcopy(fn.node.body))
        return ast.unparse(body)

    def _paths_form(self, fn: Fn, env: Dict[str, Term]) -> str:
        """`<term>` when the callable has one unconditional returning path, `{cond -> ret … | …}` otherwise."""
        o = self.outcomes(fn, env)
        if o.startswith(" -> ret ") and " | " not in o:
            return o[len(" -> ret "):]
        return "{" + o + "}"

    def outcomes(self, fn: Fn, env: Dict[str, Term]) -> str:
        out = set()
        mod = fn.owner[3] if fn.owner and len(fn.owner) > 3 and fn.owner[3] is not None else self.module
        e = {}
        own_ = {a_.arg for a_ in fn.node.args.posonlyargs + fn.node.args.args + fn.node.args.kwonlyargs}
        body_ = fn.node.body if isinstance(fn.node.body, list) else [fn.node.body]     # (defaults are evaluated where the callable is defined)
        used_ = {n_.id for b_ in body_ for n_ in ast.walk(b_) if isinstance(n_, ast.Name) and isinstance(n_.ctx, ast.Load)} - own_
        for k_, v_ in (fn.frame or {}).items():
            if k_ not in used_:
                continue            # not a free variable of the callable
            # a helper parameter that the callable closes over is *captured*: frozen at construction, never evaluated
            r_ = self.raw(v_) if isinstance(v_, Term) else ""
            if isinstance(v_, (Sym, Child)) and (self.pname(getattr(v_, "head", "")) or (isinstance(v_, Child) and r_.startswith(("*P", "**PK")))) and k_ not in env:
                self.captured.append(r_)
                e[k_] = Sym("CAPTURED⟨" + r_ + "⟩")
            else:
                e[k_] = v_
        e.update(env)
        node = fn.node
        if isinstance(node, ast.Lambda):
            # a lambda is the function that returns its body
            fd = ast.parse("def _lambda_():\n    return None").body[0]
            fd.args = node.args
            fd.body[0].value = node.body
            ast.copy_location(fd, node)
            ast.fix_missing_locations(fd)
            for n2 in ast.walk(fd):
                if hasattr(n2, "lineno") and not getattr(n2, "lineno", None):
                    n2.lineno = getattr(node, "lineno", 1)
            node = fd
        for p in analyse_function(Ctx(self.repo), mod, node, e):
            cs = set()
            for c in p.conds:
                if c[2]:
                    k, pol = Frame.norm_cond(c[2], c[1])
                    cs.add(f"{k}={'T' if pol else 'F'}")
                else:
                    cs.add(c[0])
            if p.status == "ret":
                o = "ret " + (p.ret.key() if p.ret is not None else "None")
            else:
                rev = [x for x in p.events if x.kind == "raise"]
                o = "raise " + (rev[-1].target.key() if rev and rev[-1].target is not None else (p.exc[0] if p.exc else "?"))
            out.add(" & ".join(sorted(cs)) + " -> " + o)
        return " | ".join(canon_outcomes(sorted(out)))

    def apply(self, f: Term, pos: List[str], kw: Dict[str, str]) -> str:
        """``f(*pos, INPUT, **kw)`` — the call a PartialApplication makes when the pipeline hands it its input."""
        f = self.strip(f)
        if isinstance(f, Fn) and f.kind in ("lambda", "func"):
            a = f.node.args
            params = [x.arg for x in a.posonlyargs + a.args]
            mapping: Dict[str, str] = {}
            allpos = [self.arg(x) for x in f.pos] + list(pos)
            if len(allpos) > len(params) and a.vararg is None:
                return "?too-many-positional"
            for n, v in zip(params, allpos):
                mapping[n] = v
            for k, v in {**{k: self.arg(v) for k, v in f.bound.items()}, **kw}.items():
                if k in mapping:
                    return f"?multiple-values-for-{k}"
                if k not in params and k not in [x.arg for x in a.kwonlyargs] and a.kwarg is None:
                    return f"?unknown-keyword-{k}"
                mapping[k] = v
            free = [p_ for p_ in params if p_ not in mapping]
            if not free:
                return "?no-free-parameter"
            first_free = params.index(free[0])
            for k in kw:
                if k in params and params.index(k) < first_free:
                    return f"?input-collides-with-keyword-{k}"
            n_def = len(a.defaults)
            defaulted = set(params[len(params) - n_def:]) if n_def else set()
            need = [p_ for p_ in free if p_ not in defaulted]
            if len(need) > 1:
                for j, p_ in enumerate(need):
                    mapping[p_] = f"INPUT{j}"
            else:
                mapping[free[0]] = "INPUT"
            # what the function does with that binding (its paths) — a lambda and a named function alike, whatever they are called
            env = {p_: Sym(mapping[p_]) for p_ in params if p_ in mapping}
            return self._paths_form(f, env)
        head = self.raw(f)
        args = list(pos) + ["INPUT"] + [f"{k}={v}" for k, v in kw.items()]
        if isinstance(f, Sym) and not f.args and self.pname(f.head):
            head = self.arg(f)
        return f"{head}({', '.join(args)})"

    def sem(self, t: Term) -> str:
        """The step a term stands for, as ``λ <expression over INPUT>`` / ``a >> b`` / a callable's name."""
        t = self.strip(t)
        if isinstance(t, New):
            ctor = getattr(t, "ctor", None)
            if t.cls.name == "PipelineStep" and ctor is not None:
                pos, kw = ctor
                inner = pos[0] if pos else kw.get("step")
                if inner is None:
                    return "?step-without-callable"
                return self.sem(inner)
            if t.cls.name == "PartialApplication" and ctor is not None:
                pos, kw = ctor
                if not pos:
                    return "?partial-without-function"
                args: List[str] = []
                for a_ in pos[1:]:
                    if isinstance(a_, Sym) and a_.head == "star" and a_.args:
                        args.append("*" + self.arg(a_.args[0]))
                    else:
                        args.append(self.arg(a_))
                kws: Dict[str, str] = {}
                for k, v in kw.items():
                    if k == "**":
                        kws["**"] = self.arg(v)
                    else:
                        kws[k] = self.arg(v)
                return "λ " + self.apply(pos[0], args, kws)
            if t.cls.name == "Pipeline" and ctor is not None and not ctor[0] and not ctor[1]:
                return "ID"
            return self.raw_new(t)
        if isinstance(t, Sym) and t.head == "binop:Add" and len(t.args) == 2:
            # (the empty pipeline is the identity of ``+`` — what R-PI shows for Pipeline.__add__ — so it drops out of a chain)
            l_, r_ = self.sem(t.args[0]), self.sem(t.args[1])
            if l_ == "ID":
                return r_
            if r_ == "ID":
                return l_
            return l_ + " >> " + r_
        if isinstance(t, Fn):
            if t.kind == "lambda":
                params = [a.arg for a in t.node.args.posonlyargs + t.node.args.args]
                env_l = {p_: Sym("INPUT" if len(params) == 1 else f"INPUT{j}") for j, p_ in enumerate(params)}
                return "λ " + self._paths_form(t, env_l)
            if t.kind == "func":
                g = t.node
                ps = [a.arg for a in g.args.posonlyargs + g.args.args]
                if any(ast.unparse(d).split(".")[-1] == "pipeline_step" for d in g.decorator_list):
                    defaults = dict(zip(ps[len(ps) - len(g.args.defaults):], g.args.defaults)) if g.args.defaults else {}
                    env: Dict[str, Term] = {ps[0]: Sym("INPUT")}
                    fr = t.frame or {}
                    for k, v in defaults.items():
                        if isinstance(v, ast.Name) and v.id in fr:
                            env[k] = Sym(self.arg(fr[v.id]))
                        else:
                            env[k] = Sym("⟨" + ast.unparse(v) + "⟩")
                    return "step " + self.outcomes(t, env)
                return "λ " + self.apply(t, [], {})
            return t.key()
        return self.raw(t)

    def raw_new(self, t: New) -> str:
        inner = ",".join(f"{k}={self.raw(v)}" for k, v in sorted(t.attrs.items()) if not k.startswith("_"))
        return f"{t.cls.name}({inner})"


def helper_forms(repo, module, fn: ast.FunctionDef) -> Tuple[List[str], "StepSem"]:
    """Canonical forms of every way a public helper can return (one entry when they agree)."""
    a = fn.args
    params = [x.arg for x in a.posonlyargs + a.args + a.kwonlyargs]
    sem = StepSem(repo, module, params, a.vararg.arg if a.vararg else None, a.kwarg.arg if a.kwarg else None)
    outs: List[str] = []
    is_step = False
    for p in analyse_function(Ctx(repo), module, fn):
        if p.status != "ret" or p.ret is None:
            continue
        r = sem.strip(p.ret)
        if isinstance(r, New) and r.cls.name in ("PipelineStep", "PartialApplication", "Pipeline"):
            is_step = True
        cs = set()
        for c in p.conds:
            if c[2] and "class<labrea.types.Evaluatable>" in c[2]:
                sem.ensured.add(sem.rename(c[2]))       # (which parameters were asked whether they are expressions: R-HF)
            if not c[2] or "class<labrea.types.Evaluatable>" in c[2]:
                continue        # Evaluatable.ensure(x): both outcomes are the evaluated x
            k, pol = Frame.norm_cond(c[2], c[1])
            k = sem.rename(k)
            import re as _re
            if not _re.search(r"(?<![A-Za-z0-9_'])P(\d+|K)(?![A-Za-z0-9_'])", k):
                continue        # a test on constants: decided, the same for every call
            cs.add(f"{k}={'T' if pol else 'F'}")
        outs.append(" & ".join(sorted(cs)) + " -> " + sem.sem(p.ret))
    if not is_step:
        return [], sem
    forms = []
    for o in canon_outcomes(sorted(set(outs))):
        cs, _, f = o.partition(" -> ")
        forms.append((cs + " ⇒ " if cs else "") + f)
    return forms, sem


def instance_forms(repo, module, expr: ast.expr, lineno: int) -> Tuple[List[str], "StepSem"]:
    """The same for a module-level ``name = <expression building a step>``."""
    fn = ast.parse("def __instance__():\n    return None").body[0]
    fn.body[0].value = copy.deepcopy(expr)
    ast.fix_missing_locations(fn)
    for n in ast.walk(fn):
        if hasattr(n, "lineno"):
            n.lineno = lineno
            n.end_lineno = lineno
    return helper_forms(repo, module, fn)


def canon_outcomes(outs: List[str]) -> List[str]:
    """Outcomes as a function of the conditions that matter: a path that only lets the failure it caught go on is the
    outcome of not catching it (dropped, like failures outside any handler); two paths with the same result whose
    conditions differ in the polarity of one test are one path without that test."""
    items = []
    for o in outs:
        cs, _, res = o.partition(" -> ")
        if res.startswith("raise exc-of"):
            continue
        items.append((frozenset(c for c in cs.split(" & ") if c), res))
    changed = True
    while changed:
        changed = False
        for i in range(len(items)):
            for j in range(i + 1, len(items)):
                (ci, ri), (cj, rj) = items[i], items[j]
                if ri != rj:
                    continue
                d = ci ^ cj
                if len(d) == 2:
                    a, b = sorted(d)
                    if a[:-1] == b[:-1] and {a[-1], b[-1]} == {"T", "F"} and a[-2] == "=":
                        items[i] = (ci & cj, ri)
                        del items[j]
                        changed = True
                        break
                elif not d:
                    del items[j]
                    changed = True
                    break
            if changed:
                break
    return sorted(" & ".join(sorted(c)) + " -> " + r_ for c, r_ in items)
