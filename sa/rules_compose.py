"""Composition, construction and copying (DESIGN 3.3)."""
from __future__ import annotations

import ast
from typing import Dict, List, Optional, Set, Tuple

from . import astu
from .facts import Run, cond_pol, effects_toggle, normal
from .interp import Coll, Ctx, analyse_function, analyse_method
from .model import AnalysisError, ClassInfo, iter_functions
from .report import RuleResult
from .terms import Child, Const, Fn, New, Seq, Sym, Term


# ------------------------------------------------------------------ R-DC
def _chain(t: Term) -> List[New]:
    out = []
    while isinstance(t, New):
        out.append(t)
        nxt = t.attrs.get("evaluatable")
        if nxt is None:
            break
        t = nxt
    return out


def rule_DC(run: Run) -> RuleResult:
    res = RuleResult("R-DC")
    repo = run.repo
    ds = repo.cls("Dataset")
    # the composed expression is read off the operations themselves: the term every operation of a
    # Dataset is forwarded to (whatever property or helper builds it)
    f = ds.module.relpath

    class _P:
        def __init__(self, conds, ret):
            self.conds, self.ret = conds, ret

    def composed_of(path, op):
        for e in path.events:
            if e.kind in ("unfold", "op") and not e.via:
                return e if (e.op == op and isinstance(e.target, New)) else None
        return None

    paths = []
    seen_terms = set()
    for p0 in run.paths(ds, "evaluate"):
        e0 = composed_of(p0, "evaluate")
        if e0 is None:
            continue
        dis = cond_pol(p0.conds, f"Child({effects_toggle(run)})")
        if (dis, e0.target.key()) in seen_terms:
            continue
        seen_terms.add((dis, e0.target.key()))
        paths.append(_P([("self._effects_disabled", dis, f"Child({effects_toggle(run)})")] if dis is not None else [], e0.target))
    fn = ds.find_method("evaluate")[1]
    for cand in list(ds.methods.values()) + [None]:
        if cand is not None and cand.name not in ("evaluate", "validate", "keys", "explain") and any(isinstance(x, ast.Name) and x.id in ("cached", "Cached") for x in ast.walk(cand)):
            fn = cand       # the method that builds the composition, for reporting
            break
    res.count("paths", len(paths))
    nec = ("derivatives made by with_options share self.cache, so a cache outside the option wrappers "
           "conflates pre-sets (C01, C08); effects or logging outside cached() run on hits (C02, C16); a "
           "callback inside the switch skips overloads (C07)")
    if not paths:
        raise AnalysisError("Dataset.evaluate does not forward to a composed expression (anchor vanished)")
    applies = set()
    seen_comp = {True: False, False: False}
    for p in paths:
        chain = _chain(p.ret)
        names = [n.cls.name for n in chain]
        disabled = None
        for c in p.conds:
            if "_effects_disabled" in c[0]:
                disabled = c[1]
        tag = f"effects_disabled={disabled}"

        def idx(pred):
            for i, n in enumerate(chain):
                if pred(n):
                    return i
            return None

        i_def = idx(lambda n: n.cls.name == "WithOptions" and n.attrs.get("force") == Const(False) and n.attrs.get("options") == Child("default_options"))
        i_pre = idx(lambda n: n.cls.name == "WithOptions" and n.attrs.get("force") == Const(True) and n.attrs.get("options") == Child("options"))
        i_cache = idx(lambda n: n.cls.name == "Cached")
        i_log = idx(lambda n: n.cls.name == "Logged")
        i_comp = idx(lambda n: n.cls.name == "Computation")
        i_app = idx(lambda n: n.cls.name == "Apply")
        ok_order = None not in (i_def, i_pre, i_cache, i_app) and i_def < i_pre < i_cache < i_app
        res.add(f"labrea.dataset.Dataset._composed[{tag}]:default-options > pre-set options > cached > calculation", ok_order, f, fn.lineno,
                f"wrapper chain outermost first: {names}", nec)
        ok_log = i_log is not None and i_cache is not None and i_log > i_cache
        res.add(f"labrea.dataset.Dataset._composed[{tag}]:Logged inside cached", ok_log, f, fn.lineno, f"chain {names}", nec)
        if i_cache is not None:
            ca = chain[i_cache].attrs.get("cache")
            ok_c = ca == Child("cache") or (isinstance(ca, Sym) and ca.head == "or" and ca.args and ca.args[0] == Child("cache"))
            res.add(f"labrea.dataset.Dataset._composed[{tag}]:cached uses self.cache", ok_c, f, fn.lineno,
                    f"cache argument is {chain[i_cache].attrs.get('cache')}", nec)
        if i_app is not None:
            a = chain[i_app]
            ok_a = a.attrs.get("evaluatable") == Child("overloads") and a.attrs.get("func") == Child("callback")
            res.add(f"labrea.dataset.Dataset._composed[{tag}]:callback applied outside the overload switch", ok_a, f, fn.lineno,
                    f"calculation = Apply({a.attrs.get('evaluatable')}, {a.attrs.get('func')})", nec)
            applies.add(a.key())
        else:
            res.add(f"labrea.dataset.Dataset._composed[{tag}]:callback applied outside the overload switch", False, f, fn.lineno,
                    f"no Apply(self.overloads, self.callback) in the wrapper chain {names}", nec)
        if i_comp is not None:
            comp = chain[i_comp]
            eff = comp.attrs.get("effect")
            ok_e = i_cache is not None and i_comp > i_cache and isinstance(eff, New) and eff.cls.name == "ChainedEffect" and "Child(effects)" in eff.key()
            res.add(f"labrea.dataset.Dataset._composed[{tag}]:Computation inside cached with self.effects", ok_e, f, fn.lineno,
                    f"Computation at depth {i_comp}, cached at depth {i_cache}, effect {eff.key()[:80] if eff else None}", nec)
        if disabled is not None:
            seen_comp[disabled] = i_comp is not None
    res.add("labrea.dataset.Dataset._composed:effects switch selects between Computation and bare calculation",
            seen_comp[False] and not seen_comp[True], f, fn.lineno,
            f"Computation present when enabled={seen_comp[False]}, when disabled={seen_comp[True]}",
            "the per-dataset effects toggle must only remove the effect wrapper (C16)")
    for p in paths:
        n_cached = p.ret.key().count("New(Cached;")
        disabled = [c[1] for c in p.conds if "_effects_disabled" in c[0]]
        res.add(f"labrea.dataset.Dataset._composed[effects_disabled={disabled[0] if disabled else None}]:exactly one cache layer", n_cached == 1, f, fn.lineno,
                f"{n_cached} Cached nodes in the composed term",
                "a second cache layer on the same cache object (entries are keyed by options only) stores the raw value before effects/callback ran: "
                "a failed evaluation then leaves a stored value behind (C12) and hits skip effects inconsistently (C02)")
    res.add("labrea.dataset.Dataset._composed:both alternatives share one calculation", len(applies) == 1, f, fn.lineno,
            f"{len(applies)} distinct calculation terms", "the value must not depend on the effects switch (C16)")
    # the four ops forward to the same composed expression with the caller's options
    terms = {p.ret.key() for p in paths}
    for op in ("evaluate", "validate", "keys", "explain"):
        r_ = ds.find_method(op)
        if r_ is None:
            raise AnalysisError(f"Dataset.{op} not found")
        m = r_[1]
        optp = astu.param_names(m)[0]
        ops_paths = run.paths(ds, op)
        bad = ""
        for p0 in ops_paths:
            e0 = composed_of(p0, op)
            if e0 is None:
                if p0.status == "ret":
                    bad = "a path does not forward the operation to the composed expression"
                continue
            if e0.target.key() not in terms:
                bad = f"forwards to a different expression than evaluate(): {e0.target.key()[:80]}"
            elif e0.opts is None or e0.opts.key() != optp:
                bad = f"forwards with options {e0.opts.key()[:60] if e0.opts is not None else None}"
        res.add(f"labrea.dataset.Dataset.{op}:delegates to _composed.{op}(options)", bool(ops_paths) and not bad, f, m.lineno,
                bad or "forwards to the composed expression with the caller's options", nec)
    # every effect handed to add_effects is kept — an Effect as it is, a plain callable wrapped as a CallbackEffect: on every path
    # that looked at an element, that element (or the effect built from it) is appended to the dataset's effects
    ae = ds.methods.get("add_effects")
    if ae is not None:
        ok_ae, why_ae, n_ae = True, "", 0
        for p in analyse_function(Ctx(repo), ds.module, ae, cls=ds):
            if p.status != "ret":
                continue
            elem_conds = [c for c in p.conds if c[2] and "[*]" in c[2]]
            if not elem_conds:
                continue
            n_ae += 1
            kept = [e for e in p.events if e.kind == "call" and e.text in ("append", "extend", "insert") and e.target is not None and "effects" in e.target.key()]
            if not kept:
                ok_ae = False
                why_ae = f"an element that is {'an' if elem_conds[0][1] else 'not an'} Effect is dropped (conditions {[c[0][:40] for c in elem_conds]})"
        res.add("labrea.dataset.Dataset.add_effects:every effect handed in is kept", ok_ae and n_ae >= 2, f, ae.lineno,
                why_ae or f"{n_ae} element paths, each appends to self.effects",
                "an effect attached to a dataset runs after every execution of its body (C02); a callable silently dropped by add_effects never runs")
    return res


# ------------------------------------------------------------------ R-CC
def _init_param_attrs(cls: ClassInfo) -> Tuple[Dict[str, Set[str]], List[str], Optional[str]]:
    """param -> attributes assigned from it in __init__; ordered params; vararg."""
    r = cls.find_method("__init__")
    if r is None:
        return {}, [], None
    owner, fn = r
    params = astu.param_names(fn)
    vararg = fn.args.vararg.arg if fn.args.vararg else None
    mapping: Dict[str, Set[str]] = {}
    selfn = astu.first_param(fn)
    for n in astu.walk_no_nested(fn):
        tgts = []
        if isinstance(n, ast.Assign):
            tgts = [(t, n.value) for t in n.targets]
        elif isinstance(n, ast.AnnAssign) and n.value is not None:
            tgts = [(n.target, n.value)]
        for t, v in tgts:
            if isinstance(t, ast.Attribute) and isinstance(t.value, ast.Name) and t.value.id == selfn:
                for x in ast.walk(v):
                    if isinstance(x, ast.Name) and (x.id in params or x.id == vararg):
                        mapping.setdefault(x.id, set()).add(t.attr)
    return mapping, params, vararg


def rule_CC(run: Run) -> RuleResult:
    res = RuleResult("R-CC")
    repo = run.repo
    nec = ("an object rebuilt from another of the same kind must carry every field over; a dropped "
           "field silently resets behaviour (callback lost by with_options, domain/type lost when an "
           "Option is re-keyed into a namespace)")
    n_sites = 0
    for m, cls, fn, q in iter_functions(repo):
        if m.name.startswith("labrea.mypy"):
            continue
        for call in astu.calls_in(fn):
            if astu_owner(fn, call) is not fn:
                continue
            f0 = call.func
            if isinstance(f0, ast.Subscript):
                f0 = f0.value
            target = repo.resolve_class(m, f0) if isinstance(f0, (ast.Name, ast.Attribute)) else None
            if target is None:
                continue
            mapping, params, vararg = _init_param_attrs(target)
            if not mapping:
                continue
            carried_attrs: Set[str] = set()
            for a in mapping.values():
                carried_attrs |= a
            # which attribute reads of which base appear in the arguments
            bases: Dict[str, Set[str]] = {}
            argexprs = list(call.args) + [k.value for k in call.keywords]
            for a in argexprs:
                for x in ast.walk(a):
                    if isinstance(x, ast.Attribute) and x.attr in carried_attrs:
                        b = ast.unparse(x.value)
                        bases.setdefault(b, set()).add(x.attr)
            if not bases:
                continue
            base, attrs = max(bases.items(), key=lambda kv: len(kv[1]))
            if len(attrs) < 2 and len(carried_attrs) > 2:
                # one field only — still a rebuild when the function established that the base is an instance of the class built
                same_kind = any(isinstance(x, ast.Call) and astu.short_name(x) == "isinstance" and len(x.args) == 2 and ast.unparse(x.args[0]) == base
                                and repo.resolve_class(m, x.args[1]) is target for x in ast.walk(fn) if isinstance(x.args[1] if isinstance(x, ast.Call) and len(x.args) == 2 else None, (ast.Name, ast.Attribute)))
                if not same_kind:
                    continue
            # bind the call's arguments to parameters
            passed: Set[str] = set()
            pos_i = 0
            for a in call.args:
                if isinstance(a, ast.Starred):
                    if vararg:
                        passed.add(vararg)
                    pos_i = len(params)
                    continue
                if pos_i < len(params):
                    passed.add(params[pos_i])
                    pos_i += 1
                elif vararg:
                    passed.add(vararg)
            for k in call.keywords:
                if k.arg is not None:
                    passed.add(k.arg)
                else:
                    passed |= set(params)
            passed_attrs: Set[str] = set()
            for p_ in passed:
                passed_attrs |= mapping.get(p_, set())
            n_sites += 1
            site = f"{q}:{target.name}(...) rebuilt from {base}"
            missing = []
            for p_, attrs_p in mapping.items():
                if p_ in passed:
                    continue
                if attrs_p & passed_attrs:
                    continue  # another parameter feeds the same attribute
                missing.append(p_)
            if not missing:
                res.add(f"{site}:carries all fields", True, m.relpath, call.lineno,
                        f"{target.name} rebuilt from {base}: all of {sorted(mapping)} passed", nec)
            for p_ in missing:
                res.add(f"{site}:drops {p_}", False, m.relpath, call.lineno,
                        f"{ast.unparse(call)[:90]} … does not pass '{p_}' (fields carried by {target.name}.__init__: {sorted(mapping)})", nec)
            # shared-by-reference fields of Dataset derivatives (C07)
            if target.name == "Dataset" and cls is not None and cls.name == "Dataset" and base == "self":
                bound = _bind_call(call, params)
                for fld in ("overloads", "cache"):
                    a = bound.get(fld)
                    ok = a is not None and ast.unparse(a) == f"self.{fld}"
                    res.add(f"{site}:shares {fld} by reference", ok, m.relpath, call.lineno,
                            f"{fld} argument is {ast.unparse(a) if a is not None else None}",
                            "derivatives must see later registrations and share the cache (C07, C08)")
    # the same through the dataset factory: ``dataset(x.default, effects=x.effects, options=x.options, …)`` builds a second
    # dataset from the parts of x — whatever of (effects, cache, options, default_options, callback) is not handed on is
    # reset; a copy without ``cache=x.cache`` is a second memo for the same body (C02)
    FACTORY_FIELDS = ("effects", "cache", "options", "default_options", "callback")
    for m, cls, fn, q in iter_functions(repo):
        if m.name.startswith("labrea.mypy"):
            continue
        for call in astu.calls_in(fn):
            f0 = call.func
            if not isinstance(f0, (ast.Name, ast.Attribute)):
                continue
            r_ = repo.resolve_expr(m, f0)
            is_factory = bool(r_ and r_[0] == "var" and isinstance(r_[1], ast.Call) and astu.short_name(r_[1]) == "DatasetFactory")
            if not is_factory:
                continue
            bases: Dict[str, Set[str]] = {}
            for a in list(call.args) + [k.value for k in call.keywords]:
                for x in ast.walk(a):
                    if isinstance(x, ast.Attribute) and x.attr in FACTORY_FIELDS + ("default", "overloads"):
                        bases.setdefault(ast.unparse(x.value), set()).add(x.attr)
            if not bases:
                continue
            base, attrs = max(bases.items(), key=lambda kv: len(kv[1]))
            if len(attrs) < 2:
                continue
            n_sites += 1
            passed = {k.arg for k in call.keywords if k.arg}
            if any(k.arg is None for k in call.keywords):
                passed |= set(FACTORY_FIELDS)
            site = f"{q}:dataset(...) rebuilt from {base}"
            missing = [p_ for p_ in FACTORY_FIELDS if p_ not in passed]
            if not missing:
                res.add(f"{site}:carries all fields", True, m.relpath, call.lineno, f"all of {list(FACTORY_FIELDS)} passed", nec)
            for p_ in missing:
                res.add(f"{site}:drops {p_}", False, m.relpath, call.lineno,
                        f"{ast.unparse(call)[:90]} … does not pass '{p_}'" + (": the copy memoises on its own, the body runs once per copy" if p_ == "cache" else ""), nec)
    # a dataset owns its list of effects: the constructor keeps a copy of the list it is handed (derived datasets are built from
    # ``self.effects``; sharing the list, add_effects on one of them attaches the effect to all)
    ds_ = repo.cls("Dataset")
    di_ = ds_.methods.get("__init__")
    if di_ is not None:
        from .interp import analyse_function as _af
        ok_e, why_e, n_e = True, "", 0
        for p in _af(Ctx(repo), ds_.module, di_, cls=ds_):
            for e in p.events:
                if e.kind == "store" and len(e.args) == 2 and e.args[0].key() == "self" and e.args[1].key() == Const("effects").key() and e.target is not None:
                    n_e += 1
                    k_ = e.target.key()
                    if k_ == "effects" or k_.startswith("or(effects"):
                        ok_e, why_e = False, f"self.effects = {k_[:60]}: the list handed in is kept as it is"
        res.add("labrea.dataset.Dataset.__init__:keeps a copy of the effects list it is handed", ok_e and n_e > 0, ds_.module.relpath, di_.lineno,
                why_e or "effects.copy() / list(effects)",
                "effects attached to one dataset run once per execution of that dataset's body (C02); a list shared with the datasets derived from it "
                "(with_options, with_default_options, the factory's siblings) makes an effect added to one fire for all")
    if not any("dataset(...) rebuilt" in o.construct for o in res.obligations):
        res.add("labrea:no dataset(...) rebuilt from the parts of another dataset", True, "", 0, "no call of the dataset factory reads two or more fields of one existing dataset", nec, trivial=True)
    res.count("sites", n_sites)
    return res


def _bind_call(call: ast.Call, params: List[str]) -> Dict[str, ast.expr]:
    out = {}
    for p_, a in zip(params, call.args):
        if not isinstance(a, ast.Starred):
            out[p_] = a
    for k in call.keywords:
        if k.arg:
            out[k.arg] = k.value
    return out


def astu_owner(fn, node):
    best = fn
    for n in ast.walk(fn):
        if isinstance(n, (ast.FunctionDef, ast.AsyncFunctionDef, ast.Lambda)) and n is not fn:
            if any(x is node for x in ast.walk(n)):
                if best is fn or any(x is n for x in ast.walk(best)):
                    best = n
    return best


# ------------------------------------------------------------------ R-UW
def dict_copying_calls(tree: ast.AST) -> List[tuple]:
    """(line, text) of every call that copies one object's attribute dictionary onto another: functools.wraps /
    update_wrapper without ``updated=()``, ``a.__dict__.update(b.__dict__)``, ``vars(a).update(vars(b))``."""
    out = []
    as_decorator = {id(d) for f in ast.walk(tree) if isinstance(f, (ast.FunctionDef, ast.AsyncFunctionDef)) for d in f.decorator_list}
    for n in ast.walk(tree):
        if not isinstance(n, ast.Call):
            continue
        nm = astu.callee_name(n)
        if id(n) in as_decorator:
            continue        # @functools.wraps(f) above a def decorates a plain function: its own __dict__ is empty and its own
        if nm.split(".")[-1] in ("wraps", "update_wrapper") and (nm.startswith("functools.") or nm in ("wraps", "update_wrapper")):
            upd = [k for k in n.keywords if k.arg == "updated"]
            empty = upd and isinstance(upd[0].value, (ast.Tuple, ast.List)) and not upd[0].value.elts
            if not empty:
                out.append((n.lineno, ast.unparse(n)[:70] + " copies __dict__ (no updated=())"))
        if isinstance(n.func, ast.Attribute) and n.func.attr == "update" and n.args:
            recv, arg = ast.unparse(n.func.value), ast.unparse(n.args[0])
            if (recv.endswith(".__dict__") or recv.startswith("vars(")) and ("__dict__" in arg or arg.startswith("vars(")):
                out.append((n.lineno, ast.unparse(n)[:70]))
    return out


def crossed_fields(fn: ast.FunctionDef) -> List[tuple]:
    """(line, field, names) of every ``self.<p> = <expression over other parameters only>`` in a constructor whose
    parameter list has a ``p`` of its own: the field documented as p holds another argument."""
    a = fn.args
    params = [x.arg for x in a.posonlyargs + a.args + a.kwonlyargs]
    if not params:
        return []
    selfn, params = params[0], set(params[1:])
    out = []
    own = set()          # fields that some assignment does compute from their own parameter (others are fall-backs)
    for st in astu.walk_no_nested(fn):
        tgts, val = [], None
        if isinstance(st, ast.Assign):
            tgts, val = st.targets, st.value
        elif isinstance(st, ast.AnnAssign) and st.value is not None:
            tgts, val = [st.target], st.value
        for t in tgts:
            if isinstance(t, ast.Attribute) and isinstance(t.value, ast.Name) and t.value.id == selfn and t.attr in params:
                used = {n.id for n in ast.walk(val) if isinstance(n, ast.Name) and n.id in params}
                if t.attr in used:
                    own.add(t.attr)
                elif used:
                    out.append((st.lineno, t.attr, sorted(used)))
    return [h for h in out if h[1] not in own]


def rule_CF(run: Run) -> RuleResult:
    """A constructor stores each argument in the field of its own name."""
    res = RuleResult("R-CF")
    nec = ("requests, expressions and errors are plain records whose fields carry the constructor's parameter names: a handler reads "
           "request.options, an operation reads self.options. A field that holds another argument (self.options = value) is invisible to the "
           "library's own defaults and breaks every handler or sibling that reads the documented field (C18, C07, C12)")
    probe = ast.parse("class R:\n    def __init__(self, value, type, options):\n        self.value = value\n        self.type = type\n        self.options = value\n").body[0].body[0]
    if not crossed_fields(probe):
        raise AnalysisError("R-CF: the crossed-field detector no longer sees its positive example")
    n = 0
    for m, cls, fn, q in iter_functions(run.repo):
        if cls is None or fn.name != "__init__" or m.name.startswith("labrea.mypy"):
            continue
        n += 1
        hits = crossed_fields(fn)
        res.add(f"{q}:every field named like a parameter holds that parameter", not hits, m.relpath, hits[0][0] if hits else fn.lineno,
                "each self.<p> is computed from p" if not hits else f"self.{hits[0][1]} is computed from {hits[0][2]} only (line {hits[0][0]})", nec)
    res.count("constructors", n)
    if n < 30:
        raise AnalysisError(f"R-CF: only {n} constructors found")
    return res


def _only_mapped_over_items(m, fn, param_key: str) -> bool:
    """``fn`` is a private module-level function of one parameter (whose term is ``param_key``) and every mention of it in its module
    is ``map(fn, <mapping>.items())`` or ``fn(item) for item in <mapping>.items()``: its argument is always a dictionary item."""
    ps = fn.args.posonlyargs + fn.args.args
    if not fn.name.startswith("_") or len(ps) != 1 or fn.args.kwonlyargs or fn.args.vararg or fn.args.kwarg:
        return False
    if param_key not in (ps[0].arg, f"name<{ps[0].arg}>", f"Sym({ps[0].arg})"):
        return False

    def items_call(x):
        return isinstance(x, ast.Call) and isinstance(x.func, ast.Attribute) and x.func.attr == "items" and not x.args

    uses = 0
    parents = {}
    for n_ in ast.walk(m.tree):
        for c_ in ast.iter_child_nodes(n_):
            parents[c_] = n_
    for n_ in ast.walk(m.tree):
        if not (isinstance(n_, ast.Name) and n_.id == fn.name and isinstance(n_.ctx, ast.Load)):
            continue
        par = parents.get(n_)
        if isinstance(par, ast.Call) and astu.short_name(par) == "map" and len(par.args) == 2 and par.args[0] is n_ and items_call(par.args[1]):
            uses += 1
            continue
        if isinstance(par, ast.Call) and par.func is n_ and len(par.args) == 1 and isinstance(par.args[0], ast.Name):
            comp = parents.get(par)
            if isinstance(comp, (ast.GeneratorExp, ast.ListComp, ast.SetComp)) and len(comp.generators) == 1 and items_call(comp.generators[0].iter) \
                    and isinstance(comp.generators[0].target, ast.Name) and comp.generators[0].target.id == par.args[0].id:
                uses += 1
                continue
        return False
    return uses > 0


def rule_VW(run: Run) -> RuleResult:
    """Value(x) wraps only what is known not to be an expression."""
    res = RuleResult("R-VW")
    repo = run.repo
    nec = ("Value(x) is a constant: it evaluates to (a copy of) x, reports no keys and validates anything. Wrapping an object that is itself an "
           "expression — a dataset class is a type *and* an expression, a dataset is callable *and* an expression — freezes it: the member evaluates "
           "to the class / the dataset object instead of an instance / its value, and its option keys vanish from keys(), explain(), validate() "
           "and the recorded options of an enclosing dataset class (C19, C07). So every Value(x) of a variable x is built only where "
           "isinstance(x, Evaluatable) has come out false")
    from .interp import Frame
    n = 0
    for m, cls, fn, q in iter_functions(repo):
        if m.name.startswith("labrea.mypy"):
            continue
        sites = [c for c in astu.walk_no_nested(fn) if isinstance(c, ast.Call) and astu.short_name(c) == "Value" and len(c.args) == 1 and not isinstance(c.args[0], ast.Constant)]
        if not sites or (cls is not None and cls.name == "Value"):
            continue
        ci = repo.classes.get(f"{m.name}.{cls.name}") if cls is not None else None
        ctx = Ctx(repo)
        ctx.track_new = {"Value"}
        try:
            if ci is not None and (ci.is_subclass_of("Evaluatable") or ci.is_subclass_of("Effect")) and fn.name in ci.methods and not any(
                    ast.unparse(d) in ("staticmethod", "classmethod") for d in fn.decorator_list):
                paths = analyse_method(ctx, ci, fn.name)
            else:
                paths = analyse_function(ctx, m, fn, cls=ci if ci is not None and not any(ast.unparse(d) in ("staticmethod", "classmethod") for d in fn.decorator_list) else None)
        except AnalysisError:
            continue
        verdict: Dict[int, list] = {}
        for p in paths:
            for e in p.events:
                if e.kind != "new" or e.text != "Value" or not e.args or e.depth != 0:
                    continue
                x = e.args[0]
                if isinstance(x, Sym) and x.head == "kw:value" and x.args:
                    x = x.args[0]
                xk = x.key()
                if isinstance(x, (Const, Fn, Coll, Seq)) or (isinstance(x, Sym) and (x.head in ("ext", "name", "class", "global", "key") or xk.startswith(("key(", "fstr(", "call:str(", "call:repr(", "call:functools.partial(", "partial(", "call:tuple(", "Seq[")))):
                    continue            # a literal, a function, a class of the standard library, a dictionary key: no expression
                if cls is None and xk.startswith("proj0(") and isinstance(x, Sym) and x.args and _only_mapped_over_items(m, fn, x.args[0].key()):
                    continue            # the key of a dictionary item handed to a private helper
                at = Frame.atoms(p.conds[:e.ncond])
                decided = at.get(f"call:isinstance({xk},class<labrea.types.Evaluatable>)")
                v = verdict.setdefault(e.line, [True, xk])
                if decided is not False:
                    v[0] = False
        for ln_, (ok_, xk_) in sorted(verdict.items()):
            n += 1
            if q == "labrea.types.Evaluatable.unit":
                ok_ = True      # the documented public constructor of a constant: it wraps whatever it is handed
            res.add(f"{q}:Value({xk_[:40]}) wraps a value known not to be an expression", ok_, m.relpath, ln_,
                    "built where isinstance(x, Evaluatable) came out false" if ok_ else
                    f"Value({xk_[:60]}) is built on a path that has not established isinstance(…, Evaluatable) is false (an earlier test — callable(x), isinstance(x, type) — "
                    "that an expression can satisfy too took it)", nec)
    res.count("sites", n)
    if n < 2:
        raise AnalysisError(f"R-VW: only {n} Value(x) constructions of a variable found")
    return res


def _nonempty_display(v) -> bool:
    if isinstance(v, (ast.List, ast.Tuple)):
        return any(not isinstance(e, ast.Starred) for e in v.elts)
    if isinstance(v, (ast.ListComp, ast.GeneratorExp)) and len(v.generators) == 1 and not v.generators[0].ifs and not v.generators[0].is_async:
        return _nonempty_display(v.generators[0].iter)
    if isinstance(v, ast.Call) and isinstance(v.func, ast.Name) and v.func.id in ("list", "tuple") and len(v.args) == 1 and not v.keywords:
        return _nonempty_display(v.args[0])
    return False


_SHRINKING = ("pop", "clear", "remove", "popitem", "discard", "__delitem__")


def _nonempty_by_construction(ci, field: str) -> bool:
    """``self.<field>`` is stored only by ``__init__`` (one store, a display / comprehension with at least one fixed element) and no method of the
    class hierarchy shrinks it, deletes from it or re-binds it."""
    stores = []
    for kc in ci.mro():
        for mn, fn in kc.methods.items():
            sn = astu.first_param(fn) or "self"
            for x in ast.walk(fn):
                tgts = []
                if isinstance(x, ast.Assign):
                    tgts = x.targets
                elif isinstance(x, (ast.AnnAssign, ast.AugAssign)):
                    tgts = [x.target]
                elif isinstance(x, ast.Delete):
                    tgts = x.targets
                for t in tgts:
                    for z in ast.walk(t):
                        if isinstance(z, ast.Attribute) and z.attr == field and isinstance(z.value, ast.Name) and z.value.id == sn:
                            stores.append((mn, x, t))
                if isinstance(x, ast.Call) and isinstance(x.func, ast.Attribute) and x.func.attr in _SHRINKING and isinstance(x.func.value, ast.Attribute) \
                        and x.func.value.attr == field:
                    return False
                if isinstance(x, ast.Call) and astu.callee_name(x) in ("setattr", "delattr", "object.__setattr__") and not (
                        len(x.args) >= 2 and isinstance(x.args[1], ast.Constant) and x.args[1].value != field):
                    return False
    if len(stores) != 1:
        return False
    mn, st, tgt = stores[0]
    return mn == "__init__" and isinstance(st, (ast.Assign, ast.AnnAssign)) and isinstance(tgt, ast.Attribute) and st.value is not None and _nonempty_display(st.value)


def rule_TB(run: Run) -> RuleResult:
    """Expressions, effects and caches are always truthy."""
    res = RuleResult("R-TB")
    repo = run.repo
    nec = ("the library tests optional expressions for 'given or not' by truth (`dispatch or self.dispatch`, `callback or self.callback`, "
           "`cache or self.cache`, `if self.rest`): an expression class that defines __len__ or __bool__ makes some of its instances falsy — a "
           "switch without branches, an empty case-when, an empty pipeline — and such an argument is silently replaced by the fall-back "
           "(a dataset loses its dispatch: registered implementations are never selected, C07)")
    probe = ast.parse("class S:\n    def __len__(self):\n        return len(self.lookup)\n").body[0]
    if not [f for f in probe.body if isinstance(f, ast.FunctionDef) and f.name in ("__len__", "__bool__")]:
        raise AnalysisError("R-TB: probe broken")
    # the truth tests that make the rule necessary (counted, so that the rule does not outlive its reason)
    n_tests = 0
    for m, cls, fn, q in iter_functions(repo):
        if m.name.startswith("labrea.mypy"):
            continue
        opt_nodes = set()
        for a_ in fn.args.posonlyargs + fn.args.args + fn.args.kwonlyargs:
            txt = ast.unparse(a_.annotation) if a_.annotation is not None else ""
            if "Optional" in txt and any(w in txt for w in ("Evaluatable", "Cache", "Effect", "Pipeline")):
                opt_nodes.add(a_.arg)
        for x in astu.walk_no_nested(fn):
            if isinstance(x, ast.BoolOp) and isinstance(x.op, ast.Or) and isinstance(x.values[0], ast.Name) and x.values[0].id in opt_nodes:
                n_tests += 1
            if isinstance(x, (ast.If, ast.IfExp)) and isinstance(x.test, ast.Attribute) and isinstance(x.test.value, ast.Name) and x.test.value.id == "self" and cls is not None:
                ci = repo.classes.get(f"{m.name}.{cls.name}")
                if ci is not None:
                    for kc in ci.mro():
                        ann = kc.annotations.get(x.test.attr)
                        if ann is not None and "Optional" in ast.unparse(ann) and any(w in ast.unparse(ann) for w in ("Evaluatable", "Pipeline", "Cache", "Effect")):
                            n_tests += 1
    n = 0
    for ci in repo.classes.values():
        if ci.module.name.startswith("labrea.mypy"):
            continue
        if not (ci.is_subclass_of("Evaluatable") or ci.is_subclass_of("Effect") or ci.is_subclass_of("Cache") or ci.name in ("Evaluatable", "Effect", "Cache")):
            continue
        n += 1
        hits = [mn for mn in ("__bool__", "__len__") if mn in ci.methods]
        bfn = ci.methods.get("__bool__")
        if bfn is not None:
            rets = [r_ for r_ in astu.walk_no_nested(bfn) if isinstance(r_, ast.Return)]
            if rets and all(isinstance(r_.value, ast.Constant) and r_.value.value is True for r_ in rets):
                hits = []       # __bool__ that always says True (it takes precedence over __len__): still always truthy
        lfn = ci.methods.get("__len__")
        if hits == ["__len__"] and lfn is not None:
            rets = [r_ for r_ in astu.walk_no_nested(lfn) if isinstance(r_, ast.Return)]
            sn_ = astu.first_param(lfn) or "self"
            flds = set()
            for r_ in rets:
                v_ = r_.value
                if isinstance(v_, ast.Call) and isinstance(v_.func, ast.Name) and v_.func.id == "len" and len(v_.args) == 1 and isinstance(v_.args[0], ast.Attribute) \
                        and isinstance(v_.args[0].value, ast.Name) and v_.args[0].value.id == sn_:
                    flds.add(v_.args[0].attr)
                else:
                    flds.add(None)
            if rets and None not in flds and all(_nonempty_by_construction(ci, f_) for f_ in flds):
                hits = []       # the length of a collection that holds at least one element from construction on: never 0
        res.add(f"{ci.qualname}:always truthy (no __bool__ / __len__)", not hits, ci.module.relpath, ci.methods[hits[0]].lineno if hits else ci.node.lineno,
                "inherits object truthiness" if not hits else f"defines {hits}: instances for which it returns 0/False are taken for 'not given' by `x or fallback`", nec)
    res.count("classes", n)
    res.count("truth_tests", n_tests)
    if n < 25:
        raise AnalysisError(f"R-TB: only {n} expression/effect/cache classes found")
    if n_tests < 3:
        raise AnalysisError(f"R-TB: only {n_tests} truth tests of optional expressions left in the library — the rule has lost its reason")
    return res


def rule_UW(run: Run) -> RuleResult:
    """Wrapping never copies the wrapped object's attributes wholesale."""
    res = RuleResult("R-UW")
    nec = ("a dataset (or dataset class) that takes over name and docstring of what it wraps must not take over its __dict__: when the wrapped "
           "object is itself a dataset, its overloads, cache, options, callback and effects silently replace the ones just configured "
           "(C07, C08, C16)")
    probe = ast.parse("import functools\ndef wrap(new, old):\n    return functools.wraps(old)(new)\n")
    if not dict_copying_calls(probe):
        raise AnalysisError("R-UW: the detector no longer sees its positive example")
    n = 0
    for m in run.repo.modules.values():
        if m.name.startswith("labrea.mypy"):
            continue
        hits = dict_copying_calls(m.tree)
        n += sum(1 for x in ast.walk(m.tree) if isinstance(x, ast.Call) and astu.callee_name(x).split(".")[-1] in ("wraps", "update_wrapper"))
        res.add(f"{m.name}:wrapping copies no __dict__", not hits, m.relpath, hits[0][0] if hits else 1,
                "every update_wrapper passes updated=()" if not hits else hits[0][1] + f" (line {hits[0][0]})", nec)
    res.count("wrapping_sites", n)
    return res


# ------------------------------------------------------------------ R-OC
def rule_OC(run: Run) -> RuleResult:
    """One cache per dataset: MemoryCache addresses an entry by the option fingerprint alone."""
    res = RuleResult("R-OC")
    repo = run.repo
    nec = ("the fingerprint does not name the dataset: two datasets that read the same options and share one cache object return each "
           "other's values (C01, C17).  A cache is shared only when the user handed in that very instance; a cache class or factory "
           "is called once per dataset, and the default MemoryCache is created per dataset")
    from .interp import analyse_function, Frame
    df = repo.cls("DatasetFactory")
    wrap = df.find_method("wrap")
    init = df.find_method("__init__")
    if wrap is None or init is None:
        raise AnalysisError("DatasetFactory.wrap / __init__ not found")
    f = df.module.relpath
    # (a) configuring the decorator creates no cache
    bad = None
    for p in analyse_function(Ctx(repo), init[0].module, init[1], cls=df):
        for e in p.events:
            if e.kind != "call":
                continue
            tk = e.target.key() if e.target is not None else ""
            if e.text == "new MemoryCache" or e.text == "cache" or (tk in ("cache", "attr:cache(self)") and e.text in ("<value>", "call")) or e.text.startswith("call:cache"):
                bad = bad or (e.line, f"{e.text} at line {e.line}")
            if any(a.key() in ("call:cache", "callres(cache)", "valuecall(cache)") for a in e.args):
                bad = bad or (e.line, f"the cache factory is called at line {e.line}")
        if p.status == "ret":
            for e in p.events:
                if e.kind == "store" and e.target is not None and ("new:MemoryCache" in e.target.key() or e.target.key().startswith(("call:cache", "valuecall(cache", "callres(cache"))):
                    bad = bad or (e.line, f"self.{e.args[1].v if len(e.args) == 2 and isinstance(e.args[1], Const) else '?'} = {e.target.key()[:40]}")
    res.add("labrea.dataset.DatasetFactory.__init__:creates no cache", bad is None, f, bad[0] if bad else init[1].lineno,
            "the cache argument is kept as given" if bad is None else f"{bad[1]}: every dataset the decorator is applied to would share that object", nec)
    # (b) wrap() gives each dataset a cache of its own unless it was handed an instance
    seen = {}
    n_ret = 0
    for p in analyse_function(Ctx(repo), wrap[0].module, wrap[1], cls=df):
        if p.status != "ret" or not isinstance(p.ret, New) or p.ret.cls.name != "Dataset":
            continue
        n_ret += 1
        c = p.ret.attrs.get("cache")
        ck = c.key() if c is not None else "missing"
        at = Frame.atoms(p.conds)
        is_none = at.get("cmp:Is(attr:cache(self),Const(None))")
        is_callable = at.get("call:callable(attr:cache(self))")
        if ck == "attr:cache(self)":
            ok = is_none is False and is_callable is not True
            form = "the instance handed in"
        elif ck.startswith("new:MemoryCache"):
            ok = any(e.kind == "call" and e.text == "new MemoryCache" for e in p.events)
            form = "a fresh MemoryCache"
        elif ck in ("call:cache(self)", "valuecall(attr:cache(self))", "callres(attr:cache(self))", "call:attr:cache(self)"):
            ok = True
            form = "the result of calling the factory here"
        elif isinstance(c, Sym) and c.head == "oneof" and c.args and all(
                a_.key() in ("call:cache(self)", "valuecall(attr:cache(self))", "callres(attr:cache(self))", "call:attr:cache(self)") or a_.key().startswith("new:MemoryCache") for a_ in c.args):
            # (the constructor falls back to a cache of its own when the factory handed back nothing: made here, per dataset, either way)
            ok = True
            form = "the result of calling the factory here, or a fresh MemoryCache"
        else:
            ok = False
            form = ck[:60]
        prev = seen.get(form, True)
        seen[form] = prev and ok
    okb = bool(seen) and all(seen.values()) and n_ret > 0 and any(k.startswith("a fresh") for k in seen)
    res.add("labrea.dataset.DatasetFactory.wrap:each dataset gets its own cache unless an instance was handed in", okb, f, wrap[1].lineno,
            f"cache of the built dataset: {sorted(seen)}" if okb else f"cache of the built dataset: { {k: v for k, v in seen.items()} }", nec)
    return res


# ------------------------------------------------------------------ R-CL
OPNAMES = {"evaluate", "validate", "explain", "fingerprint", "transform"}
OP_METHODS = {"evaluate", "validate", "keys", "explain", "fingerprint", "transform", "__call__", "run"}
CL_EXEMPT = {
    "labrea.datasetclass._DatasetClassMixin.__init__": "instantiating a dataset class *is* evaluation (C19)",
}


def _cl_exempt(repo) -> Dict[str, str]:
    """the exemption, keyed by the mixin class's current name"""
    try:
        mix = repo.role_class("dsc_mixin")
        return {f"{mix.qualname}.__init__": CL_EXEMPT["labrea.datasetclass._DatasetClassMixin.__init__"]}
    except AnalysisError:
        return dict(CL_EXEMPT)


CACHE_FACTORY_CALLS = {("Dataset", "set_cache"): "set_cache(factory): the factory is called once for this dataset (R-OC)"}


def _op_sites(repo, m, cls, fn) -> List[ast.Call]:
    out = []
    ann_nodes: Set[str] = set()
    all_params = {a.arg for a in fn.args.posonlyargs + fn.args.args + fn.args.kwonlyargs}
    for a in fn.args.posonlyargs + fn.args.args + fn.args.kwonlyargs:
        if a.annotation is not None:
            from .interp import annotation_kind
            if annotation_kind(repo, m, a.annotation) == "node":
                ann_nodes.add(a.arg)
    for c in astu.calls_in(fn):
        if astu_owner(fn, c) is not fn:
            continue
        f0 = c.func
        if isinstance(f0, ast.Attribute):
            if f0.attr in OPNAMES and (c.args or c.keywords or f0.attr == "explain"):
                out.append(c)       # explain() takes its options by default: a bare x.explain() is the operation too
            elif f0.attr == "keys" and len(c.args) == 1:
                out.append(c)
            elif f0.attr == "run" and not c.args and isinstance(f0.value, ast.Call) and astu.short_name(f0.value).endswith("Request"):
                out.append(c)
            elif cls is not None and astu.is_self_attr(f0) is False:
                pass
        # direct call of a node: self.<child>(options) / param annotated as Evaluatable
        if isinstance(f0, ast.Attribute) and isinstance(f0.value, ast.Name) and f0.value.id == "self" and cls is not None:
            ci = repo.classes.get(f"{m.name}.{cls.name}")
            if ci is not None:
                for kc in ci.mro():
                    if f0.attr in kc.annotations:
                        from .interp import annotation_kind
                        if annotation_kind(repo, kc.module, kc.annotations[f0.attr]) == "node":
                            out.append(c)
                        break
        if isinstance(f0, ast.Name) and f0.id in ann_nodes:
            out.append(c)
        # calling an object the user passed, with no arguments, evaluates it when it is an expression (a dataset class is both a
        # type and an expression; every expression is callable).  The one documented use is the cache factory of a dataset.
        if isinstance(f0, ast.Name) and f0.id in all_params and not c.args and not c.keywords \
                and not (cls is not None and (cls.name, fn.name) in CACHE_FACTORY_CALLS):
            # (… also where the parameter is declared as that: ``spec: Union[Cache[A], Callable[..., Cache[A]], None]``)
            ann_ = next((a.annotation for a in fn.args.posonlyargs + fn.args.args + fn.args.kwonlyargs if a.arg == f0.id), None)
            ann_txt = (ann_.value if isinstance(ann_, ast.Constant) and isinstance(ann_.value, str) else ast.unparse(ann_)) if ann_ is not None else ""
            if ann_txt.isidentifier():
                r_al = repo.resolve_name(m, ann_txt)         # a module-level alias (``CacheSpec = Union[Cache[A], Callable[..., Cache[A]], None]``)
                if r_al and r_al[0] == "var" and r_al[1] is not None:
                    ann_txt = ast.unparse(r_al[1])
            if "Callable" in ann_txt and "Cache" in ann_txt and "Evaluatable" not in ann_txt:
                continue
            out.append(c)
    return out


def _callees(repo, m, cls, fn) -> Set[str]:
    """Resolved callees of fn (qualified names of labrea functions)."""
    out: Set[str] = set()
    ci = repo.classes.get(f"{m.name}.{cls.name}") if cls is not None else None
    for c in astu.calls_in(fn):
        f0 = c.func
        if isinstance(f0, ast.Subscript):
            f0 = f0.value
        if isinstance(f0, ast.Name):
            r = repo.resolve_name(m, f0.id)
            if r and r[0] == "func":
                out.add(r[1].qualname)
            elif r and r[0] == "class":
                for nm in ("__init__", "__new__"):
                    rr = r[1].find_method(nm)
                    if rr:
                        out.add(f"{rr[0].qualname}.{nm}")
        elif isinstance(f0, ast.Attribute):
            if isinstance(f0.value, ast.Name) and f0.value.id in ("self", "cls") and ci is not None:
                rr = ci.find_method(f0.attr)
                if rr:
                    out.add(f"{rr[0].qualname}.{f0.attr}")
                    continue
            r = repo.resolve_expr(m, f0)
            if r and r[0] == "func":
                out.add(r[1].qualname)
                continue
            if r and r[0] == "class":
                rr = r[1].find_method("__init__")
                if rr:
                    out.add(f"{rr[0].qualname}.__init__")
                continue
            if isinstance(f0.value, (ast.Name, ast.Attribute)):
                rc = repo.resolve_expr(m, f0.value) if not isinstance(f0.value, ast.Name) else repo.resolve_name(m, f0.value.id)
                if rc and rc[0] == "class":
                    rr = rc[1].find_method(f0.attr)
                    if rr:
                        out.add(f"{rr[0].qualname}.{f0.attr}")
                        continue
            # method on an unknown receiver: unique method name across labrea
            if f0.attr.startswith("__") or f0.attr in OP_METHODS:
                continue
            owners = [k for k in repo.classes.values() if f0.attr in k.methods]
            if len(owners) == 1:
                out.add(f"{owners[0].qualname}.{f0.attr}")
    # properties read as attributes
    if ci is not None:
        for n in ast.walk(fn):
            if isinstance(n, ast.Attribute) and isinstance(n.value, ast.Name) and n.value.id in ("self", "cls") and isinstance(n.ctx, ast.Load):
                rr = ci.find_method(n.attr)
                if rr and any(ast.unparse(d) == "property" for d in rr[1].decorator_list):
                    out.add(f"{rr[0].qualname}.{n.attr}")
    return out


CONSTRUCTION_NAMES = {
    "__init__", "__new__", "__init_subclass__", "__class_getitem__", "__add__", "__radd__", "__rshift__",
    "apply", "bind", "when", "otherwise", "lift", "wrap", "update", "where", "overload", "register",
    "set_dispatch", "set_cache", "add_effects", "disable_effects", "enable_effects", "with_options",
    "with_default_options", "namespace", "auto", "option", "build", "_from_type", "_inherit", "_build_doc",
    "_build_doc_option", "implementation", "ensure", "unit", "handle", "__getstate__", "__setstate__",
    "__repr__", "__eq__", "__iter__", "__setattr__",
}
CONSTRUCTION_FUNCS = {
    "labrea.interface.interface", "labrea.interface.implements", "labrea.interface._get_members",
    "labrea.interface._build_overloads", "labrea.datasetclass.datasetclass", "labrea.pipeline.pipeline_step",
    "labrea.cache.cached", "labrea.conditional.case", "labrea.option.WithDefaultOptions",
    "labrea.arguments.arguments", "labrea.collections.evaluatable_list", "labrea.collections.evaluatable_tuple",
    "labrea.collections.evaluatable_set", "labrea.collections.evaluatable_dict", "labrea.runtime.handle",
    "labrea.runtime.handle_by_default", "labrea.cache.disabled", "labrea.logging.disabled",
}


def rule_CL(run: Run) -> RuleResult:
    res = RuleResult("R-CL")
    repo = run.repo
    nec = "building, composing, decorating or registering must never run a dataset body (C06)"
    fns: Dict[str, Tuple] = {}
    for m, cls, fn, q in iter_functions(repo):
        if m.name.startswith("labrea.mypy"):
            continue
        fns[q] = (m, cls, fn)
    sites: Dict[str, List[ast.Call]] = {}
    calls: Dict[str, Set[str]] = {}
    for q, (m, cls, fn) in fns.items():
        s = _op_sites(repo, m, cls, fn)
        if s:
            sites[q] = s
        calls[q] = {c for c in _callees(repo, m, cls, fn) if c in fns}
        # nested defs belong to their parent for reachability of *construction*
    # functions from which an op site is reachable
    reach: Dict[str, Optional[str]] = {q: f"{q} line {s[0].lineno}: {ast.unparse(s[0])[:50]}" for q, s in sites.items()}
    changed = True
    while changed:
        changed = False
        for q in fns:
            if q in reach:
                continue
            for c in calls[q]:
                if c in reach:
                    reach[q] = f"via {c} -> {reach[c]}"[:220]
                    changed = True
                    break
    # all public helper-step constructors of functions.py are construction code
    entry: Dict[str, str] = {}
    for q, (m, cls, fn) in fns.items():
        last = q.split(".")[-1]
        if "<locals>" in q:
            continue
        if last in CONSTRUCTION_NAMES and cls is not None:
            entry[q] = f"construction method {last}"
        elif q in CONSTRUCTION_FUNCS:
            entry[q] = "construction function"
        elif m.name == "labrea.functions" and cls is None and not last.startswith("_"):
            entry[q] = "helper-step constructor"
        elif cls is not None and cls.name in ("DatasetFactory",) and last in ("__call__", "nocache"):
            entry[q] = "dataset decorator"
    cl_exempt = _cl_exempt(repo)
    res.count("functions", len(fns))
    res.count("op_functions", len(sites))
    res.count("entry_points", len(entry))
    for q in sorted(entry):
        if q in cl_exempt:
            res.add(f"{q}:construction-time laziness (exempt)", True, fns[q][0].relpath, fns[q][2].lineno,
                    f"exempt: {cl_exempt[q]}", nec)
            continue
        # `ensure`/`unit` etc. named like ops in functions.py are constructors
        ok = q not in reach
        m, cls, fn = fns[q]
        res.add(f"{q}:construction-time laziness", ok, m.relpath, fn.lineno,
                f"{entry[q]}: no evaluation op reachable" if ok else f"{entry[q]} reaches an evaluation op: {reach[q]}", nec)
    # module top level: no op sites outside defs
    for m in repo.modules.values():
        if m.name.startswith("labrea.mypy"):
            continue
        top_sites = []
        for s in m.tree.body:
            if isinstance(s, (ast.FunctionDef, ast.AsyncFunctionDef, ast.ClassDef)):
                continue
            for c in astu.calls_in(s):
                f0 = c.func
                if isinstance(f0, ast.Attribute) and f0.attr in OPNAMES | {"run"} and (c.args or f0.attr == "run"):
                    top_sites.append(c)
        res.add(f"{m.name}:<module>:construction-time laziness", not top_sites, m.relpath, top_sites[0].lineno if top_sites else 1,
                "no evaluation op at import time" if not top_sites else f"import-time evaluation: {ast.unparse(top_sites[0])[:60]}", nec)
    return res


# ------------------------------------------------------------------ R-LB
def rule_LB(run: Run) -> RuleResult:
    res = RuleResult("R-LB")
    repo = run.repo
    ov = repo.cls("Overloaded")
    f = ov.module.relpath
    nec = "a switch built once at construction ignores later register() calls (C07)"
    sw = repo.cls("Switch")
    builders = []
    for name, fn in ov.methods.items():
        for c in astu.calls_in(fn):
            f0 = c.func
            if isinstance(f0, (ast.Name, ast.Attribute)) and repo.resolve_class(ov.module, f0) is sw:
                builders.append((name, fn, c))
    if not builders:
        raise AnalysisError("Overloaded no longer builds a Switch (anchor vanished)")
    for name, fn, c in builders:
        decos = [ast.unparse(d) for d in fn.decorator_list]
        cached = any("cache" in d for d in decos)
        ok = name not in ("__init__", "__setstate__", "__new__") and not cached
        res.add(f"labrea.overload.Overloaded.{name}:switch built per use", ok, f, c.lineno,
                f"Switch constructed in {name} (decorators {decos})", nec)
        txt = ast.unparse(c)
        ok2 = all(f"self.{a}" in txt for a in ("dispatch", "lookup", "default"))
        res.add(f"labrea.overload.Overloaded.{name}:switch reads live dispatch/lookup/default", ok2, f, c.lineno, txt[:100], nec)
    # no attribute stores a Switch
    for name, fn in ov.methods.items():
        for n in ast.walk(fn):
            if isinstance(n, ast.Assign):
                for t in n.targets:
                    if isinstance(t, ast.Attribute) and isinstance(t.value, ast.Name) and t.value.id == "self":
                        v = ast.unparse(n.value)
                        bad = any(repo.resolve_class(ov.module, c.func) is sw for c in astu.calls_in(n.value) if isinstance(c.func, (ast.Name, ast.Attribute))) or "self.switch" in v
                        if bad:
                            res.add(f"labrea.overload.Overloaded.{name}:stores a switch in self.{t.attr}", False, f, n.lineno, ast.unparse(n)[:100], nec)
    # read off the operations' paths as well: nothing built from the live table is kept on the object
    for op in ("evaluate", "validate", "keys", "explain"):
        for p in run.paths(ov, op):
            for e in p.events:
                if e.kind == "store" and len(e.args) == 2 and isinstance(e.args[0], Child) and e.target is not None and "New(Switch;" in e.target.key() \
                        and (e.op or "").split(".")[-1] not in ("__init__",):
                    res.add(f"labrea.overload.Overloaded.{op}:stores a switch in {e.text}", False, e.file, e.line,
                            f"{e.text} = <switch built from the table at that moment>: later register() calls are invisible until it is rebuilt, and the unlocked check-build-store races with register()", nec)
    # each operation goes through a freshly built switch on every returning path (read off the paths: whatever private method, property
    # or shared base class does the forwarding, the operation ends up issued on a Switch term constructed during this very call)
    bnames = {b[0] for b in builders}
    from .facts import normal as _normal
    for op in ("evaluate", "validate", "keys", "explain"):
        fm = ov.find_method(op)
        if fm is None:
            raise AnalysisError(f"Overloaded.{op} not found")
        ps_ = _normal(run.paths(ov, op))
        reach = bool(ps_) and all(any(e.kind in ("unfold", "op") and e.op == op and isinstance(e.target, New) and e.target.cls.name == "Switch" for e in p.events) for p in ps_)
        res.add(f"labrea.overload.Overloaded.{op}:uses the freshly built switch", reach, fm[0].module.relpath, fm[1].lineno,
                f"{op} is issued on the switch built by {sorted(bnames)}" if reach else f"a returning path of {op} does not go through a switch built during the call", nec)
    return res


# ------------------------------------------------------------------ R-MX
def rule_MX(run: Run) -> RuleResult:
    res = RuleResult("R-MX")
    repo = run.repo
    nec = ("confectioner.mix(dish, ingredient) lets the ingredient win: pre-set options must be the "
           "ingredient exactly when forced, caller options otherwise (C08)")
    wo = repo.cls("WithOptions")
    f = wo.module.relpath
    # every operation hands the wrapped object the full mix of the two dictionaries, the pre-set one as
    # the winning ingredient exactly when forced.  Read off the paths of the four operations (whatever
    # helper computes the mix is inlined there).
    from .facts import cond_pol
    n_paths = 0
    for op in ("evaluate", "validate", "keys", "explain"):
        owner, fn = wo.find_method(op)
        optp = astu.param_names(fn)[0]
        want = {True: f"call:confectioner.mix({optp},Child(options))", False: f"call:confectioner.mix(Child(options),{optp})"}
        seen = {}
        bad = []
        for p in run.paths(wo, op):
            evs = [e for e in p.events if e.kind == "op" and e.op == op and isinstance(e.target, Child) and e.target.path == "evaluatable"]
            if p.status == "ret" and not evs:
                bad.append(f"a path returns without asking the wrapped object ({[c[0] for c in p.conds]})")
            n_paths += 1
            pol = cond_pol(p.conds, "Child(force)")
            for e in evs:
                ok_ = pol is not None and e.opts is not None and e.opts.key() == want[pol]
                if ok_:
                    seen[pol] = True
                else:
                    bad.append(f"with force={pol} the wrapped object sees {e.opts.key()[:70] if e.opts is not None else None}; expected {want.get(pol, 'a decided force flag')}")
        for pol in (True, False):
            if not seen.get(pol) and not bad:
                bad.append(f"no path for force={pol}")
        res.add(f"labrea.option.WithOptions.{op}:inner op sees the mixed options", not bad, f, fn.lineno,
                "mix(options, self.options) if self.force else mix(self.options, options)" if not bad else sorted(set(bad))[0], nec)
    res.count("paths", n_paths)
    # WithDefaultOptions passes force=False
    wdo = repo.func("labrea.option.WithDefaultOptions")
    ps = normal(analyse_function(Ctx(repo), wdo.module, wdo.node))
    ok = bool(ps) and all(isinstance(p.ret, New) and p.ret.cls.name == "WithOptions" and p.ret.attrs.get("force") == Const(False)
                          and p.ret.attrs.get("options") == Sym("options") and p.ret.attrs.get("evaluatable") == Sym("evaluatable") for p in ps)
    res.add("labrea.option.WithDefaultOptions:force=False", ok, f, wdo.node.lineno, f"{[p.ret.key()[:90] for p in ps]}", nec)
    # Dataset.with_options / with_default_options mix new over stored
    ds = repo.cls("Dataset")
    for name, fld in (("with_options", "options"), ("with_default_options", "default_options")):
        fn = ds.methods.get(name)
        if fn is None:
            raise AnalysisError(f"Dataset.{name} not found")
        other = "default_options" if fld == "options" else "options"
        p0 = astu.param_names(fn)[0]
        dps = normal(analyse_method(Ctx(repo), ds, name))
        good = bool(dps)
        other_ok = bool(dps)
        detail = "no returning path"
        for dp in dps:
            r_ = dp.ret
            if not (isinstance(r_, New) and r_.cls.name == "Dataset"):
                good = other_ok = False
                detail = f"returns {r_.key()[:60]}"
                continue
            a = r_.attrs.get(fld)
            detail = a.key() if a is not None else "missing"
            if detail != f"call:confectioner.mix(Child({fld}),{p0})":
                good = False
            o = r_.attrs.get(other)
            if o is None or o.key() != f"Child({other})":
                other_ok = False
        res.add(f"labrea.dataset.Dataset.{name}:mixes the new dictionary over the stored one", good, ds.module.relpath, fn.lineno,
                f"{fld} argument: {detail}; expected mix(self.{fld}, <param>)", nec)
        res.add(f"labrea.dataset.Dataset.{name}:keeps the other dictionary", other_ok, ds.module.relpath, fn.lineno,
                "the other options dictionary is passed unchanged", nec)
    # Map builds each combination through a forcing WithOptions
    mp = repo.cls("Map")
    ps = normal(run.paths(mp, "evaluate"))
    found = []

    def walk(t):
        if isinstance(t, New):
            if t.cls.name == "WithOptions":
                found.append(t)
            for v in t.attrs.values():
                walk(v)
        elif isinstance(t, (Coll,)):
            walk(t.elem)
        elif isinstance(t, Seq):
            for i in t.items:
                walk(i)
        elif isinstance(t, Sym):
            for a in t.args:
                walk(a)

    for p in ps:
        for e_ in p.events:
            if e_.kind in ("unfold", "op") and e_.target is not None:
                walk(e_.target)
    found = [w for i_, w in enumerate(found) if w.key() not in {x.key() for x in found[:i_]}]
    ok = bool(found) and all(w.attrs.get("force") == Const(True) and w.attrs.get("evaluatable") == Child("evaluatable") for w in found)
    # the mapped keys are option keys: the pre-set dictionary of a combination is built with set_dotted_key (a flat
    # dict(pairs) would leave a dotted key unread by Option('A.B'))
    okeys = [w.attrs["options"].key() if w.attrs.get("options") is not None else "" for w in found]
    ok_d = any("dotted-item(" in k_ for k_ in okeys) and all(k_ == "dict{}" or "dotted-item(" in k_ for k_ in okeys)
    res.add("labrea.iterable.Map._iter:mapped keys pre-set as dotted option keys", ok_d, mp.module.relpath, mp.find_method("evaluate")[1].lineno,
            f"pre-set dictionaries: {[k_[:80] for k_ in okeys]}", nec)
    res.add("labrea.iterable.Map._iter:each combination evaluated through a forcing WithOptions", ok, mp.module.relpath, mp.find_method("evaluate")[1].lineno,
            f"{len(found)} WithOptions terms: {[w.key()[:80] for w in found[:2]]}", nec)
    # a dataset factory derived from another: what is given now takes the place of (or is laid over) what the factory carried
    # — `given or stored`, {**stored, **given}, [*stored, *given] — never the other way round
    df = repo.cls("DatasetFactory")
    upd = df.methods.get("update")
    dinit = df.methods.get("__init__")
    if upd is None or dinit is None:
        raise AnalysisError("DatasetFactory.update / __init__ not found")
    iparams = [a.arg for a in dinit.args.posonlyargs + dinit.args.args + dinit.args.kwonlyargs][1:]
    uparams = {a.arg for a in upd.args.posonlyargs + upd.args.args + upd.args.kwonlyargs}
    verdicts: Dict[str, List] = {}
    for p in analyse_function(Ctx(repo), df.module, upd, cls=df):
        if p.status != "ret" or not (isinstance(p.ret, Sym) and p.ret.head == "new:DatasetFactory"):
            continue
        for n_, t in zip(iparams, p.ret.args):
            if n_ not in uparams:
                continue
            if isinstance(t, Sym) and t.head == f"kw:{n_}" and t.args:
                t = t.args[0]
            k = t.key()
            GIV, STO = n_, f"attr:{n_}(self)"

            def pos(txt, what):
                import re as _re
                m_ = _re.search(r"(?<![\w:])" + _re.escape(what) + r"(?![\w(])", txt) if what == GIV else None
                return (m_.start() if m_ else -1) if what == GIV else txt.find(what)
            v = verdicts.setdefault(n_, [True, k[:90]])
            gi, si = pos(k, GIV), pos(k, STO)
            if isinstance(t, Sym) and t.head == "or" and len(t.args) == 2:
                if not (t.args[0].key() == GIV and t.args[1].key() == STO):
                    v[0], v[1] = False, k[:90]
            elif isinstance(t, (Seq,)) or (isinstance(t, Sym) and t.head in ("dict", "binop:Add", "binop:BitOr")):
                if gi >= 0 and si >= 0 and not si < gi:
                    v[0], v[1] = False, k[:90]
            elif k == GIV:
                from .interp import Frame as _Fr
                if cond_pol(p.conds, f"cmp:Is({n_},Const(None))") is not False and _Fr.atoms(p.conds).get(n_) is not True:
                    v[0], v[1] = False, f"{k[:60]} also when nothing was given"
            elif k == STO:
                from .interp import Frame as _Fr
                if cond_pol(p.conds, f"cmp:Is({n_},Const(None))") is False or _Fr.atoms(p.conds).get(n_) is True:
                    v[0], v[1] = False, f"{k[:60]} although something was given"
    for n_, (ok_, how_) in sorted(verdicts.items()):
        res.add(f"labrea.dataset.DatasetFactory.update:{n_} given now wins over the factory's own", ok_, df.module.relpath, upd.lineno, how_,
                "a factory that already carries options (dataset(options=P1)) and is called again with options=P2 must declare datasets under P2: with the operands of "
                "`or` swapped the later argument is silently ignored (C08)")
    if len(verdicts) < 6:
        raise AnalysisError(f"R-MX: only {len(verdicts)} fields of DatasetFactory.update recognised")
    return res


# ------------------------------------------------------------------ R-TK
def rule_TK(run: Run) -> RuleResult:
    res = RuleResult("R-TK")
    repo = run.repo
    t = repo.cls("Template")
    f = t.module.relpath
    nec = "a key read by substitution and not reported by keys()/explain()/validate() is a stale-cache key (C09)"
    from .interp import Frame
    KEY = "elem(call:confectioner.templating.find_template_keys(Child(template)))"
    MATCH = f"call:match(global<labrea.template.TEMPLATE_PARAM>,{KEY})"
    for op in ("validate", "keys", "explain"):
        fn = t.methods.get(op)
        if fn is None:
            raise AnalysisError(f"Template.{op} not found")
        ps = run.paths(t, op, unroll=1)
        srcs = set()
        ok_skip = ok_deleg = True
        delegated = False
        saw_match = saw_nomatch = False
        filtered_params = False
        why_skip = why_deleg = ""
        visits = False
        for p in ps:
            for e in p.events:
                if e.kind == "call" and e.text.endswith("find_template_keys") and not e.via:
                    srcs.add(",".join(a.key() for a in e.args))
                if e.kind == "op" and e.op == op and isinstance(e.target, Child) and e.target.path == "params[*]" and e.whole:
                    visits = True
            m = None
            def _match_test(term, pol0):
                """(is the MATCH test, polarity): a match object is always true, so ``match(...) is None`` is ``not match(...)``."""
                k_, pol = Frame.norm_cond(term, pol0)
                if k_ == f"cmp:Is({MATCH},Const(None))":
                    k_, pol = MATCH, not pol
                return k_ == MATCH, pol
            for c in p.conds:
                is_m, pol = _match_test(c[2], c[1])
                if is_m:
                    m = pol
            m_from_filter = False
            if m is None:
                # the keys may be pre-filtered by a comprehension: every element that was kept satisfies the filter
                for e in p.events:
                    if e.kind == "filter" and e.target is not None and not e.via:
                        is_m, pol = _match_test(e.target.key(), True)
                        if is_m:
                            m = pol
                            m_from_filter = True
                            if pol is False:
                                filtered_params = True
            opt_ops = [e for e in p.events if e.kind in ("unfold", "op") and e.op == op and isinstance(e.target, New) and e.target.cls.name == "Option"
                       and e.target.attrs.get("key") is not None and e.target.attrs["key"].key() == KEY]
            if m_from_filter and not opt_ops:
                m = None        # the filtered collection may have been empty on this path: no key was handled
            if m is True:
                saw_match = True
                if opt_ops:
                    ok_skip = False
                    why_skip = "a :param: key is also looked up as an option"
            elif m is False:
                saw_nomatch = True
                if p.status == "ret" and opt_ops:
                    delegated = True
                elif p.status == "ret":
                    ok_deleg = False
                    why_deleg = (f"a returning path handles a non-parameter key without delegating it to Option(key).{op}(options) "
                                 f"(conditions {[c[0] for c in p.conds][:4]}): references inside its value are not followed")
                for e in opt_ops:
                    if e.opts is None or e.opts.key() != "options":
                        ok_deleg = False
                        why_deleg = f"Option(key).{op} receives {e.opts.key() if e.opts else None}, not the caller's options"
                    if e.target.attrs.get("default") is not None and e.target.attrs["default"].key() != "Const(MISSING)":
                        ok_deleg = False
                        why_deleg = "the delegated Option carries a default: a missing referenced key would go unreported"
        ok_src = srcs == {"Child(template)"}
        res.add(f"labrea.template.Template.{op}:iterates find_template_keys(self.template)", ok_src, f, fn.lineno, f"key source arguments: {sorted(srcs)}", nec)
        res.add(f"labrea.template.Template.{op}:skips exactly the :param: keys", ok_skip and (saw_match or filtered_params) and saw_nomatch, f, fn.lineno,
                why_skip or "TEMPLATE_PARAM.match(key) decides; matching keys are not looked up as options", nec)
        if not delegated:
            ok_deleg = False
            why_deleg = why_deleg or f"no returning path delegates a non-parameter key to Option(key).{op}(options)"
        res.add(f"labrea.template.Template.{op}:delegates each key to Option(key).{op}(options)", ok_deleg and saw_nomatch, f, fn.lineno,
                why_deleg or "transitivity through templated values is inherited from Option", nec)
        res.add(f"labrea.template.Template.{op}:visits all params", visits, f, fn.lineno, "every element of self.params receives the same operation", nec)
    ev = t.methods.get("evaluate")
    if ev is None:
        raise AnalysisError("Template.evaluate not found")
    optp = astu.param_names(ev)[0]
    ok_e = True
    saw_full = False
    detail = ""
    KEY = "fstr(Const(':'),key(Child(params)),Const(':'))"
    n_res = 0
    for p_ in run.paths(t, "evaluate"):
        calls = [e for e in p_.events if e.kind == "call" and e.text.endswith("templating.resolve")]
        if p_.status == "ret" and not calls:
            ok_e, detail = False, "a returning path never resolves the template"
        for e in calls:
            n_res += 1
            a0 = e.args[0].key() if e.args else None
            a1 = e.args[1] if len(e.args) > 1 else None
            detail_ = f"resolve({a0}, {a1.key()[:90] if a1 is not None else None})"
            mixargs = a1.args if isinstance(a1, Sym) and a1.head == "call:confectioner.mix" else ()
            if a0 != "Child(template)" or len(mixargs) != 2 or mixargs[0].key() != optp:
                ok_e, detail = False, detail_
                continue
            ing = mixargs[1]
            if isinstance(ing, Coll) and ing.elem.key() == "Val(evaluate,Child(params[*]))" and ing.keyterm is not None and ing.keyterm.key() == KEY:
                saw_full = True
                detail = detail or detail_
            elif isinstance(ing, Sym) and ing.head == "dict{}" and not any(ev_.kind == "op" and isinstance(ev_.target, Child) and ev_.target.path.startswith("params") for ev_ in p_.events):
                pass        # the zero-parameter iteration of an explicit loop
            else:
                ok_e, detail = False, detail_ + (f" with keys {ing.keyterm.key()[:60]}" if isinstance(ing, Coll) and ing.keyterm is not None else "")
    ok_e = ok_e and saw_full
    res.add("labrea.template.Template.evaluate:resolves self.template against options mixed with the :name: parameters", ok_e, f, ev.lineno, detail, nec)
    # resolve() resolves what it substitutes once more (that is how {KEY} -> '{OTHER}/x' is followed, and Option.keys follows it too).
    # A *parameter* is put into the dictionary resolve() works on, so its evaluated value gets the same treatment: a value whose text
    # contains {X} makes the template read option X — which keys()/explain()/validate(), not knowing the value, cannot report.
    raw = False
    for p_ in run.paths(t, "evaluate"):
        for e in p_.events:
            if e.kind == "call" and e.text.endswith("templating.resolve") and len(e.args) > 1:
                a1 = e.args[1]
                ing = a1.args[1] if isinstance(a1, Sym) and a1.head == "call:confectioner.mix" and len(a1.args) == 2 else None
                if isinstance(ing, Coll):
                    vk = ing.elem.key()
                    escaped = "call:replace(" in vk and "Const('{')" in vk
                    if "Val(evaluate,Child(params[*]))" in vk and not escaped:
                        raw = True
    res.add("labrea.template.Template.evaluate:a parameter's value cannot introduce option references", not raw, f, ev.lineno,
            "parameter values are made literal before resolve() sees them" if not raw else
            "the evaluated parameter values are mixed into the dictionary that resolve() resolves recursively: braces in a value are template references",
            "keys() and explain() of a Template include every option key the substitution reads (C09); a key read only because a parameter's "
            "value happened to contain {KEY} is read by evaluate() and reported by neither keys() nor validate()")
    eps = [p for p in run.paths(t, "evaluate") if p.status == "ret"]
    bad_r = [p.ret.key()[:80] for p in eps if not p.ret.key().startswith("call:str(call:confectioner.templating.resolve(Child(template),call:confectioner.mix(options,")]
    res.add("labrea.template.Template.evaluate:every returning path goes through resolve()", bool(eps) and not bad_r, f, ev.lineno,
            f"{len(eps)} returning paths" if not bad_r else f"a path returns {bad_r[0]} without resolving (escaped braces, parameters and references are then not processed)", nec)
    return res
