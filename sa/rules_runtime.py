"""Runtime and threads (DESIGN 3.9)."""
from __future__ import annotations

import ast
from typing import Dict, List, Optional, Set

from . import astu
from .facts import Run, cond_pol
from .interp import Ctx, Frame, analyse_function, analyse_method
from .model import AnalysisError, iter_functions
from .report import RuleResult
from .terms import Const, Sym

TABLE = "_RUNTIMES"              # rebound by _bind_names() to whatever the tables are called in the tree under analysis
DEFAULTS = "_DEFAULT_HANDLERS"
LOCKNAME = "lock"
LOCKS_TABLE = "_LOCKS"
LOCKS_LOCK = "_MODULE_LOCK"
GET_LOCK = "_get_lock"
LOCKS_MODULE = "labrea.overload"
T_KEY = "global<labrea.runtime._RUNTIMES>"
D_KEY = "global<labrea.runtime._DEFAULT_HANDLERS>"
LOCK_KEY = "global<labrea.runtime.lock>"
OWN_THREAD = "call:threading.current_thread"
TABLE_WRITES = {"setdefault", "pop", "__setitem__", "update", "clear", "popitem", "__delitem__"}


def _dict_vars(m) -> Dict[str, ast.expr]:
    out = {}
    for name, r in m.names.items():
        if r[0] == "var" and ((isinstance(r[1], ast.Dict) and not r[1].keys) or (isinstance(r[1], ast.Call) and ast.unparse(r[1].func) in ("dict", "weakref.WeakValueDictionary", "WeakValueDictionary", "weakref.WeakKeyDictionary"))):
            out[name] = r[1]
    return out


def _lock_vars(m) -> List[str]:
    return [name for name, r in m.names.items() if r[0] == "var" and isinstance(r[1], ast.Call) and ast.unparse(r[1].func).split(".")[-1] in ("Lock", "RLock")]


def _entries_of(run: Run, m):
    """Entry points of a module: every function or method that is not a private helper referenced from
    inside the module (those are analysed inlined into their callers)."""
    cands = []
    for q, fi in run.repo.functions.items():
        if fi.module is m:
            cands.append((q, fi.node, None))
    for ci in run.repo.classes.values():
        if ci.module is m:
            for n, fn in ci.methods.items():
                cands.append((f"{ci.qualname}.{n}", fn, ci))
    out = []
    for q, fn, ci in cands:
        short = q.rsplit(".", 1)[-1]
        private = short.startswith("_") and not short.startswith("__")
        if private:
            refs = [x for x in _module_refs(m, short) if not (isinstance(x, ast.Name) and isinstance(x.ctx, ast.Store))]
            if refs:
                continue
        if ci is not None and ci.name.startswith("_") and not (ci.is_subclass_of("Evaluatable") or ci.is_subclass_of("Effect")):
            continue        # methods of a private helper class: seen through their callers
        out.append((q, fn, ci))
    return out


def _paths_of(run: Run, m, fn, ci):
    """Paths of a function of module m; methods are analysed with their class so that private methods they
    call through self are inlined."""
    key = ("paths_of", m.name, id(fn))
    if key in run._rule_cache:
        return run._rule_cache[key]
    decos = [ast.unparse(d) for d in fn.decorator_list]
    if ci is not None and "staticmethod" not in decos and "classmethod" not in decos:
        ps = analyse_function(Ctx(run.repo), m, fn, cls=ci)
    else:
        ps = analyse_function(Ctx(run.repo), m, fn)
    run._rule_cache[key] = ps
    return ps


def _table_events(p, tkey: str):
    """(event, method, key term, stored value or None, is-write) for every access of the module-level table."""
    for e in p.events:
        if e.kind == "call" and e.target is not None and e.target.key() == tkey:
            key = e.args[0] if e.args else None
            val = e.args[1] if e.text in ("setdefault", "__setitem__") and len(e.args) > 1 else None
            yield e, e.text, key, val, e.text in TABLE_WRITES
        elif e.kind in ("store", "delete") and len(e.args) == 2 and e.args[0].key() == tkey:
            idx = e.args[1]
            key = idx.args[0] if getattr(idx, "head", "") == "index" and idx.args else None
            yield e, "__setitem__" if e.kind == "store" else "__delitem__", key, e.target if e.kind == "store" else None, True
        elif e.kind == "call" and e.text in ("len", "list", "dict", "iter", "sorted") and any(a.key() == tkey for a in e.args):
            yield e, e.text, None, None, False


def _find_lock_registry(run: Run):
    """The registry of per-object locks, found by its role: a module-level dictionary, next to a module-level
    lock, that some function of the same module fills with new threading locks."""
    hits = []
    for m in run.repo.modules.values():
        if m.name == "labrea.runtime":
            continue
        dicts, locks = _dict_vars(m), _lock_vars(m)
        if not dicts or not locks:
            continue
        for q, fi in run.repo.functions.items():
            if fi.module is not m:
                continue
            names = {x.id for x in ast.walk(fi.node) if isinstance(x, ast.Name)}
            makes_lock = any(isinstance(x, ast.Call) and ast.unparse(x.func).split(".")[-1] in ("Lock", "RLock") for x in ast.walk(fi.node))
            for d in dicts:
                if d in names and makes_lock:
                    hits.append((m, d, locks[0] if len(locks) == 1 else None, fi.node.name))
    return hits


def _bind_names(run: Run) -> None:
    """Find the shared tables and locks by what they are used for, not by what they are called:
    the thread -> runtime table is the module-level dictionary of runtime.py that some path indexes by
    threading.current_thread(); the default-handler table the other one; the module lock the
    module-level threading lock.  Likewise the lock registry (wherever it lives)."""
    global TABLE, DEFAULTS, LOCKNAME, T_KEY, D_KEY, LOCK_KEY, LOCKS_TABLE, LOCKS_LOCK, GET_LOCK, LOCKS_MODULE
    m = run.repo.modules.get("labrea.runtime")
    if m is None:
        raise AnalysisError("labrea/runtime.py not found")
    dicts = _dict_vars(m)
    thread_tabs = []
    entries = _entries_of(run, m)
    for name in dicts:
        tkey = f"global<labrea.runtime.{name}>"
        for q, fn, ci in entries:
            for p in _paths_of(run, m, fn, ci):
                for e, meth, key, val, wr in _table_events(p, tkey):
                    if key is not None and key.key() == OWN_THREAD and name not in thread_tabs:
                        thread_tabs.append(name)
    if len(thread_tabs) != 1:
        raise AnalysisError(f"labrea/runtime.py: expected exactly one module-level dictionary indexed by the current thread, found {thread_tabs}")
    TABLE = thread_tabs[0]
    others = [n for n in dicts if n != TABLE]
    if len(others) != 1:
        raise AnalysisError(f"labrea/runtime.py: expected exactly one other module-level dictionary (the default handlers), found {others}")
    DEFAULTS = others[0]
    locks = _lock_vars(m)
    if len(locks) != 1:
        raise AnalysisError(f"labrea/runtime.py: expected exactly one module-level lock, found {locks}")
    LOCKNAME = locks[0]
    T_KEY = f"global<labrea.runtime.{TABLE}>"
    D_KEY = f"global<labrea.runtime.{DEFAULTS}>"
    LOCK_KEY = f"global<labrea.runtime.{LOCKNAME}>"
    reg = _find_lock_registry(run)
    if len(reg) == 1 and reg[0][2] is not None:
        LOCKS_MODULE, LOCKS_TABLE, LOCKS_LOCK, GET_LOCK = reg[0][0].name, reg[0][1], reg[0][2], reg[0][3]


def _rt(run: Run):
    m = run.repo.modules.get("labrea.runtime")
    if m is None:
        raise AnalysisError("labrea/runtime.py not found")
    if "rt_names" not in run._rule_cache:
        run._rule_cache["rt_names"] = True
        _bind_names(run)
    return m, run.repo.cls("Runtime")


def _with_stack(fn: ast.AST) -> Dict[int, List[str]]:
    """id(node) -> texts of the `with` context expressions lexically held."""
    out: Dict[int, List[str]] = {}

    def visit(n, held):
        out[id(n)] = held
        if isinstance(n, (ast.With, ast.AsyncWith)):
            ctx = [ast.unparse(i.context_expr) for i in n.items]
            for i in n.items:
                visit(i, held)
            for s in n.body:
                visit(s, held + ctx)
            return
        for c in ast.iter_child_nodes(n):
            visit(c, held)

    visit(fn, [])
    return out


def _thread_names(fn) -> Set[str]:
    """locals assigned from threading.current_thread()"""
    out = set()
    for n in astu.walk_no_nested(fn):
        if isinstance(n, ast.Assign) and isinstance(n.value, ast.Call) and ast.unparse(n.value.func).endswith("current_thread"):
            for t in n.targets:
                if isinstance(t, ast.Name):
                    out.add(t.id)
    return out


def _reads_table(e: ast.AST) -> bool:
    return any(isinstance(x, ast.Name) and x.id == TABLE for x in ast.walk(e))





class Access:
    __slots__ = ("entry", "path", "event", "method", "key", "value", "write", "fn")

    def __init__(self, entry, path, event, method, key, value, write, fn):
        self.entry, self.path, self.event, self.method, self.key, self.value, self.write, self.fn = entry, path, event, method, key, value, write, fn


def _module_refs(m, name: str) -> List[ast.AST]:
    return [n for n in ast.walk(m.tree) if (isinstance(n, ast.Name) and n.id == name) or (isinstance(n, ast.Attribute) and n.attr == name)]


def _entries(run: Run):
    """Entry points of labrea/runtime.py: every function or method that is not a private
    helper only called from inside the module (those are analysed inlined into their callers)."""
    m, rt = _rt(run)
    cands = []
    for q, fi in run.repo.functions.items():
        if fi.module is m:
            cands.append((q, fi.node, None))
    for ci in run.repo.classes.values():
        if ci.module is m:
            for n, fn in ci.methods.items():
                cands.append((f"{ci.qualname}.{n}", fn, ci))
    out = []
    for q, fn, ci in cands:
        short = q.rsplit(".", 1)[-1]
        private = short.startswith("_") and not short.startswith("__")
        if private:
            refs = [r for r in _module_refs(m, short) if not (isinstance(r, ast.Name) and isinstance(r.ctx, ast.Store))]
            if refs:
                continue
        if ci is not None and ci.name.startswith("_") and not (ci.is_subclass_of("Evaluatable") or ci.is_subclass_of("Effect")):
            continue        # methods of a private helper class (a slot / registry object): seen through their callers
        out.append((q, fn, ci))
    return out


SELF_KEYS = ("self", "Child(<self>)")


def _fn_paths(run: Run, fn, ci):
    """Paths of a function of labrea/runtime.py; methods are analysed with their class so that
    private methods they call through self are inlined."""
    m, _ = _rt(run)
    decos = [ast.unparse(d) for d in fn.decorator_list]
    if ci is not None and "staticmethod" not in decos and "classmethod" not in decos:
        return analyse_function(Ctx(run.repo), m, fn, cls=ci)
    return analyse_function(Ctx(run.repo), m, fn)


def _accesses(run: Run) -> List[Access]:
    """Every access of the thread -> runtime table on every path of every entry point
    (helpers inlined), with the key and the stored value as terms."""
    if "rt_accesses" in run._rule_cache:
        return run._rule_cache["rt_accesses"]
    m, rt = _rt(run)
    out: List[Access] = []
    for q, fn, ci in _entries(run):
        for p in _fn_paths(run, fn, ci):
            for e in p.events:
                if e.kind == "call" and e.target is not None and e.target.key() == T_KEY:
                    key = e.args[0] if e.args else None
                    val = e.args[1] if e.text in ("setdefault", "__setitem__") and len(e.args) > 1 else None
                    out.append(Access(q, p, e, e.text, key, val, e.text in TABLE_WRITES, fn))
                elif e.kind == "store" and len(e.args) == 2 and e.args[0].key() == T_KEY:
                    idx = e.args[1]
                    key = idx.args[0] if getattr(idx, "head", "") == "index" and idx.args else None
                    out.append(Access(q, p, e, "__setitem__", key, e.target, True, fn))
    run._rule_cache["rt_accesses"] = out
    return out


def _owner_of(run: Run, line: int, default: str, m=None) -> str:
    """Qualified name of the innermost function of the module (default labrea/runtime.py) containing the line."""
    if m is None:
        m, _ = _rt(run)
    best = None
    for mm, cls, fn, q in iter_functions(run.repo):
        if mm is m and fn.lineno <= line <= (fn.end_lineno or fn.lineno):
            if best is None or fn.lineno >= best[0]:
                best = (fn.lineno, q)
    return best[1] if best else default


def _maybe_none_term(t, acc: Access) -> Optional[str]:
    """Reason why the stored term may be None on this path (None = it cannot)."""
    from .interp import Frame
    from .terms import Const, New, Sym
    if t is None:
        return "unknown value"
    k = t.key()
    at = Frame.atoms(acc.path.conds)
    if at.get(f"cmp:Is({k},Const(None))") is False:
        return None
    if k in SELF_KEYS or isinstance(t, New) or k.startswith("new:Runtime(") or k.startswith("call:handle("):
        return None
    if isinstance(t, Const):
        return "literal None" if t.v is None else None
    if isinstance(t, Sym):
        if t.head in ("call:get", "call:setdefault") and len(t.args) >= 3:
            return _maybe_none_term(t.args[2], acc)
        if t.head == "getitem" and t.args and t.args[0].key() == T_KEY:
            return None         # an entry of the table itself: what this rule shows for every store (the same induction as get(key, default))
        if t.head == "call:get":
            return f"{k[:60]} is None when the key is absent"
        if t.head == "call:pop":
            return f"{k[:60]} may yield a stored None"
        if t.head == "or" and t.args:
            return _maybe_none_term(t.args[-1], acc)
        if not t.args and not t.head.startswith("call"):
            # a parameter of the entry point: its annotation decides
            for a in acc.fn.args.args + acc.fn.args.kwonlyargs:
                if a.arg == t.head:
                    ann = ast.unparse(a.annotation) if a.annotation else ""
                    return None if ann and "Optional" not in ann and "None" not in ann else f"parameter {t.head} may be None"
    return f"{k[:60]} has unknown nullability"

# ------------------------------------------------------------------ R-RE
def rule_RE(run: Run) -> RuleResult:
    res = RuleResult("R-RE")
    m, rt = _rt(run)
    nec = ("a context manager that keeps the runtime to restore in one scalar attribute of a shared "
           "object is neither re-entrant nor thread-confined: `with rt: with rt: …` loses the outer "
           "runtime, and two threads entering the same object restore each other's runtime (C14, C15)")
    en, ex = rt.methods.get("__enter__"), rt.methods.get("__exit__")
    if en is None or ex is None:
        raise AnalysisError("Runtime.__enter__/__exit__ not found")
    f = m.relpath
    eps = [p for p in _fn_paths(run, en, rt) if p.status == "ret"]
    if not eps:
        raise AnalysisError("Runtime.__enter__ has no returning path")
    d = "previous runtime pushed on a per-thread stack at each entry"
    ok = True
    for p in eps:
        scalar = [e for e in p.events if e.kind == "store" and len(e.args) == 2 and e.args[0].key() in SELF_KEYS and e.target is not None and T_KEY in e.target.key()]
        pushes = [e for e in p.events if e.kind == "call" and e.text in ("append", "appendleft", "insert") and e.args and T_KEY in e.args[-1].key()]
        if scalar:
            ok, d = False, f"__enter__ overwrites {scalar[0].text} with the runtime to restore (line {scalar[0].line})"
        elif not pushes:
            ok, d = False, "__enter__ does not push the previous runtime onto a stack"
        elif not all(OWN_THREAD in e.target.key() or "local" in e.target.key() for e in pushes):
            ok, d = False, "the restore stack is not keyed by the entering thread"
    res.add("labrea.runtime.Runtime.__enter__:restore state is per entry and per thread", ok, f, en.lineno, d, nec)
    # __exit__ restores what that entry pushed
    xps = [p for p in _fn_paths(run, ex, rt) if p.status == "ret"]
    ok2 = bool(xps)
    d2 = "pops the per-entry stack"
    def _takes(p):
        """Removals of one element from a per-entry stack: stack.pop(…)/popleft(), or ``del stack[i]`` (paired with the read of stack[i])."""
        out = [(e, e.target.key(), None) for e in p.events if e.kind == "call" and e.text in ("pop", "popleft") and e.target is not None and e.target.key() != T_KEY]
        for e in p.events:
            if e.kind == "delete" and len(e.args) == 2 and isinstance(e.args[1], Const) and isinstance(e.args[1].v, int) and not isinstance(e.args[1].v, bool) \
                    and e.args[0].key() != T_KEY and OWN_THREAD in e.args[0].key():
                out.append((e, e.args[0].key(), e.args[1].v))
        return out
    for p in xps:
        pops = _takes(p)
        if not pops:
            ok2, d2 = False, "does not pop a per-entry stack"
        elif not all(OWN_THREAD in sk or "local" in sk for e, sk, ix in pops):
            ok2, d2 = False, "the stack it pops is not the entering thread's"
        taken = {f"getitem({sk},Const({ix}))" for e, sk, ix in pops if ix is not None}
        for e in p.events:
            if e.kind == "store" and len(e.args) == 2 and e.args[0].key() == T_KEY and not (e.target is not None and (e.target.key().startswith("call:pop(") or e.target.key().startswith("call:popleft(")
                                                                                                                 or e.target.key() in taken)):
                ok2, d2 = False, f"restores {e.target.key()[:60] if e.target is not None else None}, not the value popped from the per-entry stack"
    res.add("labrea.runtime.Runtime.__exit__:restores the runtime saved by the matching entry", ok2, f, ex.lineno, d2, nec)
    # entries nest: the entry left first is the one entered last, so the stack is taken from the end it was filled at
    # (append/pop() or appendleft/popleft — never append/pop(0))
    def _end(e):
        a0 = e.args[0] if e.args else None
        if e.text == "append":
            return "right"
        if e.text == "appendleft" or (e.text == "insert" and isinstance(a0, Const) and a0.v == 0):
            return "left"
        if e.text == "popleft" or (e.text == "pop" and isinstance(a0, Const) and a0.v == 0):
            return "left"
        if e.text == "pop" and (a0 is None or (isinstance(a0, Const) and a0.v == -1)):
            return "right"
        return "other"
    push_ends = {_end(e) for p in eps for e in p.events if e.kind == "call" and e.text in ("append", "appendleft", "insert") and e.args and T_KEY in e.args[-1].key()}
    pop_ends = {_end(e) for p in xps for e in p.events if e.kind == "call" and e.text in ("pop", "popleft") and e.target is not None and e.target.key() != T_KEY}
    pop_ends |= {("right" if ix == -1 else "left" if ix == 0 else "other") for p in xps for e, sk, ix in _takes(p) if ix is not None}
    ok_l = len(push_ends) == 1 and push_ends == pop_ends and "other" not in push_ends
    res.add("labrea.runtime.Runtime.__exit__:takes the saved runtime from the end of the stack __enter__ filled", ok_l, f, ex.lineno,
            f"pushed at {sorted(push_ends)}, popped at {sorted(pop_ends)}" + ("" if ok_l else ": nested entries of one runtime object are left in the wrong order — the inner exit "
                                                                               "restores what the outer entry saved"), nec)
    # what is saved is what the table held for this thread, or nothing: no stand-in (the entered runtime itself, a fresh Runtime)
    ok_s, d_s = True, "saves _RUNTIMES.get(thread)"
    for p in eps:
        for e in p.events:
            if e.kind == "call" and e.text in ("append", "appendleft", "insert") and e.args and T_KEY in e.args[-1].key():
                v = e.args[-1]
                if isinstance(v, Sym) and v.head == "call:get" and v.args and v.args[0].key() == T_KEY:
                    rest = v.args[2:]
                    if len(v.args) < 2 or OWN_THREAD not in v.args[1].key() or any(not (isinstance(r_, Const) and r_.v is None) and not (isinstance(r_, Sym) and r_.head == "kw:default" and r_.args and isinstance(r_.args[0], Const) and r_.args[0].v is None) for r_ in rest):
                        ok_s, d_s = False, f"saves {v.key()[:100]}: a thread without a runtime gets a stand-in saved as its previous runtime, and leaving the block installs that instead of removing the entry"
                elif isinstance(v, Sym) and v.head == "call:setdefault" and v.args and v.args[0].key() == T_KEY:
                    # (reading the slot with setdefault creates the entry it then saves: the same stand-in)
                    ok_s, d_s = False, (f"saves {v.key()[:100]}: looking the slot up with setdefault gives a thread without a runtime one, saved as its previous runtime — "
                                        "leaving the block leaves that behind instead of removing the entry")
    res.add("labrea.runtime.Runtime.__enter__:saves exactly what the table held for the thread", ok_s, f, en.lineno, d_s, nec)
    # the per-thread stack may be discarded only once it is empty (an outer entry of the same runtime still needs it)
    ok3, d3 = True, "the thread's stack is dropped only when empty"
    for p in xps:
        at = Frame.atoms(p.conds)
        for e in p.events:
            if e.kind == "delete" and len(e.args) == 2 and OWN_THREAD in e.args[1].key():
                stack_k = f"getitem({e.args[0].key()},{OWN_THREAD})"
                empty = at.get(stack_k) is False or at.get(f"call:len({stack_k})") is False or at.get(f"cmp:Eq(call:len({stack_k}),Const(0))") is True
                if not empty:
                    ok3, d3 = False, f"del {e.text} on a path that did not establish the stack is empty (conditions {[c[0] for c in p.conds]}): a nested entry of the same runtime loses its saved runtime"
    res.add("labrea.runtime.Runtime.__exit__:per-thread stack discarded only when empty", ok3, f, ex.lineno, d3, nec)
    # a subclass that brings its own entry/exit bookkeeping is held to the same rule: nothing about one entry is kept in a
    # single attribute of the (shared, re-enterable) object
    for ci in run.repo.classes.values():
        if ci is rt or not ci.is_subclass_of(rt.qualname) or ci.module.name.startswith("labrea.mypy"):
            continue
        for mn in ("__enter__", "__exit__"):
            sfn = ci.methods.get(mn)
            if sfn is None:
                continue
            from .interp import analyse_function as _af
            bad = None
            for p in _af(Ctx(run.repo), ci.module, sfn, cls=ci):
                for e in p.events:
                    if e.kind == "store" and len(e.args) == 2 and e.args[0].key() in SELF_KEYS and isinstance(e.args[1], Const):
                        bad = bad or (e.line, f"self.{e.args[1].v} = {e.target.key()[:50] if e.target is not None else '?'}")
            res.add(f"{ci.qualname}.{mn}:keeps no per-entry state in a single attribute", bad is None, ci.module.relpath, bad[0] if bad else sfn.lineno,
                    "no attribute of the object is written on entry or exit" if bad is None else
                    f"{bad[1]} (line {bad[0]}): the object can be entered again while active (nesting, another thread); the second entry overwrites what the first needs", nec)
    return res


# ------------------------------------------------------------------ R-NR
def _maybe_none(e: ast.expr, fn, store_node, rt_cls) -> Optional[str]:
    """Reason why ``e`` may be None at ``store_node`` (None = provably not)."""
    if isinstance(e, ast.Name) and e.id == "self":
        return None
    if isinstance(e, ast.Call):
        fnm = ast.unparse(e.func)
        if fnm.split(".")[-1] == "Runtime" or fnm == "Runtime":
            return None
        if isinstance(e.func, ast.Attribute) and e.func.attr in ("get", "setdefault"):
            if len(e.args) >= 2:
                return _maybe_none(e.args[1], fn, store_node, rt_cls)
            return f"{ast.unparse(e)} returns None when the key is absent"
        if isinstance(e.func, ast.Attribute) and e.func.attr == "pop":
            return f"{ast.unparse(e)} may yield a stored None"
        if isinstance(e.func, ast.Attribute) and e.func.attr in ("handle",):
            return None
        return f"{ast.unparse(e)[:40]} has unknown nullability"
    if isinstance(e, ast.Attribute):
        ann = None
        for kc in rt_cls.mro():
            if e.attr in kc.annotations:
                ann = ast.unparse(kc.annotations[e.attr])
        if ann is not None and ("Optional" in ann or "None" in ann):
            return f"{ast.unparse(e)} is declared {ann}"
        if ann is not None:
            return None
        return f"{ast.unparse(e)} has unknown nullability"
    if isinstance(e, ast.Name):
        # narrowed by an enclosing `if name is not None` / else of `if name is None`
        pm = astu.parent_map(fn)
        cur = store_node
        while id(cur) in pm:
            par = pm[id(cur)]
            if isinstance(par, ast.If):
                t = ast.unparse(par.test)
                in_body = any(x is cur for x in par.body)
                if (t == f"{e.id} is not None" and in_body) or (t == f"{e.id} is None" and not in_body):
                    return None
            cur = par
        amap = astu.single_assign_map(fn)
        if e.id in amap:
            return _maybe_none(amap[e.id], fn, store_node, rt_cls)
        for a in fn.args.args:
            if a.arg == e.id:
                ann = ast.unparse(a.annotation) if a.annotation else ""
                return None if ann and "Optional" not in ann and "None" not in ann else f"parameter {e.id} may be None"
        return f"{e.id} has unknown nullability"
    if isinstance(e, ast.Constant):
        return "literal None" if e.value is None else None
    if isinstance(e, ast.IfExp):
        return _maybe_none(e.body, fn, store_node, rt_cls) or _maybe_none(e.orelse, fn, store_node, rt_cls)
    return f"{ast.unparse(e)[:40]} has unknown nullability"


def rule_NR(run: Run) -> RuleResult:
    res = RuleResult("R-NR")
    m, rt = _rt(run)
    nec = ("the thread -> runtime table must never hold None: current_runtime() uses setdefault and hands "
           "the stored None to Request.run (AttributeError on the next request in that thread) (C14)")
    sites = {}
    for a in _accesses(run):
        if not a.write or a.method in ("pop", "popitem", "clear", "__delitem__"):
            continue
        if a.method == "update":
            why = "bulk update with unknown values"
        else:
            why = _maybe_none_term(a.value, a)
        own_ = _owner_of(run, a.event.line, a.entry)
        # (a store made by a shared private helper — a method of a slot object, say — is one store per entry point that reaches it)
        k = (own_ if own_ == a.entry or "._" not in own_ else f"{a.entry} via {own_.rsplit('.', 1)[-1]}", a.event.line)
        if k not in sites or (why is not None and sites[k][0] is None):
            sites[k] = (why, a)
    for (entry, line), (why, a) in sorted(sites.items()):
        res.add(f"{entry}:stores {a.value.key()[:40] if a.value is not None else '?'} into {TABLE}", why is None, m.relpath, line,
                "stored value cannot be None" if why is None else f"stored value may be None: {why}", nec)
    if len(sites) < 3:
        raise AnalysisError(f"only {len(sites)} stores into {TABLE} found (4 confirmed by hand)")
    return res


# ------------------------------------------------------------------ R-DF
D_KEY = "global<labrea.runtime._DEFAULT_HANDLERS>"      # rebound by _bind_names()


def rule_DF(run: Run) -> RuleResult:
    res = RuleResult("R-DF")
    m, rt = _rt(run)
    nec = ("a request type whose default handler is registered after a runtime object was created must "
           "still be served by that default: the lookup has to consult the default table at call time (C14)")
    fn = rt.methods.get("run")
    if fn is None:
        raise AnalysisError("Runtime.run not found")
    ps = _fn_paths(run, fn, rt)
    req = [a.arg for a in fn.args.args][1] if len(fn.args.args) > 1 else "request"
    TY = f"call:type({req})"
    own = f"getitem(attr:handlers(self),{TY})"
    own_get = f"call:get(attr:handlers(self),{TY}"
    dflt = f"getitem({D_KEY},{TY})"
    dflt_get = f"call:get({D_KEY},{TY}"
    rets = [p for p in ps if p.status == "ret" and p.ret is not None]
    raises = [p for p in ps if p.status == "raise"]

    def served_by(p):
        k = p.ret.key()
        if not (k.startswith("callres(") and k.endswith(f",{req})")):
            return None
        h = k[len("callres("):-len(f",{req})")]
        if h == own or h.startswith(own_get):
            return "own"
        if h == dflt or h.startswith(dflt_get):
            return "default"
        return "other:" + h[:60]

    kinds = [served_by(p) for p in rets]
    ok_r = bool(rets) and all(k is not None for k in kinds)
    res.add("labrea.runtime.Runtime.run:returns handler(request)", ok_r, m.relpath, fn.lineno, f"{[p.ret.key()[:70] for p in rets]}", nec)
    ok = "default" in kinds
    res.add("labrea.runtime.Runtime.run:falls back to the default table at call time", ok, m.relpath, fn.lineno,
            f"{DEFAULTS}[type(request)] consulted in run()" if ok else f"run() never consults {DEFAULTS}: only the snapshot taken in __init__ is used", nec)
    # own handlers first: the default table serves only after the own lookup failed / missed
    own_first = "own" in kinds and all(k in ("own", "default") for k in kinds)
    for p, k in zip(rets, kinds):
        if k == "default":
            looked = any(e.kind == "call" and e.text in ("getitem", "get") and e.target is not None and e.target.key() == "attr:handlers(self)" for e in p.events) \
                or any(f"attr:handlers(self)" in (c[2] or "") for c in p.conds)
            own_first = own_first and looked
    res.add("labrea.runtime.Runtime.run:looks the handler up by type(request) in its own handlers", own_first, m.relpath, fn.lineno, f"served by {kinds}", nec)
    # the handler runs outside the try that covers its look-up: a KeyError (LookupError, …) raised by the handler while it serves
    # the request is the handler's failure, not "no handler registered"
    guarded = []
    n_hcalls = 0
    for p in ps:
        for e in p.events:
            if e.kind != "call" or e.target is None:
                continue
            tk = e.target.key()
            if tk in (own, dflt) or tk.startswith(own_get) or tk.startswith(dflt_get):
                n_hcalls += 1
                catching = [g_ for g_ in e.guards if g_.replace("!", "").strip()]      # (a try/finally catches nothing: its guard is empty)
                if catching:
                    guarded.append((e.line, catching))
    res.add("labrea.runtime.Runtime.run:the handler is called outside the try of its look-up", n_hcalls > 0 and not guarded, m.relpath,
            guarded[0][0] if guarded else fn.lineno,
            f"line {guarded[0][0]}: the handler is called inside a try that catches {guarded[0][1]}: an error of that kind raised by the handler is taken for "
            "a missing registration — the default handler (or a TypeError) answers instead and the failure is swallowed" if guarded
            else f"{n_hcalls} handler calls on the paths, none inside a try",
            "a failure raised by user code (a handler is user code) surfaces with its cause chain (C12); the served handler is the one the runtime holds, "
            "not the default because the own one failed (C14, C18)")
    ok_t = bool(raises) and all(p.exc and p.exc[0].split(".")[-1] == "TypeError" for p in raises)
    res.add("labrea.runtime.Runtime.run:unserved request fails with TypeError", ok_t, m.relpath, fn.lineno, f"{[p.exc[0] for p in raises if p.exc]}", nec)
    # Request.run goes through the current runtime
    rq = run.repo.cls("Request")
    rf = rq.methods.get("run")
    ok_q = False
    shown = ""
    if rf is not None:
        qps = _fn_paths(run, rf, rq)
        shown = f"{[p.ret.key()[:80] if p.ret is not None else p.status for p in qps]}"
        ok_q = bool(qps) and all(p.status == "ret" and p.ret is not None and cur_norm(run, p.ret.key()) == "call:run(<CUR>,self)" for p in qps)
    res.add("labrea.runtime.Request.run:served by the current runtime", ok_q, m.relpath, rf.lineno if rf else 0, shown or "current_runtime().run(self)", nec)
    hd = run.repo.func("labrea.runtime.handle_by_default")
    hps = _fn_paths(run, hd.node, None)
    pr = [a.arg for a in hd.node.args.args]
    ok_h = bool(hps) and len(pr) >= 2
    for p in hps:
        st = [e for e in p.events if e.kind == "store" and len(e.args) == 2 and e.args[0].key() == D_KEY]
        if p.status != "ret" or len(st) != 1 or st[0].args[1].key() != f"index({pr[0]})" or st[0].target is None or st[0].target.key() != pr[1]:
            ok_h = False
    res.add("labrea.runtime.handle_by_default:registers into the default table", ok_h, m.relpath, hd.node.lineno, f"{DEFAULTS}[request] = handler", nec)
    return res


# ------------------------------------------------------------------ R-HI
MUT = {"update", "setdefault", "pop", "popitem", "clear", "__setitem__", "__delitem__"}


def current_runtime_reader(run: Run):
    """(FuncInfo, keys of the terms it returns) — the parameterless function of the runtime module every returning path of which hands
    back what the thread -> runtime table holds, or now holds, for the current thread: ``table.setdefault(thread, Runtime())``, or
    ``table.get(thread)`` / ``table[thread]``, or a fresh ``Runtime()`` that the same path stored under the thread."""
    if "cur_reader" in run._rule_cache:
        return run._rule_cache["cur_reader"]
    m, rt = _rt(run)
    found = (None, set())
    for q, fi in run.repo.functions.items():
        if fi.module is not m or fi.node.args.args or fi.node.args.posonlyargs or fi.node.args.kwonlyargs or fi.node.args.vararg or fi.node.args.kwarg:
            continue
        try:
            ps = _fn_paths(run, fi.node, None)
        except AnalysisError:
            continue
        rets = [p for p in ps if p.status == "ret"]
        if not rets or len(rets) != len(ps):
            continue
        keys, good = set(), True
        for p in rets:
            k = p.ret.key() if p.ret is not None else "None"
            if k.startswith(f"call:setdefault({T_KEY},{OWN_THREAD},new:Runtime(") or k in (f"call:get({T_KEY},{OWN_THREAD})", f"getitem({T_KEY},{OWN_THREAD})"):
                keys.add(k)
            elif k.startswith("new:Runtime(") and any(e.kind == "store" and len(e.args) == 2 and e.args[0].key() == T_KEY and e.args[1].key() == f"index({OWN_THREAD})"
                                                      and e.target is not None and e.target.key() == k for e in p.events):
                keys.add(k)
            else:
                good = False
        if good and keys:
            found = (fi, keys)
            break
    run._rule_cache["cur_reader"] = found
    return found


def cur_norm(run: Run, key: str) -> str:
    """``key`` with every form of "the current thread's runtime" (see current_runtime_reader) written <CUR>."""
    for k in sorted(current_runtime_reader(run)[1], key=len, reverse=True):
        key = key.replace(k, "<CUR>")
    return key


def _atoms(conds):
    from .interp import Frame
    return Frame.atoms(conds)


def positional_handle(run: Run, t):
    """``x.handle(R, handler=h)`` is ``x.handle(R, h)``: keyword arguments of a handle() call put at their position."""
    if isinstance(t, Sym) and t.head == "call:handle" and any(isinstance(a_, Sym) and a_.head.startswith("kw:") for a_ in t.args):
        rt_h = run.repo.cls("Runtime").methods.get("handle")
        names = [a_.arg for a_ in rt_h.args.args][1:] if rt_h is not None else []
        pos = [a_ for a_ in t.args if not (isinstance(a_, Sym) and a_.head.startswith("kw:"))]
        kws = {a_.head[3:]: a_.args[0] for a_ in t.args if isinstance(a_, Sym) and a_.head.startswith("kw:") and len(a_.args) == 1}
        for nm in names[len(pos) - 1:]:
            if nm in kws:
                pos.append(kws.pop(nm))
            else:
                break
        if not kws:
            return Sym("call:handle", tuple(pos))
    return t


def _current_runtime_callers(run: Run):
    """(qualname, line) of every call of the function that reads the thread -> runtime table for the current thread."""
    m, rt = _rt(run)
    cur = current_runtime_reader(run)[0]
    for q, fi in ([] if cur is not None else run.repo.functions.items()):
        # the reader: takes no argument and hands back what the table holds (or now holds) for the thread
        if fi.module is m and not (fi.node.args.args or fi.node.args.posonlyargs or fi.node.args.kwonlyargs) and any(
                isinstance(r_, ast.Return) and r_.value is not None and any(
                    isinstance(x, ast.Call) and isinstance(x.func, ast.Attribute) and x.func.attr in ("setdefault", "get") and isinstance(x.func.value, ast.Name)
                    and x.func.value.id == TABLE for x in ast.walk(r_.value)) for r_ in ast.walk(fi.node)):
            cur = fi
    if cur is None:
        for q, fi in run.repo.functions.items():
            if fi.module is m and not (fi.node.args.args or fi.node.args.posonlyargs) and any(
                    isinstance(x, ast.Call) and isinstance(x.func, ast.Attribute) and x.func.attr == "setdefault" and isinstance(x.func.value, ast.Name)
                    and x.func.value.id == TABLE for x in ast.walk(fi.node)):
                cur = fi
    if cur is None:
        return None, []
    out = []
    for mm, cls, fn, q in iter_functions(run.repo):
        if mm.name.startswith("labrea.mypy") or fn is cur.node:
            continue
        # (``current_runtime().handle(…)`` / ``current_runtime().run(…)`` use the runtime found at that very moment and keep nothing: that
        # is what handle() and Request.run are — spelled out in place)
        direct = {id(c.func.value) for c in astu.calls_in(fn) if isinstance(c.func, ast.Attribute) and c.func.attr in ("handle", "run") and isinstance(c.func.value, ast.Call)}
        for c in astu.calls_in(fn):
            r_ = run.repo.resolve_expr(mm, c.func) if isinstance(c.func, (ast.Name, ast.Attribute)) else None
            if r_ and r_[0] == "func" and r_[1] is cur:
                out.append((q + ("#used at once" if id(c) in direct else ""), c.lineno))
    return cur, out


def rule_HI(run: Run) -> RuleResult:
    res = RuleResult("R-HI")
    m, rt = _rt(run)
    nec = "deriving a runtime never alters the runtime it derives from: handlers are immutable after construction (C14)"
    n = 0
    for mm, cls, fn, q in iter_functions(run.repo):
        for s in astu.walk_no_nested(fn):
            if isinstance(s, (ast.Assign, ast.AugAssign, ast.AnnAssign, ast.Delete)):
                tgts = s.targets if isinstance(s, (ast.Assign, ast.Delete)) else [s.target]
                for t in tgts:
                    if isinstance(t, ast.Attribute) and t.attr == "handlers":
                        n += 1
                        ok = q.endswith("Runtime.__init__") and isinstance(s, ast.Assign)
                        res.add(f"{q}:assigns .handlers", ok, mm.relpath, s.lineno,
                                "assigned once, in __init__ (its value is judged below)" if ok else f"{ast.unparse(s)[:80]}", nec)
                    if isinstance(t, ast.Subscript) and isinstance(t.value, ast.Attribute) and t.value.attr == "handlers":
                        n += 1
                        res.add(f"{q}:item store into .handlers", False, mm.relpath, s.lineno, ast.unparse(s)[:80], nec)
            if isinstance(s, ast.Call) and isinstance(s.func, ast.Attribute) and s.func.attr in MUT and isinstance(s.func.value, ast.Attribute) and s.func.value.attr == "handlers":
                n += 1
                res.add(f"{q}:{s.func.attr} on .handlers", False, mm.relpath, s.lineno, ast.unparse(s)[:80], nec)
    if n == 0:
        hp_ = rt.find_method("handlers")
        if hp_ is not None and any(ast.unparse(d_) == "property" for d_ in hp_[1].decorator_list):
            # the table became a computed property: nothing assigns it, and what handle() builds from is judged below as before
            res.notes.append("Runtime.handlers is a property: no assignment to judge")
        else:
            raise AnalysisError("Runtime.handlers is never assigned (anchor vanished)")
    # the current runtime is looked up at the moment a request is issued or a runtime is derived — by Request.run and the
    # module-level handle(), nowhere else: code that captures it (in a closure, on an object) serves later requests from a scope
    # that may have ended, and code that enters it interleaves with the caller's own with-blocks
    cur, callers = _current_runtime_callers(run)
    if cur is None:
        raise AnalysisError("the function that reads the current thread's runtime was not found (anchor vanished)")
    for q, line in callers:
        at_once = q.endswith("#used at once")
        q = q.split("#")[0]
        ok = q.endswith("Request.run") or q == f"{m.name}.handle" or at_once
        res.add(f"{q}:reads the current runtime", ok, run.repo.functions[q].module.relpath if q in run.repo.functions else m.relpath, line,
                "at the moment of the request / of the derivation" if ok else
                f"{cur.name}() called outside Request.run and handle(): the runtime found now is used (or entered) later, when another scope may be active",
                "a request is served by the runtime that is current when it is issued (C14); capturing the current runtime moves that moment")
    if not callers:
        raise AnalysisError(f"no caller of {cur.name}() found (Request.run and handle expected; anchor vanished)")
    for role, hit in (("Request.run", any(q.endswith("Request.run") for q, _ in callers)), (f"{m.name}.handle", any(q == f"{m.name}.handle" for q, _ in callers))):
        if not hit:
            # (a look-up routed through a helper is followed by the term-based obligations below; here only the direct reader is known)
            res.notes.append(f"{role} does not call {cur.name}() directly")
    # installing handlers is the user's business: no library function enters a runtime (with handle(...) / disabled() / Runtime(...))
    # on its own — inside such a block the user's handlers for the re-bound request types are shadowed
    n_with = 0
    for mm, cls, fn, q in iter_functions(run.repo):
        if mm.name.startswith("labrea.mypy"):
            continue
        # (a runtime made first and entered later — ``silenced = disabled(); …; with silenced:`` also from a nested function — or
        # entered through an exit stack — ``stack.enter_context(handle(…))`` — is entered by the library all the same)
        made_here = {}
        for st_ in ast.walk(fn):
            if isinstance(st_, ast.Assign) and len(st_.targets) == 1 and isinstance(st_.targets[0], ast.Name) and isinstance(st_.value, ast.Call):
                made_here.setdefault(st_.targets[0].id, []).append(st_.value)
        entered = []
        for w in ast.walk(fn):
            if isinstance(w, (ast.With, ast.AsyncWith)):
                for it in w.items:
                    ce = it.context_expr
                    if isinstance(ce, ast.Name) and len(made_here.get(ce.id, [])) == 1 and ce.id not in {a_.arg for a_ in fn.args.posonlyargs + fn.args.args + fn.args.kwonlyargs}:
                        entered.append((w, made_here[ce.id][0]))
                    elif w in list(astu.walk_no_nested(fn)):
                        entered.append((w, ce))
            elif isinstance(w, ast.Call) and isinstance(w.func, ast.Attribute) and w.func.attr == "enter_context" and len(w.args) == 1:
                entered.append((w, w.args[0]))
        for w, ce in entered:
            if True:
                f0 = ce.func if isinstance(ce, ast.Call) else ce
                r_ = astu.resolve_in_function(run.repo, mm, fn, f0) if isinstance(f0, (ast.Name, ast.Attribute)) else None
                tgt = None
                if r_ and r_[0] == "func" and (r_[1].name in ("handle", "disabled") or r_[1] is cur):
                    tgt = r_[1].qualname
                elif r_ and r_[0] == "class" and (r_[1] is rt or r_[1].is_subclass_of(rt.qualname)):
                    tgt = r_[1].qualname
                elif isinstance(f0, ast.Attribute) and f0.attr in ("handle", "disabled") and isinstance(ce, ast.Call):
                    r2 = run.repo.resolve_expr(mm, f0.value) if isinstance(f0.value, (ast.Name, ast.Attribute)) else None
                    if r2 and r2[0] == "module":
                        r3 = run.repo.resolve_name(run.repo.modules[r2[1]], f0.attr)
                        if r3 and r3[0] == "func":
                            tgt = r3[1].qualname
                if tgt is not None:
                    n_with += 1
                    res.add(f"{q}:enters a runtime of its own", False, mm.relpath, w.lineno,
                            f"with {ast.unparse(ce)[:50]} inside library code: handlers the caller installed for the re-bound request types are shadowed there",
                            "every operation of an evaluation is observable by a handler the user installed (C18); a library-made scope hides some of them")
    res.count("library_with_runtime", n_with)
    hf = rt.methods.get("handle")
    if hf is None:
        raise AnalysisError("Runtime.handle not found")
    hps = [p for p in _fn_paths(run, hf, rt) if p.status == "ret"]
    ok = bool(hps)
    d = []
    for p in hps:
        k = p.ret.key() if p.ret is not None else ""
        d.append(k[:70])
        # a new Runtime over a fresh dictionary that starts from this runtime's handlers; self.handlers itself is not written
        if not (k.startswith("new:Runtime(dict(dstar(attr:handlers(self))") and not any(e.kind == "store" and len(e.args) == 2 and "attr:handlers(self)" in e.args[0].key() for e in p.events)):
            ok = False
    res.add("labrea.runtime.Runtime.handle:returns Runtime({**self.handlers, overrides})", ok, m.relpath, hf.lineno, f"{d}", nec)
    init = rt.methods.get("__init__")
    ips = [p for p in _fn_paths(run, init, rt) if p.status == "ret"]
    okk = bool(ips)
    hp = [a.arg for a in init.args.args][1] if len(init.args.args) > 1 else "handlers"
    for p in ips:
        st = [e for e in p.events if e.kind == "store" and len(e.args) == 2 and e.args[0].key() == "self" and e.args[1].key() == Const("handlers").key()]
        if len(st) != 1 or st[0].target is None:
            okk = False
            continue
        k = st[0].target.key()
        # defaults first, the explicit handlers last (they win); nothing when no handlers were given
        if not (k.startswith("dict(") and k.find(D_KEY) >= 0 and (hp not in k or k.find(D_KEY) < k.rfind(hp))):
            okk = False
    res.add("labrea.runtime.Runtime.__init__:explicit handlers override defaults", okk, m.relpath, init.lineno, "handlers spread last", nec)
    # module-level handle() derives from the current runtime
    mh = run.repo.func("labrea.runtime.handle")
    mps = _fn_paths(run, mh.node, None)
    mp_ = [a.arg for a in mh.node.args.args]
    ok = bool(mps) and all(p.status == "ret" and p.ret is not None and cur_norm(run, positional_handle(run, p.ret).key()) == f"call:handle(<CUR>,{','.join(mp_)})" for p in mps)
    res.add("labrea.runtime.handle:derives from the current runtime", ok, m.relpath, mh.node.lineno, f"{[p.ret.key()[:80] if p.ret is not None else p.status for p in mps]}", nec)
    for modname, fname in (("labrea.cache", "disabled"), ("labrea.logging", "disabled")):
        fi = run.repo.functions.get(f"{modname}.{fname}")
        ok, why = fi is not None, "" if fi is not None else "not found"
        if fi is not None:
            amap_d = astu.single_assign_map(fi.node)

            def is_handle(e):
                e = astu.expand_locals(e, amap_d)
                return isinstance(e, ast.Call) and ast.unparse(e.func) in ("runtime.handle", "handle", "runtime.current_runtime().handle")

            yields = [y for y in astu.walk_no_nested(fi.node) if isinstance(y, (ast.Yield, ast.YieldFrom))]
            rets = [r for r in astu.walk_no_nested(fi.node) if isinstance(r, ast.Return) and r.value is not None]
            if yields:
                # generator-based context manager: the derived runtime must be left on every exit of the block,
                # i.e. the yield sits inside `with <derived runtime>:` or a try whose finally calls __exit__
                pm = astu.parent_map(fi.node)
                for y in yields:
                    cur, safe = y, False
                    while id(cur) in pm:
                        cur = pm[id(cur)]
                        if isinstance(cur, ast.With) and any(is_handle(i.context_expr) for i in cur.items):
                            safe = True
                        if isinstance(cur, ast.Try) and any(isinstance(c_, ast.Call) and isinstance(c_.func, ast.Attribute) and c_.func.attr == "__exit__"
                                                             for st_ in cur.finalbody for c_ in ast.walk(st_)):
                            safe = True
                    if not safe:
                        ok, why = False, "generator-based context manager: an exception in the block skips the restore of the previous runtime (no with / try-finally around the yield)"
            elif not rets:
                ok, why = False, "returns nothing"
            elif not all(is_handle(r.value) for r in rets):
                ok, why = False, f"returns {[ast.unparse(r.value)[:40] for r in rets]}"
        res.add(f"{modname}.{fname}:derived via runtime.handle()", ok, fi.module.relpath if fi else "", fi.node.lineno if fi else 0, why, nec)
    return res


# ------------------------------------------------------------------ R-EX
def rule_EX(run: Run) -> RuleResult:
    res = RuleResult("R-EX")
    m, rt = _rt(run)
    nec = "leaving a block, normally or by exception, restores the prior runtime and never swallows the exception (C14)"
    ex = rt.methods.get("__exit__")
    if ex is None:
        raise AnalysisError("Runtime.__exit__ not found")
    rets = [r for r in astu.walk_no_nested(ex) if isinstance(r, ast.Return) and r.value is not None and not (isinstance(r.value, ast.Constant) and r.value.value in (None, False))]
    res.add("labrea.runtime.Runtime.__exit__:never returns a truthy value", not rets, m.relpath, ex.lineno,
            "no return value" if not rets else f"returns {ast.unparse(rets[0].value)}", nec)
    # ... and no other context manager of the library hands back, as the verdict on the exception in flight, a value it did not decide
    # itself: `return self.request.run()` makes the handler's return value swallow the failure of the block (C12: a failed evaluation
    # then yields None, which a cache above stores).  A verdict is a constant, or a test (comparison, isinstance, not/and/or of tests)
    def _verdict(v, fn_) -> bool:
        if v is None or isinstance(v, ast.Constant) or isinstance(v, ast.Compare):
            return True
        if isinstance(v, ast.UnaryOp) and isinstance(v.op, ast.Not):
            return True
        if isinstance(v, ast.BoolOp):
            return all(_verdict(x, fn_) for x in v.values)
        if isinstance(v, ast.Call) and isinstance(v.func, ast.Name) and v.func.id in ("isinstance", "issubclass", "bool"):
            return v.func.id != "bool" or (len(v.args) == 1 and _verdict(v.args[0], fn_))
        if isinstance(v, ast.Call) and isinstance(v.func, ast.Attribute) and v.func.attr == "__exit__":
            return True         # the verdict of another context manager of the library (held to this rule itself)
        if isinstance(v, ast.Name):
            binds = [a_ for a_ in astu.walk_no_nested(fn_) if isinstance(a_, ast.Assign) and any(isinstance(t_, ast.Name) and t_.id == v.id for t_ in a_.targets)]
            others = [a_ for a_ in astu.walk_no_nested(fn_) if isinstance(a_, (ast.AugAssign, ast.AnnAssign, ast.NamedExpr, ast.For, ast.With)) and any(
                isinstance(z_, ast.Name) and z_.id == v.id and isinstance(z_.ctx, ast.Store) for z_ in ast.walk(a_))]
            return bool(binds) and not others and all(_verdict(a_.value, fn_) for a_ in binds)
        return False
    for ci_ in run.repo.classes.values():
        if ci_.module.name.startswith("labrea.mypy") or ci_ is rt:
            continue
        xfn = ci_.methods.get("__exit__")
        if xfn is None:
            continue
        bad_ = [r for r in astu.walk_no_nested(xfn) if isinstance(r, ast.Return) and not _verdict(r.value, xfn)]
        res.add(f"{ci_.qualname}.__exit__:never returns a value it did not decide itself", not bad_, ci_.module.relpath, (bad_[0] if bad_ else xfn).lineno,
                "returns constants / tests only" if not bad_ else f"returns {ast.unparse(bad_[0].value)[:60]}: whatever that yields decides whether the exception of the block is swallowed", nec)
    ps = [p for p in _fn_paths(run, ex, rt) if p.status == "ret"]
    ok = bool(ps)
    d = ""
    for p in ps:
        restores = [e for e in p.events if (e.kind == "store" and len(e.args) == 2 and e.args[0].key() == T_KEY)
                    or (e.kind == "call" and e.text == "pop" and e.target is not None and e.target.key() == T_KEY)]
        if not restores:
            ok = False
            d = f"a path of __exit__ skips the restore (conditions {[c[0] for c in p.conds]})"
    names = {a.arg for a in ex.args.args[1:]}
    uses_exc = [n for n in astu.walk_no_nested(ex) if isinstance(n, ast.Name) and n.id in names]
    if uses_exc:
        ok = False
        d = f"restore depends on the exception arguments ({uses_exc[0].id})"
    res.add("labrea.runtime.Runtime.__exit__:every path restores, independent of the exception", ok, m.relpath, ex.lineno, d or f"{len(ps)} paths, all restore", nec)
    en = rt.methods.get("__enter__")
    eps = _fn_paths(run, en, rt)
    ok = bool(eps)
    rs = []
    for p in eps:
        rs.append(p.ret.key() if p.status == "ret" and p.ret is not None else p.status)
        inst = [e for e in p.events if e.kind == "store" and len(e.args) == 2 and e.args[0].key() == T_KEY and e.target is not None and e.target.key() in SELF_KEYS
                and e.args[1].key() == f"index({OWN_THREAD})"]
        if p.status != "ret" or rs[-1] not in SELF_KEYS or not inst:
            ok = False
    res.add("labrea.runtime.Runtime.__enter__:installs self for the current thread and returns self", ok, m.relpath, en.lineno, f"returns {sorted(set(rs))}", nec)
    return res


# ------------------------------------------------------------------ R-LS
def rule_LS(run: Run) -> RuleResult:
    res = RuleResult("R-LS")
    repo = run.repo
    m, rt = _rt(run)
    nec = "shared tables are accessed only under their lock (C15)"
    # every access of the thread -> runtime table (and every write of the default-handler table), on every path
    # of every entry point with private helpers and helper classes inlined, happens while the module lock is held:
    # inside ``with lock:``, between lock.acquire() and lock.release(), or inside a context manager whose
    # __enter__ takes the lock and whose __exit__ releases it
    seen: Dict[tuple, list] = {}
    reached = set()         # (entry point, line of the access): accesses made through a shared private helper count once per entry point
    for q, fn, ci in _entries_of(run, m):
        for p in _paths_of(run, m, fn, ci):
            for e, meth, key, val, wr in _table_events(p, T_KEY):
                o = _owner_of(run, e.line, q)
                reached.add((q, e.line))
                s = seen.setdefault((o, e.line, TABLE, "access to"), [True, ()])
                s[0] = s[0] and LOCK_KEY in e.held
                s[1] = e.held
            for e, meth, key, val, wr in _table_events(p, D_KEY):
                if wr:
                    o = _owner_of(run, e.line, q)
                    s = seen.setdefault((o, e.line, DEFAULTS, "write to"), [True, ()])
                    s[0] = s[0] and LOCK_KEY in e.held
                    s[1] = e.held
    n_tab = 0
    for (o, line, tab, what), (ok, held) in sorted(seen.items()):
        n_tab += tab == TABLE
        res.add(f"{o}:{what} {tab} under lock", ok, m.relpath, line, f"held: {list(held)}", nec)
    if max(n_tab, len(reached)) < 5:
        raise AnalysisError(f"only {n_tab} accesses of {TABLE} found (6 confirmed by hand)")
    lockdef = m.names.get(LOCKNAME)
    ok = lockdef is not None and lockdef[0] == "var" and ast.unparse(lockdef[1]).startswith("threading.") and "Lock" in ast.unparse(lockdef[1])
    res.add("labrea.runtime.lock:is a threading lock", ok, m.relpath, 1, ast.unparse(lockdef[1]) if lockdef else "missing", nec)
    # the registry of per-object locks
    om = repo.modules.get(LOCKS_MODULE)
    ov = repo.cls("Overloaded")
    if om is None:
        raise AnalysisError(f"lock registry module {LOCKS_MODULE} not found")
    L_KEY = f"global<{LOCKS_MODULE}.{LOCKS_TABLE}>"
    LL_KEY = f"global<{LOCKS_MODULE}.{LOCKS_LOCK}>"
    # the registry is one way of giving every object its lock; a lock made in the constructor (and re-made on unpickling,
    # R-PL) is another — then there is no shared table to guard
    has_registry = bool(_find_lock_registry(run))
    if not has_registry:
        init_o = ov.methods.get("__init__")
        own = init_o is not None and any(e.kind == "store" and len(e.args) == 2 and e.args[0].key() == "self" and isinstance(e.args[1], Const) and e.target is not None
                                         and "Lock" in e.target.key() and "global<" not in e.target.key()
                                         for p in analyse_function(Ctx(repo), ov.module, init_o, cls=ov) for e in p.events)
        if not own:
            raise AnalysisError(f"no access of the lock registry {LOCKS_TABLE} found and Overloaded.__init__ makes no lock of its own (anchor vanished)")
        res.notes.append("no registry of per-object locks: Overloaded.__init__ makes the object's own lock")
    seen = {}
    for q, fn, ci in ([] if not has_registry else _entries_of(run, om) + [(q_, fi_.node, None) for q_, fi_ in repo.functions.items() if fi_.module is om and fi_.node.name == GET_LOCK]):
        for p in _paths_of(run, om, fn, ci):
            for e, meth, key, val, wr in _table_events(p, L_KEY):
                s = seen.setdefault((_owner_of(run, e.line, q, om), e.line), [True, ()])
                s[0] = s[0] and LL_KEY in e.held
                s[1] = e.held
    for (o, line), (ok, held) in sorted(seen.items()):
        res.add(f"{o}:access to {LOCKS_TABLE} under {LOCKS_LOCK}", ok, om.relpath, line, f"held: {list(held)}", nec)
    if not seen and has_registry:
        raise AnalysisError(f"no access of the lock registry {LOCKS_TABLE} found (anchor vanished)")
    # the overload table of an Overloaded object is replaced only while its own lock is held
    from .rules_switch import _lock_attrs
    from .interp import SELF
    ov_held = {f"Child({a})" for a in _lock_attrs(repo, ov)} or {"Child(_lock)"}
    ovm = ov.module
    for mn, fn in ov.methods.items():
        if mn in ("__init__", "__setstate__", "evaluate", "validate", "keys", "explain"):
            continue
        if any(ast.unparse(d) in ("property", "staticmethod", "classmethod") for d in fn.decorator_list):
            continue
        for p in analyse_method(Ctx(repo), ov, mn):
            for e in p.events:
                if e.kind in ("store", "delete") and len(e.args) == 2 and (
                        (e.args[0].key() == SELF.key() and e.args[1].key() == "Const('lookup')") or e.args[0].key() == "Child(lookup)"):
                    ok = any(h_ in e.held for h_ in ov_held)
                    res.add(f"{ov.qualname}.{mn}:write to Overloaded.lookup under self._lock", ok, ovm.relpath, e.line, f"held: {list(e.held)}", nec)
                if e.kind == "call" and e.text in MUT and e.target is not None and e.target.key() == "Child(lookup)":
                    ok = any(h_ in e.held for h_ in ov_held)
                    res.add(f"{ov.qualname}.{mn}:write to Overloaded.lookup under self._lock", ok, ovm.relpath, e.line, f"held: {list(e.held)} ({e.text})", nec)
    reg = ov.methods.get("register")
    if reg is None:
        raise AnalysisError("Overloaded.register not found")
    # the table register() replaces is read under the same lock: every read of self.lookup on its paths (whatever helper or
    # context manager takes the lock) happens while the object's lock is held
    rctx = Ctx(repo)
    rctx.track_reads = {"lookup"}
    n_reads = 0
    seen_reads = {}
    for p in analyse_method(rctx, ov, "register"):
        for e in p.events:
            if e.kind == "read" and e.text == "self.lookup":
                n_reads += 1
                s_ = seen_reads.setdefault(e.line, [True, ()])
                s_[0] = s_[0] and any(h_ in e.held for h_ in ov_held)
                s_[1] = e.held
    for line_, (ok, held_) in sorted(seen_reads.items()):
        res.add("labrea.overload.Overloaded.register:read of the table it replaces is under self._lock", ok, ovm.relpath, line_,
                f"held: {list(held_)}" + ("" if ok else " — the read-modify-write is not atomic: a concurrent registration made between the copy and the assignment is lost"), nec)
    if not any(e.kind == "store" and len(e.args) == 2 and e.args[0].key() == SELF.key() and e.args[1].key() == "Const('lookup')"
               for p in analyse_method(Ctx(repo), ov, "register") for e in p.events):
        res.add("labrea.overload.Overloaded.register:updates self.lookup", False, ovm.relpath, reg.lineno, "register no longer assigns self.lookup", nec)
    # the lock is per object and survives pickling by id
    gl = repo.functions.get(f"{LOCKS_MODULE}.{GET_LOCK}")
    ok = False
    if gl is not None:
        k = astu.param_names(gl.node, skip_self=False)[0]
        L = f"global<{LOCKS_MODULE}.{LOCKS_TABLE}>"
        gps = analyse_function(Ctx(repo), gl.module, gl.node)
        ok = bool(gps)
        for p in gps:
            if p.status != "ret" or p.ret is None:
                ok = False
                continue
            rk = p.ret.key()
            stored = [e.target.key() for e in p.events if e.kind == "store" and len(e.args) == 2 and e.args[0].key() == L and e.args[1].key() == f"index({k})" and e.target is not None]
            # the returned lock is the registry's entry for the key: read from it, put there by setdefault, or just stored under the key
            if not (rk.startswith(f"call:setdefault({L},{k},") or rk == f"getitem({L},{k})" or rk.startswith(f"call:get({L},{k}") or rk in stored):
                ok = False
    if has_registry:
        res.add("labrea.overload._get_lock:one lock per key, kept in the registry", ok, om.relpath, gl.node.lineno if gl else 0,
                "the returned lock is the registry's entry for the key", nec)
    return res


# ------------------------------------------------------------------ R-CW
def rule_CW(run: Run) -> RuleResult:
    res = RuleResult("R-CW")
    repo = run.repo
    nec = ("the overload table is replaced, never mutated in place: a reader that already took the table "
           "keeps a consistent snapshot, and concurrent registrations are not lost (C15, C07)")
    ov = repo.cls("Overloaded")
    n = 0
    for mm, cls, fn, q in iter_functions(repo):
        for s in astu.walk_no_nested(fn):
            if isinstance(s, (ast.Assign, ast.AugAssign, ast.Delete)):
                tgts = s.targets if isinstance(s, (ast.Assign, ast.Delete)) else [s.target]
                for t in tgts:
                    if isinstance(t, ast.Subscript) and isinstance(t.value, ast.Attribute) and t.value.attr == "lookup":
                        # Switch.lookup is a plain dict built in __init__; only Overloaded tables are shared
                        recv = ast.unparse(t.value.value)
                        if (cls is not None and cls.name == "Overloaded") or "overloads" in recv:
                            n += 1
                            res.add(f"{q}:in-place item store into the overload table", False, mm.relpath, s.lineno, ast.unparse(s)[:80], nec)
            if isinstance(s, ast.Call) and isinstance(s.func, ast.Attribute) and s.func.attr in MUT and isinstance(s.func.value, ast.Attribute) and s.func.value.attr == "lookup":
                recv = ast.unparse(s.func.value.value)
                if (cls is not None and cls.name == "Overloaded") or "overloads" in recv:
                    n += 1
                    res.add(f"{q}:in-place {s.func.attr} on the overload table", False, mm.relpath, s.lineno, ast.unparse(s)[:80], nec)
    # only the object itself re-binds its table: code elsewhere that assigns <something>.lookup = … (a saved snapshot written
    # back, a merged copy) does so outside the object's lock and overwrites registrations made in between
    for mm, cls, fn, q in iter_functions(repo):
        if mm.name.startswith("labrea.mypy"):
            continue
        for s_ in astu.walk_no_nested(fn):
            if isinstance(s_, (ast.Assign, ast.AugAssign, ast.AnnAssign)):
                for t in (s_.targets if isinstance(s_, ast.Assign) else [s_.target]):
                    if isinstance(t, ast.Attribute) and t.attr == "lookup" and not (isinstance(t.value, ast.Name) and t.value.id == astu.first_param(fn) and cls is not None):
                        n += 1
                        res.add(f"{q}:re-binds another object's overload table", False, mm.relpath, s_.lineno,
                                f"{ast.unparse(s_)[:80]}: the table of {ast.unparse(t.value)} is replaced from outside, without its lock", nec)
    reg = ov.methods.get("register")
    if reg is None:
        raise AnalysisError("Overloaded.register not found")
    rps = analyse_function(Ctx(repo), ov.module, reg, cls=ov)
    ps_ = astu.param_names(reg)
    ok = bool(rps)
    d = ""
    for p in rps:
        if p.status != "ret":
            continue
        st = [e for e in p.events if e.kind == "store" and len(e.args) == 2 and e.args[0].key() == "self" and e.args[1].key() == Const("lookup").key()]
        if len(st) != 1 or st[0].target is None:
            ok, d = False, f"{len(st)} assignments to self.lookup on a path"
            continue
        k = st[0].target.key()
        d = d or k
        # a fresh dictionary seeded with the old table that also maps key -> value (display, dict(...)/copy() + item store)
        # … whose added entries map the key (or every alias of a collection of keys) to the value given (as it is, or ensured)
        added = [f"item({ps_[0]},{ps_[1]})", f"item({ps_[0]},New(Value;value={ps_[1]}))", f"dstar(Coll({ps_[1]}))", f"dstar(Coll(New(Value;value={ps_[1]})))"]
        hit = next((a_ for a_ in added if a_ in k), None)
        if not (k.startswith("dict(") and "dstar(attr:lookup(self))" in k and hit is not None and k.index("dstar(attr:lookup(self))") < k.index(hit)):
            ok, d = False, k
    res.add("labrea.overload.Overloaded.register:assigns a fresh table {**self.lookup, key: value}", ok, ov.module.relpath, reg.lineno, d[:120], nec)
    # a key is one key: register() may take a *collection* of keys apart only when that collection cannot be a key itself (a
    # list, a set); a tuple or a frozenset is hashable — the natural key of a dispatch over two options — and is registered whole
    import re as _re_k
    split_ok, split_d, n_split = True, "the key is registered as it is", 0
    for p in rps:
        st = [e for e in p.events if e.kind == "store" and len(e.args) == 2 and e.args[0].key() == "self" and e.args[1].key() == Const("lookup").key() and e.target is not None]
        if not st:
            continue
        # the keys of the added entries: the key itself, or elements drawn from it
        from .interp import Coll as _Coll

        def key_terms(t, out):
            if isinstance(t, _Coll) and t.keyterm is not None:
                out.append(t.keyterm.key())
            for a_ in list(getattr(t, "args", ()) or ()) + list(getattr(t, "items", ()) or ()):
                key_terms(a_, out)
            return out
        kts = key_terms(st[0].target, [])
        if not any(f"elem({ps_[0]})" in k_ or f"elem(tuple({ps_[0]}))" in k_ or f"elem(list({ps_[0]}))" in k_ for k_ in kts):
            continue
        n_split += 1
        kinds = set()
        for k_, pol_ in Frame.atoms(p.conds).items():
            m_ = _re_k.match(r"call:isinstance\(" + _re_k.escape(ps_[0]) + r",(.*)\)$", k_)
            if m_ and pol_ is True:
                kinds |= {x.split(".")[-1] for x in _re_k.findall(r"(?:name|class|ext)<([^>]+)>", m_.group(1))}
        if not kinds or not kinds <= {"list", "set"}:
            split_ok = False
            split_d = f"the key is taken apart when it is a {sorted(kinds) or 'anything iterable'}: a tuple / frozenset key would be registered element by element"
        elif split_ok:
            split_d = f"taken apart only when it is a {sorted(kinds)} (unhashable, never a key itself)"
    res.add("labrea.overload.Overloaded.register:a hashable key is registered whole", split_ok, ov.module.relpath, reg.lineno, split_d,
            "an implementation registered under the elements of a tuple key is never selected by a dispatch that evaluates to that tuple (C05, C07)")
    ds = repo.cls("Dataset")
    r2 = ds.methods.get("register")
    ok = False
    if r2 is not None:
        r2p = astu.param_names(r2)
        dps = analyse_function(Ctx(repo), ds.module, r2, cls=ds)
        def _args(e):
            # (keyword arguments that hand a parameter of the same name on unchanged — ``replace=replace`` — are part of no obligation)
            return [a_.key() for a_ in e.args if not (a_.key().startswith("kw:") and a_.key() == f"kw:{a_.key()[3:].split('(')[0]}({a_.key()[3:].split('(')[0]})")]
        ok = bool(dps) and all(p.status == "ret" and [(e.target.key() if e.target is not None else "", _args(e)) for e in p.events if e.kind == "call" and e.text == "register"]
                               == [("attr:overloads(self)", r2p[:2])] for p in dps)
    res.add("labrea.dataset.Dataset.register:delegates to self.overloads.register(key, value)", ok, ds.module.relpath, r2.lineno if r2 else 0, "", nec)
    # Dataset.overload(alias)(definition): the one implementation object (the definition itself when it is a dataset, else
    # dataset(definition)) is registered under the alias, or under every element of a list of aliases, and handed back —
    # read off the paths of a probe call, whatever helpers normalise the alias or walk the keys
    ovl = ds.methods.get("overload")
    ok = False
    how_ovl = ""
    if ovl is not None:
        alias_p = astu.param_names(ovl)[0]
        probe = ast.parse(f"def __probe__(self, {alias_p}, definition):\n    return self.overload({alias_p})(definition)").body[0]
        for n_ in ast.walk(probe):
            if hasattr(n_, "lineno"):
                n_.lineno = n_.end_lineno = ovl.lineno
        pps = [p for p in analyse_function(Ctx(repo), ds.module, probe, cls=ds) if p.status == "ret"]
        reg_paths = 0
        ok = bool(pps)
        seen_alias_forms = set()
        for p in pps:
            regs = [e for e in p.events if e.kind == "call" and e.text == "register" and e.target is not None and e.target.key() == "attr:overloads(self)"]
            if not regs:
                continue
            reg_paths += 1
            def _pos(e):
                return [a_ for a_ in e.args if not a_.key().startswith("kw:")]      # (keyword extras — ``replace=…`` — aside)
            impls = {_pos(e)[1].key() for e in regs if len(_pos(e)) == 2}
            keys_ = {_pos(e)[0].key() for e in regs if _pos(e)}
            seen_alias_forms |= keys_
            if len(impls) != 1 or p.ret is None or p.ret.key() not in impls:
                ok, how_ovl = False, f"registers {sorted(impls)} and returns {p.ret.key()[:60] if p.ret is not None else None}: not one implementation object for all aliases"
            if not keys_ <= {alias_p, f"elem({alias_p})"} or any(getattr(e.args[0], "partial", False) for e in regs if e.args):
                ok, how_ovl = False, f"registered under {sorted(keys_)}"
            # one object for all aliases: it is built before the aliases are walked (a dataset(...) call inside the walk
            # builds a new dataset — with its own cache and effects — per alias)
            walk_at = [i_ for i_, e in enumerate(p.events) if e.kind == "iter" and e.target is not None and alias_p in e.target.key()]
            built_at = [i_ for i_, e in enumerate(p.events) if e.kind == "call" and e.text.endswith("dataset.dataset")]
            if walk_at and built_at and max(built_at) > min(walk_at):
                ok, how_ovl = False, "the implementation dataset is built inside the walk over the aliases: one dataset per alias"
        # a path that decorates without registering (apart from abstract zero-length lists) would lose the overload
        lost = [p for p in pps if not any(e.kind == "call" and e.text == "register" for e in p.events)
                and cond_pol(p.conds, f"call:isinstance({alias_p},name<list>)") is False]
        if lost:
            ok, how_ovl = False, "a single alias is decorated without being registered"
        ok = ok and reg_paths >= 2 and seen_alias_forms == {alias_p, f"elem({alias_p})"}
        how_ovl = how_ovl or f"{reg_paths} registering paths; keys {sorted(seen_alias_forms)}"
    res.add("labrea.dataset.Dataset.overload:registers the implementation under every alias", ok, ds.module.relpath, ovl.lineno if ovl else 0, how_ovl, nec)
    # a single alias is registered as itself, a list of aliases element by element (read off the decorator's paths)
    ok_a = ovl is not None
    why_a = ""
    if ovl is not None:
        from .interp import analyse_method_result_call
        from .terms import Sym as _Sym
        alias_p = astu.param_names(ovl)[0]
        seen_kinds = set()
        for p in analyse_method_result_call(Ctx(repo), ds, "overload", [_Sym("func")]):
            if p.status != "ret":
                continue
            is_list = Frame.atoms(p.conds).get(f"call:isinstance({alias_p},name<list>)")
            keys_ = [e.args[0].key() for e in p.events if e.kind == "call" and e.text.endswith("register") and e.args]
            for k_ in keys_:
                want = f"elem({alias_p})" if is_list else alias_p
                seen_kinds.add(bool(is_list))
                if is_list is None or k_ != want:
                    ok_a, why_a = False, f"with isinstance(alias, list)={is_list} the implementation is registered under {k_}"
        ok_a = ok_a and seen_kinds == {True, False}
    res.add("labrea.dataset.Dataset.overload:a single alias is registered whole, a list element-wise", ok_a, ds.module.relpath, ovl.lineno if ovl else 0,
            why_a or "alias -> [alias] unless it is a list", nec)
    # the dataset built for a plain-function implementation takes nothing over from the dataset it implements: the parent's
    # wrappers (effects, callback, pre-set options, cache) already surround whichever implementation the dispatch selects
    if ovl is not None:
        ok_p, why_p, n_built = True, "", 0
        for p in analyse_method_result_call(Ctx(repo), ds, "overload", [_Sym("func")]):
            for e in p.events:
                if e.kind == "call" and e.text in ("labrea.dataset.dataset", "dataset", "labrea.dataset.Dataset", "new Dataset") and e.args:
                    n_built += 1
                    carried = [a.key()[:50] for a in e.args[1:] if "Child(" in a.key()]
                    if carried or e.args[0].key() != "func":
                        ok_p = False
                        why_p = f"built as dataset({', '.join(a.key()[:40] for a in e.args)}): {carried or e.args[0].key()[:40]} comes from the dataset being overloaded (line {e.line})"
        res.add("labrea.dataset.Dataset.overload:the implementation dataset carries nothing of its parent", ok_p and n_built > 0, ds.module.relpath, ovl.lineno,
                why_p or "dataset(func): effects, callback, options and cache of the parent apply around the selected implementation, once",
                "what the parent attaches (effects, callback, pre-set options) wraps the selected implementation already; an implementation that carries "
                "a copy applies it twice for one body execution (C02, C07)")
    sd = ds.methods.get("set_dispatch")
    ok = False
    if sd is not None:
        amap_s = astu.single_assign_map(sd)
        for st in astu.walk_no_nested(sd):
            if isinstance(st, ast.Assign) and ast.unparse(st.targets[0]) == "self.overloads":
                v = astu.inline_helpers(astu.expand_locals(st.value, amap_s, keep=frozenset(astu.param_names(sd))), astu.typed_attr_resolver(repo, ds))
                for c in [v] + list(astu.calls_in(v)):
                    if isinstance(c, ast.Call) and astu.short_name(c) == "Overloaded":
                        t = ast.unparse(c)
                        ok = "self.overloads.lookup" in t and "self.overloads.default" in t and bool(c.args) and ast.unparse(c.args[0]) == astu.param_names(sd)[0]
    res.add("labrea.dataset.Dataset.set_dispatch:keeps registered overloads and default", ok, ds.module.relpath, sd.lineno if sd else 0, "", nec)
    return res


# ------------------------------------------------------------------ R-TI
def rule_TI(run: Run) -> RuleResult:
    res = RuleResult("R-TI")
    m, rt = _rt(run)
    nec = "a thread only ever reads or writes its own slot of the thread -> runtime table (C14, C15)"
    sites = {}
    for a in _accesses(run):
        kt = a.key.key() if a.key is not None else None
        own = kt == OWN_THREAD
        params = [x.arg for x in a.fn.args.args]
        parent_read = a.entry.endswith(".inherit") and not a.write and bool(params) and kt == params[0]
        k = (_owner_of(run, a.event.line, a.entry), a.event.line, a.method)
        good = own or parent_read
        if k not in sites or (not good and sites[k][0]):
            sites[k] = (good, kt, a, parent_read)
    for (entry, line, method), (good, kt, a, parent_read) in sorted(sites.items()):
        shown = "the current thread" if kt == OWN_THREAD else (kt or "no key (whole table)")
        res.add(f"{entry}:{TABLE} indexed by {shown}", good, m.relpath, line,
                ("write" if a.write else "read") + f" ({method}) keyed by {shown}" + (" (the parent's slot is only read)" if parent_read else ""), nec)
    # (an access made through a shared private helper counts once per entry point that reaches it)
    if max(len(sites), len({(a.entry, a.event.line, a.method) for a in _accesses(run)})) < 5:
        raise AnalysisError(f"only {len(sites)} keyed accesses of {TABLE} found")
    # no other module reaches into the table
    for mm in run.repo.modules.values():
        if mm is m:
            continue
        for n_ in ast.walk(mm.tree):
            if (isinstance(n_, ast.Name) and n_.id == TABLE) or (isinstance(n_, ast.Attribute) and n_.attr == TABLE) or (isinstance(n_, ast.alias) and n_.name == TABLE):
                res.add(f"{mm.name}:uses {TABLE} directly", False, mm.relpath, getattr(n_, "lineno", 0), "the table is private to labrea/runtime.py", nec)
    inh = [a for a in _accesses(run) if a.entry.endswith(".inherit")]
    ok = False
    for a in inh:
        params = [x.arg for x in a.fn.args.args]
        if a.write and a.method in ("__setitem__", "update") and a.key is not None and a.key.key() == OWN_THREAD and a.value is not None and params \
                and (a.value.key().startswith(f"call:get({T_KEY},{params[0]}") or (a.value.key() == f"getitem({T_KEY},{params[0]})"
                                                                                      and _atoms(a.path.conds).get(f"cmp:In({params[0]},{T_KEY})") is True)):
            ok = True       # (``table[parent] if parent in table else Runtime()`` is table.get(parent, Runtime()) path by path)
    ih = run.repo.func("labrea.runtime.inherit")
    # … on every path: an inherit() that leaves an existing entry in place keeps the runtime a reused worker thread was given earlier
    d_inh = ""
    for p in _paths_of(run, m, ih.node, None):
        if p.status != "ret":
            continue
        # (a path on which ``table.get(parent, Runtime())`` came out None does not exist: the table holds no None — R-NR — and the default is an object)
        if any(v_ is True and k_.startswith(f"cmp:Is(call:get({T_KEY},") and ",new:Runtime(" in k_ and k_.endswith(",Const(None))") for k_, v_ in _atoms(p.conds).items()):
            continue
        # (setdefault does not count: it leaves an entry that is already there)
        wrote = any(wr and meth in ("__setitem__", "update") and key is not None and key.key() == OWN_THREAD for e, meth, key, val, wr in _table_events(p, T_KEY))
        if not wrote:
            ok = False
            d_inh = f"a returning path leaves the caller's slot as it is — setdefault keeps an entry the thread already has (conditions {[c[0][:40] for c in p.conds]})"
    res.add("labrea.runtime.inherit:copies the parent's current runtime into the caller's slot", ok, m.relpath, ih.node.lineno, d_inh, nec)
    return res
