"""Selection shape, order, evaluation order (3.5); overloads/interfaces (3.6);
errors (3.7)."""
from __future__ import annotations

import ast
import re
from typing import Dict, List, Optional, Set

from . import astu
from .facts import Run, cond_pol, normal
from .interp import Ctx, Frame, analyse_function, analyse_method, analyse_method_result_call, annotation_kind, exc_is_subclass
from .model import AnalysisError, iter_functions
from .report import RuleResult
from .terms import Child, Const, Fn, New, Seq, Sym, Term, Val


def _unwrap_depends(r):
    """(inner node, [dependency terms]) of a _DependsOn(...) wrapper term."""
    from .terms import Seq
    if isinstance(r, New) and {"evaluatable", "depends"} <= set(r.attrs):      # the dependency-carrying wrapper of conditional.py
        d = r.attrs.get("depends")
        from .interp import Coll
        if isinstance(d, Coll):
            d = d.elem
            deps = list(d.args) if isinstance(d, Sym) and d.head == "oneof" else [d]
        else:
            deps = list(d.items) if isinstance(d, Seq) else ([d] if d is not None else [])
        flat = []
        for x in deps:
            if isinstance(x, Sym) and x.head == "star" and x.args and isinstance(x.args[0], Seq):
                flat.extend(x.args[0].items)
            else:
                flat.append(x)
        return r.attrs.get("evaluatable"), flat
    return r, []


class Selector:
    """The private helper that all four operations of a class go through: a method of the class or a
    module-level function that is handed ``self``."""
    __slots__ = ("kind", "name", "qualname", "module", "fn", "self_param")

    def __init__(self, kind, name, qualname, module, fn, self_param=None):
        self.kind, self.name, self.qualname, self.module, self.fn, self.self_param = kind, name, qualname, module, fn, self_param


def _helpers_reached(repo, ci, op: str) -> Dict[str, Selector]:
    """Private helpers reached from ``ci.op``: methods through self./cls./Class., module-level private functions
    of the repository by name (whichever module they live in)."""
    out: Dict[str, Selector] = {}
    r0 = ci.find_method(op)
    if r0 is None:
        return out
    work = [(r0[0].module, r0[1], True)]
    seen = set()
    while work:
        m, fn, is_method = work.pop()
        if id(fn) in seen:
            continue
        seen.add(id(fn))
        for x in ast.walk(fn):
            # ``getattr(self, "name")`` / ``getattr(self, self._chooser)`` with ``_chooser = "name"`` in the class body is ``self.name``
            if isinstance(x, ast.Call) and isinstance(x.func, ast.Name) and x.func.id == "getattr" and len(x.args) >= 2 and isinstance(x.args[0], ast.Name) and x.args[0].id == "self":
                nm_ = x.args[1].value if isinstance(x.args[1], ast.Constant) and isinstance(x.args[1].value, str) else None
                if nm_ is None and isinstance(x.args[1], ast.Attribute) and isinstance(x.args[1].value, ast.Name) and x.args[1].value.id == "self":
                    for kc in ci.mro():
                        vals_ = [st.value for st in kc.node.body if isinstance(st, (ast.Assign, ast.AnnAssign)) and getattr(st, "value", None) is not None and any(
                            isinstance(t_, ast.Name) and t_.id == x.args[1].attr for t_ in (st.targets if isinstance(st, ast.Assign) else [st.target]))]
                        if vals_:
                            if len(vals_) == 1 and isinstance(vals_[0], ast.Constant) and isinstance(vals_[0].value, str):
                                nm_ = vals_[0].value
                            break
                if nm_ is not None:
                    x = ast.Attribute(value=ast.Name(id="self", ctx=ast.Load()), attr=nm_, ctx=ast.Load())
            if isinstance(x, ast.Attribute) and isinstance(x.value, ast.Name) and x.value.id in ("self", "cls", ci.name):
                r = ci.find_method(x.attr)
                if r is not None and x.attr not in ("evaluate", "validate", "keys", "explain") and not (x.attr.startswith("__") and x.attr.endswith("__")) \
                        and not any(ast.unparse(d) == "property" for d in r[1].decorator_list):
                    out.setdefault(f"{ci.qualname}.{x.attr}", Selector("method", x.attr, f"{ci.qualname}.{x.attr}", r[0].module, r[1]))
                    work.append((r[0].module, r[1], True))
            elif isinstance(x, ast.Call) and isinstance(x.func, ast.Name) and x.func.id.startswith("_"):
                rr = repo.resolve_name(m, x.func.id)
                if rr and rr[0] == "func":
                    fi = rr[1]
                    sp = None
                    ps = [a.arg for a in fi.node.args.posonlyargs + fi.node.args.args]
                    for k_, a in enumerate(x.args):
                        if isinstance(a, ast.Name) and a.id == "self" and k_ < len(ps):
                            sp = ps[k_]
                    for kw_ in x.keywords:
                        if isinstance(kw_.value, ast.Name) and kw_.value.id == "self" and kw_.arg:
                            sp = kw_.arg
                    if fi.qualname not in out or (sp and out[fi.qualname].self_param is None):
                        out[fi.qualname] = Selector("func", fi.name, fi.qualname, fi.module, fi.node, sp)
                    work.append((fi.module, fi.node, False))
    return out


def _selector(repo, ci) -> Optional[Selector]:
    """The outermost private helper common to evaluate/validate/keys/explain — the selector of a Switch / Coalesce."""
    common = None
    table: Dict[str, Selector] = {}
    for op in ("evaluate", "validate", "keys", "explain"):
        reach = _helpers_reached(repo, ci, op)
        for k, v in reach.items():
            if k not in table or (v.self_param and not table[k].self_param):
                table[k] = v
        common = set(reach) if common is None else (common & set(reach))
    if not common:
        return None
    inner = set()
    for q in common:
        s = table[q]
        # helpers reached from this one
        sub = {}
        work = [(s.module, s.fn)]
        seen = set()
        while work:
            m, fn = work.pop()
            if id(fn) in seen:
                continue
            seen.add(id(fn))
            for x in ast.walk(fn):
                if isinstance(x, ast.Attribute) and isinstance(x.value, ast.Name) and x.value.id in ("self", "cls", ci.name) and f"{ci.qualname}.{x.attr}" in common:
                    if f"{ci.qualname}.{x.attr}" != q:
                        inner.add(f"{ci.qualname}.{x.attr}")
                        work.append((table[f"{ci.qualname}.{x.attr}"].module, table[f"{ci.qualname}.{x.attr}"].fn))
                elif isinstance(x, ast.Call) and isinstance(x.func, ast.Name):
                    rr = repo.resolve_name(m, x.func.id)
                    if rr and rr[0] == "func" and rr[1].qualname in common and rr[1].qualname != q:
                        inner.add(rr[1].qualname)
                        work.append((rr[1].module, rr[1].node))
    outer = sorted(common - inner) or sorted(common)
    return table[outer[0]]


def _common_selector(ci) -> Optional[str]:
    """Name of the selector when it is a private method of the class (see _selector)."""
    s = _selector(ci.repo, ci)
    return s.name if s is not None and s.kind == "method" else None


def selector_paths(repo, ci, s: Selector):
    """Interpreter paths of the selector with ``self`` the abstract object of the class."""
    if s.kind == "method":
        return analyse_method(Ctx(repo), ci, s.name)
    from .interp import SELF, analyse_function
    ctx = Ctx(repo)
    ctx.root_cls = ci
    env = {s.self_param: SELF} if s.self_param else {}
    return analyse_function(ctx, s.module, s.fn, env=env)


# ------------------------------------------------------------------ R-SO
def rule_SO(run: Run) -> RuleResult:
    res = RuleResult("R-SO")
    repo = run.repo
    nec = ("switch must take the branch registered under the dispatch value, the default on dispatch "
           "failure or miss, and fail without default; case-when the first matching case; coalesce "
           "the first member that validates and evaluates (C05, C07)")
    # ---- Switch._lookup
    sw = repo.cls("Switch")
    # the selector is the private method that all four operations of Switch go through (whatever its name)
    sel_s = _selector(repo, sw)
    if sel_s is None:
        res.add("labrea.conditional.Switch:one selector behind evaluate/validate/keys/explain", False, sw.module.relpath, sw.node.lineno,
                "the four operations of Switch no longer choose the branch through one shared helper", nec)
        return res
    sel = sel_s.name
    f = sel_s.module.relpath
    ln = sel_s.fn.lineno
    ps = selector_paths(repo, sw, sel_s)
    res.count("paths", len(ps))
    DISP = "Val(evaluate,Child(dispatch))"
    ok_idx = ok_hit = ok_miss = ok_fail = ok_end = True
    d_idx = d_hit = d_miss = d_fail = d_end = ""
    saw_hit = saw_miss_default = saw_miss_raise = saw_fail_default = saw_fail_raise = False
    for p in ps:
        failed_dispatch = any(e.kind == "op" and e.failed and isinstance(e.target, Child) and e.target.path == "dispatch" for e in p.events)
        member = cond_pol(p.conds, f"cmp:In({DISP},Child(lookup))")
        if p.status == "ret":
            r = p.ret
            if isinstance(r, Const):
                ok_end = False
                d_end = "a path returns a constant instead of a node"
                continue
            inner, deps = _unwrap_depends(r)
            dep = Child("dispatch") if Child("dispatch") in deps else None
            if isinstance(inner, Child) and inner.path == "lookup[*]":
                saw_hit = True
                idx = getattr(inner, "index", None)
                if idx is None or idx.key() != DISP:
                    ok_idx = False
                    d_idx = f"lookup indexed by {idx.key() if idx else None}, not by the dispatch value"
                if member is not True or failed_dispatch:
                    ok_hit = False
                    d_hit = "registered branch returned without a successful membership test of the dispatch value"
                if dep != Child("dispatch"):
                    ok_hit = False
                    d_hit = "selected branch is not wrapped so that the dispatch's keys are part of the result's keys"
            elif isinstance(inner, Child) and inner.path == "default":
                if failed_dispatch:
                    saw_fail_default = True
                else:
                    saw_miss_default = True
                    if member is not False:
                        ok_miss = False
                        d_miss = "default returned although the dispatch value is registered"
                    if dep != Child("dispatch"):
                        ok_miss = False
                        d_miss = "default (on miss) is not wrapped with the dispatch dependency"
                has_def = cond_pol(p.conds, "cmp:Is(Child(default),Const(MISSING))") is False
                if not has_def:
                    ok_miss = False
                    d_miss = "default returned without testing that a default exists"
            else:
                ok_end = False
                d_end = f"a path returns {r.key()[:80]}"
        elif p.status == "raise":
            typ = p.exc[0] if p.exc else "?"
            no_def = cond_pol(p.conds, "cmp:Is(Child(default),Const(MISSING))") is True
            if failed_dispatch:
                saw_fail_raise = True
                if not no_def:
                    ok_fail = False
                    d_fail = "dispatch failure re-raised although a default exists"
            else:
                saw_miss_raise = True
                if typ.split(".")[-1] != "SwitchError" or not no_def or member is not False:
                    ok_miss = False
                    d_miss = f"miss raises {typ} (default missing={no_def}, member={member})"
    if not (saw_hit and saw_miss_default and saw_miss_raise and saw_fail_default and saw_fail_raise):
        ok_end = False
        d_end = d_end or f"missing outcome: hit={saw_hit} miss->default={saw_miss_default} miss->error={saw_miss_raise} failure->default={saw_fail_default} failure->reraise={saw_fail_raise}"
    res.add("labrea.conditional.Switch._lookup:lookup indexed by the dispatch value", ok_idx, f, ln, d_idx or "self.lookup[key] with key = self.dispatch.evaluate(options)", nec)
    res.add("labrea.conditional.Switch._lookup:registered branch only when the value is registered", ok_hit, f, ln, d_hit or "hit branch guarded by membership, wrapped with _DependsOn(…, dispatch)", nec)
    res.add("labrea.conditional.Switch._lookup:default exactly on miss, SwitchError without default", ok_miss, f, ln, d_miss or "miss -> default or SwitchError", nec)
    res.add("labrea.conditional.Switch._lookup:dispatch failure -> default or re-raise", ok_fail, f, ln, d_fail or "failure -> default or the original error", nec)
    res.add("labrea.conditional.Switch._lookup:all five outcomes present, each ends in a node or a raise", ok_end, f, ln, d_end or "5 outcomes", nec)
    for op in ("evaluate", "validate", "keys", "explain"):
        fn = sw.method(op)
        ok = sel_s.qualname in _helpers_reached(repo, sw, op)
        res.add(f"labrea.conditional.Switch.{op}:goes through _lookup", ok, f, fn.lineno, f"same selector ({sel}) in all four operations", nec)

    # ---- CaseWhen._evaluate
    cw = repo.cls("CaseWhen")
    # the case selection is the function bound over the dispatch value (the func of the Bind every operation forwards to)
    csel = None
    for p_ in run.paths(cw, "evaluate"):
        for e_ in p_.events:
            if e_.kind in ("op", "unfold") and not e_.via and isinstance(e_.target, New) and e_.target.cls.name == "Bind":
                fn_t = e_.target.attrs.get("func")
                if isinstance(fn_t, Fn) and isinstance(fn_t.node, ast.FunctionDef) and cw.find_method(fn_t.node.name):
                    csel = fn_t.node.name
    if csel is None:
        raise AnalysisError("CaseWhen.evaluate does not forward to dispatch.bind(<case selection method>) (anchor vanished)")
    f = cw.module.relpath
    ln = cw.find_method(csel)[1].lineno
    ps = analyse_method(Ctx(repo, unroll=2), cw, csel)
    res.count("paths", len(ps))
    COND = "valuecall(Val(evaluate,Child(cases[*].0)),value)"
    ok_first = ok_def = ok_err = True
    d_first = d_def = d_err = ""
    saw = {"case": False, "default": False, "error": False}
    for p in ps:
        tests = [(c[1] != c[2].startswith("unop:Not(")) for c in p.conds if COND in c[2]]
        if p.status == "ret":
            r, cdeps = _unwrap_depends(p.ret)
            if isinstance(r, Child) and r.path == "cases[*].1":
                saw["case"] = True
                if not tests or tests[-1] is not True or any(tests[:-1]):
                    ok_first = False
                    d_first = f"case result returned with condition outcomes {tests} (must be: all earlier False, last True)"
                # the conditions the choice depends on include the one that matched: when they are given as a prefix of the
                # conditions (a slice, islice) its length must be the position of the match plus one
                dterm = p.ret.attrs.get("depends") if isinstance(p.ret, New) else None
                if dterm is not None and getattr(dterm, "partial", False):
                    pre = getattr(dterm, "prefix", None)
                    if pre is None or pre.key() != "binop:Add(position,Const(1))":
                        ok_first = False
                        d_first = (f"the dependencies of the chosen result are the first {pre.key() if pre is not None else '?'} conditions: "
                                   "that prefix must end with the condition that matched (position + 1)")
            elif isinstance(r, Child) and r.path == "default":
                saw["default"] = True
                if any(tests):
                    ok_def = False
                    d_def = "default returned although a condition held"
                if cond_pol(p.conds, "cmp:Is(Child(default),Const(MISSING))") is not False:
                    ok_def = False
                    d_def = "default returned without testing that it exists"
            else:
                ok_first = False
                d_first = f"a path returns {r.key()[:60]}"
        elif p.status == "raise":
            saw["error"] = True
            if any(tests) or (p.exc and p.exc[0].split(".")[-1] != "CaseWhenError"):
                ok_err = False
                d_err = f"raises {p.exc} with condition outcomes {tests}"
    if not all(saw.values()):
        ok_err = False
        d_err = d_err or f"outcomes present: {saw}"
    # the default is consulted after the cases, not instead of them
    def_paths = [p for p in ps if p.status == "ret" and isinstance(_unwrap_depends(p.ret)[0], Child) and _unwrap_depends(p.ret)[0].path == "default"]
    if def_paths and not any([c for c in p.conds if COND in c[2]] for p in def_paths):
        ok_def = False
        d_def = "the default is returned without any condition having been tested (before the cases)"
    res.add("labrea.conditional.CaseWhen._evaluate:first condition that holds selects its own result", ok_first, f, ln, d_first or "result of the same tuple at the first success", nec)
    res.add("labrea.conditional.CaseWhen._evaluate:default only when no condition held", ok_def, f, ln, d_def or "after the loop", nec)
    res.add("labrea.conditional.CaseWhen._evaluate:CaseWhenError when nothing applies", ok_err, f, ln, d_err or "raise after the loop without default", nec)
    # a predicate answers in Python's sense of truth (a match object, a count, a numpy bool …): the test on its answer is the answer
    # itself (possibly negated or passed through bool()), never a comparison with True/False that only the singletons pass
    TRUTH_FORMS = (COND, f"unop:Not({COND})", f"call:bool({COND})", f"call:builtins.bool({COND})", f"call:operator.truth({COND})",
                   f"unop:Not(call:bool({COND}))", f"unop:Not(unop:Not({COND}))")
    odd = sorted({c[0] for p in ps for c in p.conds if COND in c[2] and c[2] not in TRUTH_FORMS})
    res.add("labrea.conditional.CaseWhen._evaluate:a condition's answer counts by its truth", not odd, f, ln,
            f"`{odd[0][:80]}` compares the predicate's answer instead of taking its truth: a truthy answer other than the compared constant "
            "(re.Match, a length, numpy.bool_) no longer selects its case" if odd else "the answer itself is what the branch tests",
            "case-when takes the first matching case (C05); a case whose predicate answered truthily but is passed over hands the evaluation to a later "
            "case or the default, whose body then runs although it was not selected (C06)")
    # every operation of CaseWhen goes through dispatch.bind(<the case selection under the same options>)
    okb = True
    n_b = 0
    for op in ("evaluate", "validate", "keys", "explain"):
        for p in run.paths(cw, op):
            for e in p.events:
                if e.kind in ("op", "unfold") and e.op == op and not e.via and isinstance(e.target, New) and e.target.cls.name == "Bind":
                    n_b += 1
                    ev_ = e.target.attrs.get("evaluatable")
                    fn_ = e.target.attrs.get("func")
                    if ev_ is None or ev_.key() != "Child(dispatch)" or fn_ is None or f"({csel};" not in fn_.key():
                        okb = False
    bd = cw.methods.get("_bound")
    res.add("labrea.conditional.CaseWhen._bound:dispatch value bound into _evaluate", okb and n_b > 0, f, bd.lineno if bd else ln,
            "self.dispatch.bind(partial(self._evaluate, options=options))" if okb and n_b else f"{n_b} operations forwarded to a Bind over the dispatch", nec)

    # ---- Coalesce._delegate
    co = repo.cls("Coalesce")
    dsel_s = _selector(repo, co)
    if dsel_s is None:
        res.add("labrea.coalesce.Coalesce:one selector behind evaluate/validate/keys/explain", False, co.module.relpath, co.node.lineno,
                "the four operations of Coalesce no longer choose the member through one shared helper: they can pick different members", nec)
    f = dsel_s.module.relpath if dsel_s is not None else co.module.relpath
    ln = dsel_s.fn.lineno if dsel_s is not None else co.find_method("evaluate")[1].lineno
    ok_c = True
    d_c = ""
    n = 0
    for op in ("evaluate", "keys", "validate", "explain"):
        for p in normal(run.paths(co, op, unroll=2)):
            if any(c[0].startswith("except") and "explain" == op for c in p.conds) and False:
                continue
            evs = [e for e in p.events if e.kind == "op" and isinstance(e.target, Child) and e.target.path == "members[*]"]
            if not evs:
                continue
            n += 1
            # the returned value is the delegated op of the last member touched,
            # and nothing follows the first complete success
            succ = [i for i, e in enumerate(evs) if e.op == op and not e.failed and i > 0 and evs[i - 1].op == "validate" and not evs[i - 1].failed]
            if op == "validate":
                # validating a member is itself the probe: one successful validate on the member suffices (validated twice
                # in a row — the probe and then the operation — is the same thing done twice)
                first = next((i for i, e in enumerate(evs) if e.op == "validate" and not e.failed and (i == len(evs) - 1 or not evs[i + 1].failed)), None)
                succ = [] if first is None else ([len(evs) - 1] if first >= len(evs) - 2 else [first])
            fallback = op == "explain" and any(c[0].startswith("except EvaluationError") for c in p.conds) and not succ
            if fallback:
                continue
            if not succ:
                ok_c = False
                d_c = f"{op}: a path returns without validate+{op} succeeding on one member"
            elif succ[0] != len(evs) - 1:
                ok_c = False
                d_c = f"{op}: events on members continue after the first success (last success would win)"
    # the delegated operation itself is inside the fall-through try
    for op in ("evaluate", "keys", "validate", "explain"):
        for p in run.paths(co, op):
            for e in p.events:
                if e.kind == "op" and e.op == op and isinstance(e.target, Child) and e.target.path == "members[*]" and not any(c[0].startswith("except") for c in p.conds[:e.ncond]):
                    if not any("EvaluationError" in g for g in e.guards):
                        ok_c = False
                        d_c = f"{op} of a member (line {e.line}) is outside the try that falls through to the next member: a member that validates but fails to {op} aborts the coalesce"
    res.count("paths", n)
    res.add("labrea.coalesce.Coalesce._delegate:first member that validates and succeeds wins", ok_c and n >= 4, f, ln, d_c or f"{n} returning paths", nec)
    # when no member succeeds the operation fails with the last member's own error (read off the operations' paths)
    ps = [p for op_ in ("evaluate", "validate", "keys") for p in run.paths(co, op_, unroll=2)]
    raises = [p for p in ps if p.status == "raise"]
    ok_r = bool(raises)
    shapes = []
    for p in raises:
        rev = [e for e in p.events if e.kind == "raise"][-1]
        tk = rev.target.key() if rev.target is not None else rev.text
        failed = [e for e in p.events if e.failed]
        shapes.append(tk[:40])
        if failed:
            # the error raised is the one caught from the (last) failing member
            if not tk.startswith("exc-of"):
                ok_r = False
        elif tk not in ("Const(None)",) and not tk.startswith("new:"):
            # (no member failed on this path — there was none to try: `raise None`, or an error of the coalesce's own saying so)
            ok_r = False
    res.add("labrea.coalesce.Coalesce._delegate:raises the last member's error when none succeeds", ok_r, f, ln, f"raises {sorted(set(shapes))}", nec)
    # ---- CaseWhen.when: cases are tried in the order in which they were added — the new (condition, result) pair goes after
    # the existing ones in the list handed to the new CaseWhen
    cw = repo.cls("CaseWhen")
    wr = cw.find_method("when")
    if wr is None:
        raise AnalysisError("CaseWhen.when not found")
    iparams = [a.arg for a in cw.method("__init__").args.posonlyargs + cw.method("__init__").args.args][1:]
    ci_ = iparams.index("cases") if "cases" in iparams else 1
    wparams = [a.arg for a in wr[1].args.posonlyargs + wr[1].args.args][1:]

    def order(t, out):
        from .interp import Coll
        if isinstance(t, Seq):
            for it in t.items:
                order(it, out)
        elif isinstance(t, Sym) and t.head in ("star", "binop:Add", "list", "tuple", "call:list", "call:tuple", "call:chain", "call:itertools.chain"):
            for a in t.args:
                order(a, out)
        else:
            k = t.key()
            if "Child(cases" in k:
                out.append("old")
            elif any(w_ in k for w_ in wparams):
                out.append("new")
            else:
                out.append("?")
    ok_w, d_w, n_w = True, "", 0
    for p in analyse_method(Ctx(repo), cw, "when"):
        if p.status != "ret":
            continue
        r = p.ret
        n_w += 1
        ctor = getattr(r, "ctor", None)
        if not (isinstance(r, New) and r.cls.name == "CaseWhen" and ctor is not None):
            ok_w, d_w = False, f"when() returns {r.key()[:80] if r is not None else None}, not a new CaseWhen"
            continue
        arg = ctor[1].get("cases", ctor[0][ci_] if len(ctor[0]) > ci_ else None)
        seq: List[str] = []
        if arg is not None:
            if isinstance(arg, Seq):
                for it in arg.items:
                    if isinstance(it, Seq) and not any(isinstance(x, Sym) and x.head == "star" for x in it.items):
                        seq.append("new" if any(w_ in it.key() for w_ in wparams) else "?")     # one (condition, result) pair
                    else:
                        order(it, seq)
            else:
                order(arg, seq)
        collapsed = [x for i_, x in enumerate(seq) if i_ == 0 or seq[i_ - 1] != x]
        if collapsed != ["old", "new"]:
            ok_w, d_w = False, f"the list handed to the new CaseWhen holds {collapsed or 'nothing recognisable'} (existing cases = old, the added pair = new): the added case is not tried last"
    res.add("labrea.conditional.CaseWhen.when:the added case is tried after the existing ones", ok_w and n_w > 0, cw.module.relpath, wr[1].lineno,
            d_w or f"{n_w} paths: [*existing cases, (condition, result)]", nec)
    return res


# ------------------------------------------------------------------ R-OP
REORDER = {"reversed", "sorted", "set", "frozenset", "shuffle", "sample"}


def _op_reachable_methods(ci) -> Dict[str, ast.FunctionDef]:
    """The four ops of a class plus helpers reached through self.<m>."""
    out: Dict[str, ast.FunctionDef] = {}
    work = [op for op in ("evaluate", "validate", "keys", "explain", "transform", "__iter__")]
    while work:
        n = work.pop()
        if n in out:
            continue
        r = ci.find_method(n)
        if r is None:
            continue
        out[n] = r[1]
        for x in ast.walk(r[1]):
            if isinstance(x, ast.Attribute) and isinstance(x.value, ast.Name) and x.value.id in ("self", "cls") and ci.find_method(x.attr):
                work.append(x.attr)
    return out


def rule_OP(run: Run) -> RuleResult:
    res = RuleResult("R-OP")
    repo = run.repo
    nec = ("collections keep order: cases, members, arguments, pipeline steps and Map combinations must be "
           "visited in stored order (first matching case, first successful member, positional arguments)")
    n_iters = 0
    for cls in run.node_classes():
        colls = set()
        for kc in cls.mro():
            for a, ann in kc.annotations.items():
                if annotation_kind(repo, kc.module, ann) == "nodes":
                    colls.add(a)
        if not colls:
            continue
        meths = _op_reachable_methods(cls)
        init = cls.find_method("__init__")
        if init:
            meths["__init__"] = init[1]
        for mname, fn in meths.items():
            for x in astu.walk_no_nested(fn):
                its = []
                if isinstance(x, (ast.For, ast.comprehension)):
                    its.append(x.iter)
                for it in its:
                    txt = ast.unparse(it)
                    hit = [c for c in colls if f"self.{c}" in txt]
                    if mname == "__init__":
                        # building the collection from the constructor argument
                        params = astu.param_names(fn)
                        hit = [c for c in colls if any(astu.contains_name(it, p_) for p_ in params)] and ["<ctor-arg>"]
                    if not hit:
                        continue
                    n_iters += 1
                    bad = [astu.short_name(c) for c in astu.calls_in(it) if astu.short_name(c) in REORDER]
                    sl = [s for s in ast.walk(it) if isinstance(s, ast.Slice)]
                    # a loop over all children that stops early visits only a prefix
                    if isinstance(x, ast.For) and cls.name not in ("Coalesce", "CaseWhen") and mname != "__init__":
                        for y in astu.walk_no_nested(x):
                            if isinstance(y, ast.Break):
                                bad.append("break")
                    for c in astu.calls_in(it):
                        if astu.short_name(c) in ("islice", "next", "first", "head"):
                            bad.append(astu.short_name(c))
                    ok = not bad and not sl
                    res.add(f"{cls.qualname}.{mname}:iterates {hit[0]} in stored order", ok, cls.module.relpath if cls.find_method(mname)[0] is cls else cls.find_method(mname)[0].module.relpath, it.lineno,
                            txt[:80] + (f" — reordered by {bad or 'slice'}" if not ok else ""), nec)
    # no op-reachable iteration of a node class visits only part of what it iterates
    for cls in run.node_classes():
        for mname, fn in _op_reachable_methods(cls).items():
            owner = cls.find_method(mname)[0]
            if owner.name in ("Evaluatable", "Cacheable", "Validatable", "Explainable"):
                continue
            for x in astu.walk_no_nested(fn):
                if isinstance(x, (ast.For, ast.comprehension)):
                    it = x.iter
                    part = [s_ for s_ in ast.walk(it) if isinstance(s_, ast.Slice)] or [c for c in astu.calls_in(it) if astu.short_name(c) in ("islice", "next", "head", "first")]
                    if part:
                        res.add(f"{cls.qualname}.{mname}:iterates {ast.unparse(it)[:40]} in stored order", False, owner.module.relpath, it.lineno,
                                f"{ast.unparse(it)[:80]} visits only part of the sequence", nec)
    res.count("iterations", n_iters)
    if n_iters < 20:
        raise AnalysisError(f"R-OP found only {n_iters} iterations over child collections")
    # collection constructors: Iter over the arguments in order, converted by the matching builtin
    cm = repo.modules.get("labrea.collections")
    if cm is None:
        raise AnalysisError("labrea/collections.py not found")
    # decided on what the built expression evaluates to (a probe call `evaluatable_list(*xs).evaluate(options)` followed through the
    # classes involved), not on how it is built: the elements are the arguments' values in argument order, gathered by the matching builtin
    want = {"evaluatable_list": ("list", "*evaluatables"), "evaluatable_tuple": ("tuple", "*evaluatables"),
            "evaluatable_set": ("set", "*evaluatables"), "evaluatable_dict": ("dict", "contents")}
    for fname, (builtin, params) in want.items():
        fi = repo.functions.get(f"labrea.collections.{fname}")
        if fi is None:
            raise AnalysisError(f"labrea.collections.{fname} not found")
        own = astu.param_names(fi.node)
        va = fi.node.args.vararg.arg if fi.node.args.vararg is not None else None
        call_args = f"*{va}" if va else ", ".join(own)
        sig = f"*{va}" if va else ", ".join(own)
        probe = ast.parse(f"def __probe__({sig}{', ' if sig else ''}options=None):\n    return {fname}({call_args}).evaluate(options)\n").body[0]
        pctx = Ctx(repo)
        pctx.track_conversions = True
        try:
            fps = [p for p in analyse_function(pctx, fi.module, probe) if p.status == "ret"]
        except AnalysisError as e_:
            fps = []
            res.notes.append(f"R-OP {fname}: {e_}")
        ok = bool(fps)
        shown = []
        for p in fps:
            k_ = p.ret.key()
            shown.append(k_[:110])
            src = va or (own[0] if own else "")
            if builtin == "dict":
                import re as _re
                from .interp import Frame as _F
                PAIR = r"Val\(evaluate,New\(Iter;evaluatables=Seq\[New\(Value;value=key\((.+?)\)\),elem\((.+?)\)\]\)\)"
                m_ = _re.fullmatch(r"(?:call:dict\(|callres\(call:dict\(options\),)(?:Coll\(" + PAIR + r"\)|Seq\[" + PAIR + r"\])\)", k_)
                g_ = [x for x in (m_.groups() if m_ else ()) if x is not None]
                good = m_ is not None and len(g_) == 2 and g_[0] == g_[1] and src in g_[0]
                if not good and _re.fullmatch(r"(?:call:dict\(|callres\(call:dict\(options\),)(?:Seq\[\]|Coll\(call:evaluate\(elem\(list\[\]\),options\)\))\)", k_):
                    # nothing to gather: the pairs were collected by a loop that ran zero times, or a path found them empty
                    good = "elem(list[])" in k_ or any(pol_ is False and a_.startswith("Coll(New(Iter;evaluatables=Seq[New(Value;value=key(") for a_, pol_ in _F.atoms(p.conds).items())
            else:
                elems = f"Coll(Val(evaluate,Child(*{src}[*])))"
                convs = [e for e in p.events if e.kind == "call" and e.text.startswith("conv:") and e.args and e.args[0].key() == elems]
                good = k_ == elems and bool(convs) and convs[-1].text == "conv:" + builtin
                if not good and k_ == "Seq[]":
                    # nothing to gather: a path that found the arguments empty may hand back the empty collection, built by the same builtin
                    from .interp import Frame as _F
                    empt = [e for e in p.events if e.kind == "call" and e.text == "conv:" + builtin and e.args and e.args[0].key() == "Seq[]"]
                    good = bool(empt) and _F.atoms(p.conds).get(f"Coll(Child(*{src}[*]))") is False
            ok = ok and good and "reordered:" not in k_
        res.add(f"labrea.collections.{fname}:arguments in order through ({builtin})", ok, cm.relpath, fi.node.lineno,
                f"{fname}(...).evaluate(options) yields {sorted(set(shown))}" + ("" if ok else f"; expected the values of the arguments in argument order gathered by {builtin}()"), nec)
    it_cls = repo.cls("Iter")
    init = it_cls.methods.get("__init__")
    ok = init is not None
    if ok:
        # every argument is kept, in order, wrapped in Value when it is not an evaluatable already
        ips_ = [p for p in analyse_function(Ctx(repo), it_cls.module, init, cls=it_cls) if p.status == "ret"]
        ok = bool(ips_)
        for p in ips_:
            st = [e for e in p.events if e.kind == "store" and len(e.args) == 2 and e.args[0].key() == "self" and e.args[1].key() == Const("evaluatables").key()]
            if len(st) != 1 or st[0].target is None:
                ok = False
                continue
            k = st[0].target.key()
            if k not in ("Coll(Child(*evaluatables[*]))", "Coll(New(Value;value=Child(*evaluatables[*])))", "Child(*evaluatables)", "Seq[]") or "reordered:" in k:
                ok = False
        ok = ok and not any(astu.short_name(c) in REORDER for c in astu.calls_in(init))
    res.add("labrea.iterable.Iter.__init__:keeps the arguments in order", ok, it_cls.module.relpath, init.lineno if init else 0, "", nec)
    # Map: keys and values of a combination come from the same mapping, in the same order
    mp = repo.cls("Map")
    fn = mp.find_method("evaluate")[1]
    mps = [p for p in run.paths(mp, "evaluate") if p.status == "ret"]
    reach_fns = [mfn for mn, mfn in astu.reachable_self_methods(mp, ["evaluate"]).items() if mn == "evaluate" or mn not in ("validate", "keys", "explain")]
    PROD = "call:itertools.product(star(Coll(Val(evaluate,Child(iterables[*])))))"
    ok = bool(mps) and not any(astu.short_name(c) in REORDER for f_ in reach_fns for c in astu.calls_in(f_))
    saw_zip = False
    for p in mps:
        for e in p.events:
            if e.kind == "call" and e.text == "itertools.product":
                if [a.key() for a in e.args] != ["star(Coll(Val(evaluate,Child(iterables[*]))))"]:
                    ok = False
            if e.kind == "call" and e.text == "zip":
                saw_zip = True
                ks_ = [a.key() for a in e.args]
                while ks_ and ks_[0].startswith(("tuple(", "list(")) and ks_[0].endswith(")"):
                    ks_[0] = ks_[0][ks_[0].index("(") + 1:-1]      # the keys gathered into a tuple / list first: same keys, same order
                if ks_ and ks_[0] == "Child(iterables)" and getattr(e.args[0], "mapping", False):
                    ks_[0] = "dictkeys(Child(iterables))"      # walking a mapping walks its keys
                if ks_ != ["dictkeys(Child(iterables))", f"elem({PROD})"]:
                    ok = False
    ok = ok and saw_zip
    res.add("labrea.iterable.Map._iterate_over_options:keys zipped with the product over the same mapping", ok, mp.module.relpath, fn.lineno,
            "zip(self.iterables.keys(), values) for values in itertools.product(*(… for iterable in self.iterables.values()))", nec)
    return res


# types that copy.deepcopy returns unchanged (copy._deepcopy_atomic)
DEEPCOPY_ATOMIC = {"NoneType", "type(None)", "int", "float", "bool", "complex", "bytes", "str", "type", "range",
                   "types.CodeType", "types.BuiltinFunctionType", "types.FunctionType", "property", "weakref.ref"}


def _only_atomic_types(repo, module, tkey: str) -> bool:
    """True when the second argument of an isinstance test (given as a term key)
    names only types that deepcopy hands back unchanged."""
    def names_of(node) -> Optional[List[str]]:
        if isinstance(node, ast.Call) and isinstance(node.func, ast.Name) and node.func.id in ("frozenset", "set", "tuple") and len(node.args) == 1 and not node.keywords:
            return names_of(node.args[0])
        if isinstance(node, (ast.Tuple, ast.Set, ast.List)):
            out = []
            for e in node.elts:
                r = names_of(e)
                if r is None:
                    return None
                out += r
            return out
        if isinstance(node, ast.Attribute) and isinstance(node.value, ast.Name):
            # ``types.FunctionType`` under whatever name the module was imported
            r_ = repo.resolve_name(module, node.value.id) if module is not None else None
            if r_ and r_[0] == "external":
                return [f"{r_[1]}.{node.attr}"]
        if isinstance(node, (ast.Name, ast.Attribute, ast.Call)):
            return [ast.unparse(node)]
        return None

    m = re.match(r"global<(.+)\.(\w+)>$", tkey)
    if m:
        mod = repo.modules.get(m.group(1))
        if mod is None:
            return False
        for st in mod.tree.body:
            if isinstance(st, (ast.Assign, ast.AnnAssign)):
                tg = st.targets[0] if isinstance(st, ast.Assign) else st.target
                if isinstance(tg, ast.Name) and tg.id == m.group(2) and st.value is not None:
                    ns = names_of(st.value)
                    return ns is not None and bool(ns) and all(n in DEEPCOPY_ATOMIC for n in ns)
        return False
    m = re.match(r"name<(\w+)>$|class<builtins\.(\w+)>$", tkey)
    if m:
        return (m.group(1) or m.group(2)) in DEEPCOPY_ATOMIC
    m = re.match(r"Seq\[(.*)\]$", tkey)
    if m and m.group(1):
        parts = Frame.split_args("x(" + m.group(1) + ")")
        return bool(parts) and all(_only_atomic_types(repo, module, p_) for p_ in parts)
    if tkey in ("call:type(Const(None))",):
        return True
    return False


# ------------------------------------------------------------------ R-EO
def rule_EO(run: Run) -> RuleResult:
    res = RuleResult("R-EO")
    repo = run.repo
    nec = ("the input of >> is produced before the step applied to it; a body runs only after all of its "
           "arguments; effects run after the body with its value (C06, C02, C13)")
    ap = repo.cls("Apply")
    f = ap.module.relpath
    ps = normal(run.paths(ap, "evaluate"))
    ok = bool(ps)
    d = ""
    for p in ps:
        ops = [(e.op, e.target.path) for e in p.events if e.kind == "op" and isinstance(e.target, Child)]
        if ops != [("evaluate", "evaluatable"), ("evaluate", "func")]:
            ok = False
            d = f"op order {ops}"
        if p.ret.key() != "valuecall(Val(evaluate,Child(func)),Val(evaluate,Child(evaluatable)))":
            ok = False
            d = f"returns {p.ret.key()[:80]}"
    res.add("labrea.types.Apply.evaluate:source before function, function applied to the source value", ok, f, ap.method("evaluate").lineno,
            d or "evaluate(evaluatable) then evaluate(func); returns func_value(source_value)", nec)
    bd = repo.cls("Bind")
    ps = normal(run.paths(bd, "evaluate"))
    ok = bool(ps)
    d = ""
    for p in ps:
        seq = [e for e in p.events if e.kind in ("op", "call")]
        names = [(e.kind, e.op or e.text) for e in seq]
        if names != [("op", "evaluate"), ("call", "func"), ("op", "evaluate")]:
            ok = False
            d = f"events {names}"
        else:
            if seq[1].args[0].key() != "Val(evaluate,Child(evaluatable))" or not (isinstance(seq[2].target, Child) and seq[2].target.path == "func()"):
                ok = False
                d = "the bound function is not applied to the source value / its result is not evaluated"
    res.add("labrea.types.Bind.evaluate:func(source value) evaluated under the same options", ok, bd.module.relpath, bd.method("evaluate").lineno, d or "evaluate(evaluatable) -> func(value) -> evaluate", nec)
    fa = repo.cls("FunctionApplication")
    ps = normal(run.paths(fa, "evaluate"))
    ok = bool(ps)
    d = ""
    for p in ps:
        rk = p.ret.key()
        want = "valuecall(Val(evaluate,Child(func)),star(attr:args(Val(evaluate,Child(arguments)))),"
        if not rk.startswith(want) or "attr:kwargs(Val(evaluate,Child(arguments)))" not in rk:
            ok = False
            d = f"returns {rk[:120]}"
    res.add("labrea.application.FunctionApplication.evaluate:func(*args, **kwargs) over the evaluated arguments", ok, fa.module.relpath, fa.method("evaluate").lineno, d or "body called with evaluated args", nec)
    pa = repo.cls("PartialApplication")
    ps = normal(run.paths(pa, "evaluate"))
    ok = bool(ps) and all(p.ret.key().startswith("call:functools.partial(Val(evaluate,Child(func)),star(attr:args(Val(evaluate,Child(arguments))))") and "attr:kwargs(Val(evaluate,Child(arguments)))" in p.ret.key() for p in ps)
    res.add("labrea.application.PartialApplication.evaluate:partial(func, *args, **kwargs) over the evaluated arguments", ok, pa.module.relpath, pa.method("evaluate").lineno,
            "" if ok else f"{[p.ret.key()[:100] for p in ps]}", nec)
    ea = repo.cls("EvaluatableArguments")
    ps = normal(run.paths(ea, "evaluate"))
    ok = bool(ps) and all(p.ret.key() == "new:Arguments(star(Val(evaluate,Child(args))),kw:**(Val(evaluate,Child(kwargs))))" for p in ps)
    res.add("labrea.arguments.EvaluatableArguments.evaluate:Arguments(*args, **kwargs) of the evaluated parts", ok, ea.module.relpath, ea.method("evaluate").lineno,
            "" if ok else f"{[p.ret.key()[:100] for p in ps]}", nec)
    va = repo.cls("Value")
    ps = normal(run.paths(va, "evaluate"))
    ok = bool(ps) and any("deepcopy" in p.ret.key() for p in ps)
    d = ""
    for p in ps:
        k = p.ret.key()
        if k == "call:copy.deepcopy(Child(value))":
            continue
        if k != "Child(value)":
            ok = False
            d = f"returns {k[:80]}"
            continue
        # the wrapped object itself may be handed out only when copying it failed, or when it is of a
        # type that deepcopy returns unchanged anyway
        failed_copy = any(e.kind == "call" and "deepcopy" in e.text and e.failed for e in p.events)
        atomic = False
        for ck, pol in Frame.atoms(p.conds).items():
            if pol and ck.startswith("call:isinstance(Child(value),"):
                atomic = atomic or _only_atomic_types(repo, va.module, ck[len("call:isinstance(Child(value),"):-1])
            if pol and ck.startswith("cmp:In(call:type(Child(value)),"):
                # ``type(value) in <a collection of such types>``: the exact type is one deepcopy hands back unchanged
                atomic = atomic or _only_atomic_types(repo, va.module, ck[len("cmp:In(call:type(Child(value)),"):-1])
        if not (failed_copy or atomic):
            ok = False
            conds = [c[0] for c in p.conds]
            d = f"returns the wrapped object itself without attempting a copy (path conditions: {conds})"
    res.add("labrea.types.Value.evaluate:returns (a copy of) the wrapped value", ok, va.module.relpath, va.method("evaluate").lineno,
            d or f"{[p.ret.key() for p in ps]}", nec)
    en = repo.cls("Evaluatable")
    IS_EV = "call:isinstance({0},class<labrea.types.Evaluatable>)"

    def mpaths(name):
        fn_ = en.methods.get(name)
        if fn_ is None:
            return None, []
        if any(ast.unparse(d_) == "staticmethod" for d_ in fn_.decorator_list):
            return fn_, analyse_function(Ctx(repo), en.module, fn_)
        return fn_, analyse_method(Ctx(repo), en, name)

    cf, cps = mpaths("__call__")
    ok = cf is not None and bool(cps) and all(p.status == "ret" and p.ret.key() == "Val(evaluate,Child(<self>))" for p in cps) \
        and all(e.opts is not None and (e.opts.key() == "options" or any("options" in (c[2] or "") for c in p.conds)) for p in cps for e in p.events if e.kind == "op")
    res.add("labrea.types.Evaluatable.__call__:evaluate(options or {})", ok, en.module.relpath, cf.lineno if cf else 0, f"{[p.ret.key()[:60] if p.ret is not None else p.status for p in cps]}", nec)

    def built(name, cname, wrap_plain, param_ix=1):
        """name(x) returns cname(self, x) (x wrapped in Value when it is not an evaluatable, if wrap_plain)"""
        mf, mps = mpaths(name)
        if mf is None:
            return False, "missing", 0
        arg = [x.arg for x in mf.args.args][param_ix]
        ok_, why = bool([p for p in mps if p.status == "ret"]), ""
        for p in mps:
            at = Frame.atoms(p.conds)
            isev = at.get(IS_EV.format(arg))
            call_ = at.get(f"call:callable({arg})")
            if p.status == "raise":
                # rejected inputs: neither an evaluatable nor callable (apply) / not callable (bind)
                if call_ is not False or (wrap_plain and isev is not False):
                    ok_, why = False, f"raises for an input that is not known to be unusable ({[c[0] for c in p.conds]})"
                continue
            r_ = p.ret
            good = isinstance(r_, New) and r_.cls.name == cname and r_.attrs.get("evaluatable") is not None and r_.attrs["evaluatable"].key() == "Child(<self>)"
            if good:
                fk = r_.attrs["func"].key() if r_.attrs.get("func") is not None else ""
                if wrap_plain:
                    good = (fk == arg and isev is not False) or (fk == f"New(Value;value={arg})" and isev is not True)
                else:
                    good = fk == arg
            if not good:
                ok_, why = False, f"returns {r_.key()[:90] if r_ is not None else None} under {[c[0] for c in p.conds]}"
        return ok_, why, mf.lineno

    for nm, cname, wrap_plain, target in (("apply", "Apply", True, "Apply(self, self.ensure(func))"), ("bind", "Bind", False, "Bind(self, func)"), ("__rshift__", "Apply", True, "self.apply(other)")):
        ok, why, ln_ = built(nm, cname, wrap_plain)
        res.add(f"labrea.types.Evaluatable.{nm}:builds {target}", ok, en.module.relpath, ln_, why, nec)
    # the combinator API (calling, >>, apply, bind, ensure, fingerprint) is defined once, on the ABCs: an override in a
    # concrete expression class would have to re-establish everything checked above (issue the evaluate request, keep
    # the source lazily under the function) — none does today, so an override is reported
    for c_ in run.node_classes():
        for nm in ("__call__", "apply", "bind", "__rshift__", "ensure", "fingerprint"):
            r_ = c_.find_method(nm)
            if r_ is None:
                continue
            owner_ = r_[0]
            ok = owner_.name in ("Evaluatable", "Cacheable") or (nm == "__call__" and any("type" in k_.external_bases() for k_ in c_.mro()))
            if not ok:
                res.add(f"{c_.qualname}.{nm}:combinator API inherited from the ABC", False, owner_.module.relpath, r_[1].lineno,
                        f"{owner_.name}.{nm} overrides the ABC's {nm}: evaluation through it no longer issues the request / nests the source under the function as the ABC does", nec)
    res.add("labrea.types.Evaluatable:combinator API defined once", True, en.module.relpath, en.node.lineno, "__call__/apply/bind/>>/ensure/fingerprint live on the ABCs only", nec)
    ens, eps = mpaths("ensure")
    if ens is not None:
        arg = [x.arg for x in ens.args.args][0]
        ok = bool(eps)
        why = ""
        for p in eps:
            isev = Frame.atoms(p.conds).get(IS_EV.format(arg))
            k = p.ret.key() if p.status == "ret" and p.ret is not None else p.status
            if not ((k == arg and isev is True) or (k == f"New(Value;value={arg})" and isev is False)):
                ok, why = False, f"returns {k[:80]} under {[c[0] for c in p.conds]}"
        res.add("labrea.types.Evaluatable.ensure:evaluatables pass through, plain values are wrapped", ok,
                en.module.relpath, ens.lineno, why or "value if isinstance(value, Evaluatable) else Value(value)", nec)
    co = repo.cls("Computation")
    ps = normal(run.paths(co, "evaluate"))
    ok = bool(ps)
    d = ""
    saw_t = False
    for p in ps:
        ops = [e for e in p.events if e.kind == "op" and isinstance(e.target, Child)]
        if not ops or ops[0].op != "evaluate" or ops[0].target.path != "evaluatable":
            ok = False
            d = "the inner evaluation is not the first operation"
        for e in ops[1:]:
            if e.op == "transform":
                saw_t = True
                if not e.args or e.args[0].key() != "Val(evaluate,Child(evaluatable))":
                    ok = False
                    d = "the effect does not receive the computed value"
                if e.opts is None or e.opts.key() != "options":
                    ok = False
                    d = "the effect does not receive the options"
        if p.ret.key() != "Val(evaluate,Child(evaluatable))":
            ok = False
            d = f"returns {p.ret.key()[:60]}"
    res.add("labrea.computation.Computation.evaluate:effect after the body, with its value; value returned unchanged", ok and saw_t, co.module.relpath, co.method("evaluate").lineno, d or "evaluate -> effect.transform(value, options) -> value", nec)
    # Pipeline.evaluate(options)(x) == tail(options)(rest(options)(x))
    pl = repo.cls("Pipeline")
    fn = pl.method("evaluate")
    pps = analyse_method_result_call(Ctx(repo), pl, "evaluate", [Sym("x")])
    T, R = "Val(evaluate,Child(tail))", "Val(evaluate,Child(rest))"
    ok = bool(pps)
    d = ""
    saw = set()
    for p in pps:
        k = p.ret.key() if p.status == "ret" and p.ret is not None else p.status
        has_rest = cond_pol(p.conds, "Child(rest)")
        if has_rest is None:
            has_rest = {True: False, False: True}.get(cond_pol(p.conds, "cmp:Is(Child(rest),Const(None))"))
        if k == f"valuecall({T},valuecall({R},x))" and has_rest is not False:
            saw.add("rest")
        elif k == f"valuecall({T},x)" and has_rest is False:
            saw.add("norest")
        else:
            ok = False
            d = f"evaluate(options)(x) = {k[:100]} with rest {'present' if has_rest else 'absent' if has_rest is False else 'unknown'}"
    ok = ok and saw == {"rest", "norest"}
    res.add("labrea.pipeline.Pipeline.evaluate:rest applied innermost, tail last", ok, pl.module.relpath, fn.lineno, d or "lambda x: tail(rest(x))", nec)
    # every step is evaluated by evaluate() itself: calling the function it returns issues no further operation
    for cn_ in ("Pipeline", "PipelineStep"):
        c_ = repo.cls(cn_)
        late = None
        n_ret = 0
        for p in analyse_method_result_call(Ctx(repo), c_, "evaluate", [Sym("x")]):
            cut = [i for i, e in enumerate(p.events) if e.kind == "return" and e.depth == 0]
            if not cut:
                continue
            n_ret += 1
            for e in p.events[cut[0] + 1:]:
                if e.kind in ("op", "selfop") and late is None:
                    late = (e.line, f"{e.op} of {e.target.key()[:50] if e.target is not None else '?'} happens when the returned function is called (line {e.line})")
        res.add(f"{c_.qualname}.evaluate:all steps are evaluated before the function is returned", late is None and n_ret > 0, c_.module.relpath,
                late[0] if late else c_.find_method("evaluate")[1].lineno, late[1] if late else f"{n_ret} returning paths; no operation inside the returned function",
                "a step evaluated only when the returned function is called issues its requests outside the evaluation: under whatever runtime is current "
                "then, unseen by a handler installed around the evaluation (C18), and after the pipeline has already 'succeeded' (C06, C12)")
    for cn in ("Pipeline", "PipelineStep"):
        c = repo.cls(cn)
        fn = c.methods.get("transform")
        if fn is None:
            raise AnalysisError(f"{cn}.transform not found")
        ps_ = astu.param_names(fn)
        tps = analyse_method(Ctx(repo), c, "transform")
        eps_ = analyse_method_result_call(Ctx(repo), c, "evaluate", [Sym(ps_[0])])
        want = sorted(p.ret.key() for p in eps_ if p.status == "ret" and p.ret is not None)
        got = sorted(p.ret.key() for p in tps if p.status == "ret" and p.ret is not None)
        ok = bool(got) and got == want and all(p.status == "ret" for p in tps) \
            and all(e.opts is None or e.opts.key() == ps_[1] for p in tps for e in p.events if e.kind in ("op", "selfop"))
        res.add(f"{c.qualname}.transform:p.transform(x, o) == p(o)(x)", ok, c.module.relpath, fn.lineno, f"transform: {got}; evaluate(o)(x): {want}"[:300], nec)
    ce = repo.cls("CallbackEffect")
    fn = ce.method("transform")
    ps_ = astu.param_names(fn)
    tps = analyse_method(Ctx(repo), ce, "transform")
    ok = bool(tps)
    d = ""
    PURE = ("callable", "isinstance", "type", "repr", "str", "hasattr")
    n_ret_ = 0
    for p in tps:
        evs = [e for e in p.events if e.kind in ("op", "call") and not (e.kind == "call" and e.text in PURE)]
        shape = [(e.kind, e.op or e.text, e.target.key() if e.target is not None else "", [a_.key() for a_ in e.args], e.opts.key() if e.opts is not None else None) for e in evs]
        if p.status == "raise" and not any(s_[:2] == ("call", "<value>") for s_ in shape) and shape[:1] == [("op", "evaluate", "Child(callback)", [], ps_[1])] \
                and not any(e.failed for e in p.events):
            continue        # a check of what the callback evaluated to (not callable) that rejects it before anything is applied
        n_ret_ += p.status == "ret"
        if p.status != "ret" or shape != [("op", "evaluate", "Child(callback)", [], ps_[1]), ("call", "<value>", "Val(evaluate,Child(callback))", [ps_[0]], None)]:
            ok = False
            d = f"{shape}"[:200]
    ok = ok and n_ret_ > 0
    res.add("labrea.computation.CallbackEffect.transform:callback evaluated from options, applied to the value", ok, ce.module.relpath, fn.lineno, d or "self.callback(options)(value)", nec)
    ch = repo.cls("ChainedEffect")
    ps = [p for p in analyse_method(Ctx(repo), ch, "transform") if p.status == "ret"]
    ok = any(any(e.kind == "op" and e.op == "transform" and isinstance(e.target, Child) and e.target.path == "effects[*]" and e.args and e.args[0].key() == "value" for e in p.events) for p in ps)
    res.add("labrea.computation.ChainedEffect.transform:every effect receives the value", ok, ch.module.relpath, ch.method("transform").lineno, "for effect in self.effects: effect.transform(value, options)", nec)
    return res


# ------------------------------------------------------------------ R-LK
PARAM_KINDS = ("POSITIONAL_ONLY", "POSITIONAL_OR_KEYWORD", "VAR_POSITIONAL", "KEYWORD_ONLY", "VAR_KEYWORD")


def rule_LK(run: Run) -> RuleResult:
    """lift() treats every parameter that can carry a default."""
    res = RuleResult("R-LK")
    nec = ("lifting a function turns every parameter default that is an expression into an evaluated argument; a parameter kind that the loop skips "
           "(keyword-only parameters, say) keeps its raw default: the function receives the Option object itself, and the application no longer "
           "reports, validates or keys that option (C05, C13, C19)")
    import re as _re
    n = 0
    for cn in ("FunctionApplication", "PartialApplication"):
        ci = run.repo.cls(cn)
        fn = ci.methods.get("lift")
        if fn is None:
            continue
        groups = []
        lifted = {}         # (group, polarity of the test) -> some path of that side lifts the parameter's default (reaches Evaluatable.ensure)
        for p in analyse_function(Ctx(run.repo), ci.module, fn, cls=ci):
            # (the parameter's default — ``kwargs.get(param.name, param.default)`` or ``param.default`` itself — reaches Evaluatable.ensure)
            lifts = any(e.kind == "enter" and e.text == "ensure" and e.args and (".get()" in e.args[0].key() or "attr:default(" in e.args[0].key()) for e in p.events)
            for k, pol in Frame.atoms(p.conds).items():
                if "attr:kind(" not in k or k.startswith("call:any("):
                    continue
                named = frozenset(_re.findall(r"attr:(%s)\(" % "|".join(PARAM_KINDS), k))
                if named and (k.startswith("cmp:Eq(") or k.startswith("cmp:In(")):
                    if named not in groups:
                        groups.append(named)
                    lifted[(named, pol)] = lifted.get((named, pol), False) or lifts
        if not groups:
            continue
        n += 1
        # a test on the kind splits the parameters in two groups; a group whose defaults are not lifted (the loop skips it) must consist of
        # *args / **kwargs only (they carry no default) — a group that is merely handed on differently (positional-only parameters passed
        # positionally) is lifted on both sides of the test
        NO_DEFAULT = {"VAR_KEYWORD", "VAR_POSITIONAL"}
        bad = []
        for g_ in groups:
            skipped_kinds = set()
            if not lifted.get((g_, True), False):
                skipped_kinds |= set(g_)
            if not lifted.get((g_, False), False):
                skipped_kinds |= set(PARAM_KINDS) - set(g_)
            both_sides_unknown = (g_, True) not in lifted and (g_, False) not in lifted
            if both_sides_unknown:
                skipped_kinds = set() if (g_ <= NO_DEFAULT or (set(PARAM_KINDS) - g_) <= NO_DEFAULT) else set(g_)
            if not (skipped_kinds <= NO_DEFAULT or (set(PARAM_KINDS) - skipped_kinds) == set()):
                if not (g_ <= NO_DEFAULT or (set(PARAM_KINDS) - g_) <= NO_DEFAULT):
                    bad.append(sorted(g_))
        res.add(f"{ci.qualname}.lift:only *args/**kwargs parameters are set apart", not bad, ci.module.relpath, fn.lineno,
                f"kind tests: {[sorted(g_) for g_ in groups]}" + ("" if not bad else f" — the test on {bad[0]} separates parameters that can carry a default (keyword-only ones) from the rest"), nec)
    if n == 0:
        raise AnalysisError("R-LK: no lift() tests the kind of a parameter (anchor vanished)")
    return res


# ------------------------------------------------------------------ R-KB
def _named_literal(repo, module, name: str):
    """The literal a module-level name is bound to once and for all (``_DUNDER = "__"``), else None."""
    from .interp import _never_mutated
    if module is None or repo is None:
        return None
    if name in module.imports and module.imports[name][0] in repo.modules:
        src = repo.modules[module.imports[name][0]]
        return _named_literal(repo, src, module.imports[name][1] or name) if src is not module else None
    vals = [s_.value for s_ in module.tree.body if isinstance(s_, (ast.Assign, ast.AnnAssign)) and s_.value is not None
            and any(isinstance(t_, ast.Name) and t_.id == name for t_ in (s_.targets if isinstance(s_, ast.Assign) else [s_.target]))]
    if len(vals) == 1 and isinstance(vals[0], ast.Constant) and isinstance(vals[0].value, str) and _never_mutated(repo, module, name):
        return vals[0].value
    return None


def unbounded_key_prefix_tests(tree: ast.AST, repo=None, module=None) -> List[tuple]:
    """(line, text) of every ``a.startswith(b)`` / ``a.endswith(b)`` with a non-constant b that is not closed by the key separator."""
    out = []
    for n in ast.walk(tree):
        if isinstance(n, ast.Call) and isinstance(n.func, ast.Attribute) and n.func.attr in ("startswith", "endswith") and n.args:
            b = n.args[0]
            if isinstance(b, ast.Constant):
                continue
            if isinstance(b, ast.Name) and _named_literal(repo, module, b.id) is not None:
                continue        # a named literal is a literal
            if isinstance(b, ast.Tuple) and all(isinstance(x, ast.Constant) for x in b.elts):
                continue
            closed = (isinstance(b, ast.BinOp) and isinstance(b.op, ast.Add) and isinstance(b.right if n.func.attr == "startswith" else b.left, ast.Constant)
                      and str((b.right if n.func.attr == "startswith" else b.left).value) == ".") or \
                     (isinstance(b, ast.JoinedStr) and b.values and isinstance(b.values[-1 if n.func.attr == "startswith" else 0], ast.Constant)
                      and str(b.values[-1 if n.func.attr == "startswith" else 0].value).endswith(".") if n.func.attr == "startswith" else False)
            if not closed:
                out.append((n.lineno, ast.unparse(n)[:70]))
    return out


def rule_KB(run: Run) -> RuleResult:
    """Dotted keys are compared at the dot."""
    res = RuleResult("R-KB")
    nec = ("'A.X' lies below the section 'A'; 'AB' and 'A_UNIT' do not. A test `key.startswith(other)` without the separator takes every key that "
           "merely begins with the same text for a member of the section: it is dropped from a fingerprint, from the recorded options of a dataset "
           "class, from a filter — and two dictionaries that differ only there are treated alike (C01, C03, C19)")
    probe = ast.parse("def f(keys):\n    kept = []\n    for k in sorted(keys):\n        if not k.startswith(tuple(kept)):\n            kept.append(k)\n    return kept\n")
    if not unbounded_key_prefix_tests(probe):
        raise AnalysisError("R-KB: the prefix-test detector no longer sees its positive example")
    for m in run.repo.modules.values():
        if m.name.startswith("labrea.mypy"):
            continue
        hits = unbounded_key_prefix_tests(m.tree, run.repo, m)
        res.add(f"{m.name}:no prefix test between keys without the separator", not hits, m.relpath, hits[0][0] if hits else 1,
                "every startswith/endswith tests a literal" if not hits else f"{hits[0][1]} (line {hits[0][0]})", nec)
    return res


# ------------------------------------------------------------------ R-KW
KW_EXEMPT = {("labrea.template.Template.__init__", "template"): "the template text is the constructor's own first argument (public signature); a parameter "
                                                                   "called `template` cannot be given, as documented"}


def _bare_ok(arg: ast.expr) -> Optional[str]:
    """A callable the public API documents as taking no argument (Option(default_factory=…)): recognised by what it is called."""
    name = arg.id if isinstance(arg, ast.Name) else arg.attr if isinstance(arg, ast.Attribute) else ""
    return "a factory is documented to be called without arguments" if name.endswith("factory") else None


def _literal_mapping(tree: ast.Module, call: ast.Call, v: ast.expr) -> bool:
    """``**v`` where v is a dict display with constant keys, a choice between such displays, or a local of the calling function
    bound to nothing else: the keywords are spelled out by the library all the same."""
    def disp(e) -> bool:
        if isinstance(e, ast.Dict):
            return all(isinstance(k_, ast.Constant) and isinstance(k_.value, str) for k_ in e.keys)
        if isinstance(e, ast.IfExp):
            return disp(e.body) and disp(e.orelse)
        return False
    if disp(v):
        return True
    if not isinstance(v, ast.Name):
        return False
    for fn_ in ast.walk(tree):
        if isinstance(fn_, (ast.FunctionDef, ast.AsyncFunctionDef)) and any(x is call for x in ast.walk(fn_)):
            if v.id in {a_.arg for a_ in fn_.args.posonlyargs + fn_.args.args + fn_.args.kwonlyargs} or (fn_.args.kwarg and fn_.args.kwarg.arg == v.id):
                return False
            binds = [st for st in ast.walk(fn_) if isinstance(st, (ast.Assign, ast.AnnAssign, ast.AugAssign, ast.NamedExpr, ast.For, ast.comprehension, ast.withitem))
                     for t_ in ([st.target] if hasattr(st, "target") else (st.targets if hasattr(st, "targets") else [st.optional_vars] if getattr(st, "optional_vars", None) is not None else []))
                     for z in ast.walk(t_) if isinstance(z, ast.Name) and z.id == v.id]
            muts = [x for x in ast.walk(fn_) if (isinstance(x, ast.Subscript) and isinstance(x.value, ast.Name) and x.value.id == v.id and isinstance(x.ctx, (ast.Store, ast.Del)))
                    or (isinstance(x, ast.Call) and isinstance(x.func, ast.Attribute) and isinstance(x.func.value, ast.Name) and x.func.value.id == v.id
                        and x.func.attr in ("update", "setdefault", "pop", "popitem", "clear"))]
            return bool(binds) and not muts and all(isinstance(b_, (ast.Assign, ast.AnnAssign)) and b_.value is not None and disp(b_.value) for b_ in binds)
    return False


def _only_literal_keywords(run: Run, name: str) -> bool:
    """Every use of the name in the repository is a call that passes no ``**mapping`` (and there is at least one)."""
    calls = 0
    for m in run.repo.modules.values():
        callfuncs = set()
        for c in ast.walk(m.tree):
            if isinstance(c, ast.Call):
                f = c.func
                if (isinstance(f, ast.Name) and f.id == name) or (isinstance(f, ast.Attribute) and f.attr == name):
                    callfuncs.add(id(f))
                    calls += 1
                    for k in c.keywords:
                        if k.arg is None and not _literal_mapping(m.tree, c, k.value):
                            return False
        for x in ast.walk(m.tree):
            if ((isinstance(x, ast.Name) and x.id == name) or (isinstance(x, ast.Attribute) and x.attr == name)) and isinstance(x.ctx, ast.Load) and id(x) not in callfuncs:
                return False        # handed on as a value: its callers are out of sight
    return calls > 0


def rule_KW(run: Run) -> RuleResult:
    """Functions that collect the user's keyword arguments keep no keyword for themselves."""
    res = RuleResult("R-KW")
    nec = ("lifted functions and partial applications hand every user argument on as a keyword (**kwargs); a named parameter of the collecting "
           "function (name=, key=, options= …) captures the user's argument of that name: it is never evaluated, its keys are not reported, and "
           "the user's function runs with its raw default (C05, C09, C13)")
    n = 0
    for m, cls, fn, q in iter_functions(run.repo):
        if m.name.startswith("labrea.mypy") or fn.args.kwarg is None:
            continue
        if fn.name in ("__init_subclass__", "__new__", "__prepare__") or (cls is not None and any("type" == ast.unparse(b) for b in cls.bases) and fn.name == "__init__"):
            continue        # class-creation hooks receive class keywords, not user arguments
        a = fn.args
        named = [x.arg for x in a.args + a.kwonlyargs]
        if cls is not None and named and not any(ast.unparse(d) == "staticmethod" for d in fn.decorator_list) and a.args and named[0] == a.args[0].arg and not a.posonlyargs:
            named = named[1:]
        capturing = [p for p in named if not p.startswith("__") and (q, p) not in KW_EXEMPT]
        if capturing and ((fn.name.startswith("_") and not fn.name.startswith("__")) or m.name.split(".")[-1].startswith("_")) and _only_literal_keywords(run, fn.name):
            # a private builder whose every call in the repository spells its keywords out: what arrives in ** is
            # chosen by the library, no user keyword can meet a parameter name
            capturing = []
        n += 1
        res.add(f"{q}:keeps no keyword beside **{a.kwarg.arg}", not capturing, m.relpath, fn.lineno,
                f"parameters beside **{a.kwarg.arg}: {named or 'none'}" if not capturing else f"parameter(s) {capturing} capture a user keyword argument of the same name", nec)
    res.count("collecting_functions", n)
    if n < 8:
        raise AnalysisError(f"R-KW: only {n} functions collecting keyword arguments found")
    # -- a function applied by the library gets its arguments from its signature: the classes that apply a function to evaluated
    # arguments offer ``lift`` for that (the Evaluatable defaults of the parameters become the arguments).  Building such an object
    # directly around a function and giving it no argument at all applies the function bare — right only for a callable that is
    # documented to take none
    liftable = [c for c in run.repo.classes.values() if not c.module.name.startswith("labrea.mypy") and "lift" in c.methods
                and any(ast.unparse(d) == "classmethod" for d in c.methods["lift"].decorator_list)]
    if len(liftable) < 2:
        raise AnalysisError(f"R-KW: only {len(liftable)} classes with a lift() constructor found (FunctionApplication, PartialApplication expected)")
    nec2 = ("a plain function handed to the library (a dataset definition, an implementation member, a pipeline step) reads its inputs through "
            "the Evaluatable defaults of its parameters; applied without them the body receives the raw Option objects, and validate/keys see "
            "no argument at all: they pass where evaluate fails (C10) and the options read are not reported (C13)")
    n_direct = 0
    for m, cls, fn, q in iter_functions(run.repo):
        if m.name.startswith("labrea.mypy"):
            continue
        for c in astu.calls_in(fn):
            f0 = c.func.value if isinstance(c.func, ast.Subscript) else c.func
            if not isinstance(f0, (ast.Name, ast.Attribute)):
                continue
            tgt = run.repo.resolve_class(m, f0)
            if tgt is None and isinstance(f0, ast.Name) and f0.id == "cls" and cls in liftable:
                tgt = cls
            if tgt not in liftable:
                continue
            n_direct += 1
            bare = len(c.args) == 1 and not isinstance(c.args[0], ast.Starred) and not c.keywords
            arg = ast.unparse(c.args[0]) if c.args else ""
            why_ok = _bare_ok(c.args[0]) if c.args else None
            res.add(f"{q}:{tgt.name}({arg[:30]}…) built directly is given arguments (a plain function goes through .lift)", (not bare) or why_ok is not None,
                    m.relpath, c.lineno, (f"bare, accepted: {why_ok}" if bare and why_ok else "arguments are passed on") if (not bare or why_ok) else
                    f"`{ast.unparse(c)[:70]}` applies `{arg}` with no argument: the Evaluatable defaults of its parameters are never evaluated, validated or keyed "
                    f"({tgt.name}.lift builds the arguments from the signature)", nec2)
    if n_direct < 3:
        raise AnalysisError(f"R-KW: only {n_direct} direct constructions of liftable applications found")
    res.count("direct_constructions", n_direct)
    # -- and lift asks the right question of the signature: a signature has at most one parameter of each variadic kind, so "does it
    # take **kwargs / *args" is any(); all() over the parameters is true only for the signature that consists of that one parameter
    n_q = 0
    for m, cls, fn, q in iter_functions(run.repo):
        if m.name.startswith("labrea.mypy"):
            continue
        for c in astu.calls_in(fn):
            if not (isinstance(c.func, ast.Name) and c.func.id in ("any", "all") and len(c.args) == 1 and isinstance(c.args[0], (ast.GeneratorExp, ast.ListComp, ast.SetComp))):
                continue
            elt = c.args[0].elt
            kinds = [x for x in ast.walk(elt) if isinstance(x, ast.Compare) and len(x.ops) == 1 and isinstance(x.ops[0], (ast.Eq, ast.Is))
                     and any(isinstance(y, ast.Attribute) and y.attr in ("VAR_KEYWORD", "VAR_POSITIONAL") for y in [x.left] + x.comparators)]
            if not kinds or not (isinstance(elt, ast.Compare) and elt is kinds[0]):
                continue
            n_q += 1
            res.add(f"{q}:a variadic parameter is looked for with any()", c.func.id == "any", m.relpath, c.lineno,
                    "any(kind is variadic)" if c.func.id == "any" else f"`{ast.unparse(c)[:80]}`: all() holds only when the variadic parameter is the only one — "
                    "a definition with named parameters and **kwargs is taken for one without, and the extra arguments given to it are dropped", nec)
    res.count("variadic_questions", n_q)
    if n_q < 1:
        res.add("labrea:no any()/all() question about variadic parameters", True, "", 0, "lift does not ask the signature for variadic parameters in that form", nec, trivial=True)
    return res


# ------------------------------------------------------------------ R-ON
DERIVED_OK = {
    ("Namespace", "_members[*].build()"): "an _Auto entry is not an expression itself: it builds its Option on demand",
    ("Bind", "func()"): "the bound function produces the expression to evaluate from the source value",
}


def rule_ON(run: Run) -> RuleResult:
    """Operations name the object the user built, never a copy made on the way."""
    res = RuleResult("R-ON")
    nec = ("a request names the object it operates on; an operation issued on a copy derived from a child on the fly (child.with_options(…), "
           "child.copy(), …) names an anonymous object: a handler that recognises the user's dataset by identity neither sees nor can "
           "substitute it there, although it does wherever else the dataset is used (C18)")
    import re as _re
    n = 0
    for cls in run.node_classes():
        kinds = _children_kind(run, cls)
        for op in ("evaluate", "validate", "keys", "explain"):
            owner, fn = cls.find_method(op)
            seen = {}
            for p in run.paths(cls, op):
                for e in p.events:
                    if e.kind != "op" or not isinstance(e.target, Child):
                        continue
                    m_ = _re.match(r"^(.*)\.(\w+)\(\)$", e.target.path)
                    if not m_:
                        continue
                    seen.setdefault(e.target.path, e.line)
            for path, line in sorted(seen.items()):
                n += 1
                why = DERIVED_OK.get((cls.name, path))
                meth = path.rsplit(".", 1)[-1][:-2]
                definers = [c for c in run.repo.classes.values() if meth in c.methods and not c.module.name.startswith("labrea.mypy")]
                if why is None and definers and not any(c.is_subclass_of("Evaluatable") or c.is_subclass_of("Effect") for c in definers):
                    # the method belongs to a helper class that is not an expression itself (an _Auto entry builds its Option on demand)
                    why = f"{meth}() is a method of {sorted(c.name for c in definers)}, not of an expression: its result is the expression it builds on demand"
                res.add(f"{cls.qualname}:{op}:operates on {path}", why is not None, owner.module.relpath, line,
                        why or f"{cls.name}.{op} issues {op} on the result of calling a method of a child ({path}) — a fresh object, not the one the expression was built from", nec)
    # expressions are never deep-copied: a copy of a dataset is another object (and takes its overload table, cache and lock along);
    # the one deep copy in the library is Value.evaluate handing out a copy of a plain wrapped value
    copies = []
    for m, cls, fn, q in iter_functions(run.repo):
        if m.name.startswith("labrea.mypy"):
            continue
        for c in astu.calls_in(fn):
            r_ = astu.resolve_in_function(run.repo, m, fn, c.func) if isinstance(c.func, (ast.Name, ast.Attribute)) else None
            if r_ and r_[0] == "external" and r_[1] in ("copy.deepcopy", "copy.copy"):
                copies.append((q, c.lineno, m.relpath, ast.unparse(c)[:60], _may_hold_expressions(run.repo, m, cls, fn, c.args[0] if c.args else None)))
    for q, line, rel, txt, holds in copies:
        ok = q.endswith("Value.evaluate")
        if not ok and holds is not True:
            # plain data (an options dictionary, a value found in it, a cached result) or nothing declared: not what the rule is about
            res.notes.append(f"{q}: {txt} copies {'plain data' if holds is False else 'an object of undeclared kind'} — not judged")
            continue
        res.add(f"{q}:deep copy of {txt}", ok, rel, line,
                "the wrapped plain value is handed out as a copy" if ok else f"{txt}: whatever expressions the copied object holds are cloned — operations on the clones "
                "name anonymous objects, and a clone of a dataset no longer shares registrations with the original", nec)
    if not any(c_[0].endswith("Value.evaluate") for c_ in copies):
        raise AnalysisError("R-ON: Value.evaluate no longer deep-copies its value (anchor vanished)")
    # (one summary obligation per module, so that a property can ask for "no expression object of this module is duplicated by copying")
    for m in run.repo.modules.values():
        if m.name.startswith("labrea.mypy"):
            continue
        bad_ = [c_ for c_ in copies if c_[2] == m.relpath and not c_[0].endswith("Value.evaluate") and c_[4] is True]
        res.add(f"{m.name}:duplicates no expression object by copy() / deepcopy()", not bad_, m.relpath, bad_[0][1] if bad_ else 1,
                "no copy of an expression object" if not bad_ else f"{bad_[0][0]}: {bad_[0][3]}", nec, trivial=not bad_)
    res.count("derived targets", n)
    res.count("classes", len(run.node_classes()))
    return res


_EXPRESSION_WORDS = ("Evaluatable", "Dataset", "Overloaded", "Pipeline", "Effect", "Cache", "Interface", "Switch", "Coalesce", "Computation", "Runtime", "Request")


def _may_hold_expressions(repo, m, cls, fn, arg) -> Optional[bool]:
    """Can the copied object be, or hold, an expression of the library?  True / False from the declared type of the argument
    (a parameter, a field of self, a local assigned from one), None when nothing is declared."""
    if arg is None:
        return None
    amap = astu.single_assign_map(fn)
    seen = 0
    while isinstance(arg, ast.Name) and arg.id in amap and seen < 4 and arg.id not in {a.arg for a in fn.args.posonlyargs + fn.args.args + fn.args.kwonlyargs}:
        arg = amap[arg.id]
        seen += 1
    ann = None
    if isinstance(arg, ast.Name):
        if arg.id in ("self", "cls") and cls is not None:
            ci = repo.classes.get(f"{m.name}.{cls.name}")
            return bool(ci is not None and (ci.is_subclass_of("Evaluatable") or ci.is_subclass_of("Effect") or ci.is_subclass_of("Cache")))
        for a_ in fn.args.posonlyargs + fn.args.args + fn.args.kwonlyargs + ([fn.args.vararg] if fn.args.vararg else []) + ([fn.args.kwarg] if fn.args.kwarg else []):
            if a_.arg == arg.id:
                ann = a_.annotation
        if ann is None:
            return None
    elif isinstance(arg, ast.Attribute) and isinstance(arg.value, ast.Name) and arg.value.id == "self" and cls is not None:
        ci = repo.classes.get(f"{m.name}.{cls.name}")
        if ci is not None:
            for kc in ci.mro():
                if arg.attr in kc.annotations:
                    ann = kc.annotations[arg.attr]
                    break
        if ann is None:
            return None
    elif isinstance(arg, ast.Call):
        # dict(x) / list(x) / x.get(k) … of something: judged by what it is made from
        inner = [a for a in arg.args if isinstance(a, (ast.Name, ast.Attribute))]
        if isinstance(arg.func, ast.Attribute) and isinstance(arg.func.value, (ast.Name, ast.Attribute)):
            inner.append(arg.func.value)
        verdicts = [_may_hold_expressions(repo, m, cls, fn, a) for a in inner]
        if any(v is True for v in verdicts):
            return True
        return False if verdicts and all(v is False for v in verdicts) else None
    else:
        return None
    txt = ann.value if isinstance(ann, ast.Constant) and isinstance(ann.value, str) else ast.unparse(ann)
    return any(w in txt for w in _EXPRESSION_WORDS)


def _children_kind(run: Run, cls) -> Dict[str, str]:
    out = {}
    for c in reversed(cls.mro()):
        for a, ann in c.annotations.items():
            out[a] = annotation_kind(run.repo, c.module, ann)
    return out


# ------------------------------------------------------------------ R-RG
def rule_RG(run: Run) -> RuleResult:
    res = RuleResult("R-RG")
    repo = run.repo
    nec = ("an implementation that omits an abstract member or names an unknown one must be rejected "
           "and register nothing: no raise may follow a register() on any path (C07)")
    im = repo.cls("Implementation")
    fn = im.methods.get("__init__")
    if fn is None:
        raise AnalysisError("Implementation.__init__ not found")
    ctx = Ctx(repo, unroll=2, max_paths=20000)
    # the private module-level helpers __init__ hands its work to are judged on their own below (private: of the same module, named
    # with an underscore, or living in a private module of the package — labrea/_members.py)
    def _private_helper(fi_, here) -> bool:
        return fi_.module is here or fi_.name.startswith("_") or fi_.module.name.split(".")[-1].startswith("_")
    helpers = []
    for c_ in astu.calls_in(fn):
        if isinstance(c_.func, ast.Name):
            r_ = repo.resolve_name(im.module, c_.func.id)
            if r_ and r_[0] == "func" and _private_helper(r_[1], im.module) and r_[1] not in helpers:
                helpers.append(r_[1])
    changed_ = True
    while changed_:
        changed_ = False
        for h_ in list(helpers):
            for c_ in astu.calls_in(h_.node):
                if isinstance(c_.func, ast.Name):
                    r_ = repo.resolve_name(h_.module, c_.func.id)
                    if r_ and r_[0] == "func" and _private_helper(r_[1], h_.module) and r_[1] not in helpers:
                        helpers.append(r_[1])
                        changed_ = True
    # helpers that (transitively) register are followed into; the others are calls that may raise when they hold a raise
    def _has(h_, pred, seen=None):
        seen = seen or set()
        if h_.node.name in seen:
            return False
        seen.add(h_.node.name)
        if pred(h_.node):
            return True
        for c_ in astu.calls_in(h_.node):
            if isinstance(c_.func, ast.Name):
                for g_ in helpers:
                    if g_.node.name == c_.func.id and _has(g_, pred, seen):
                        return True
        return False
    registering = {h_.node.name for h_ in helpers if _has(h_, lambda n_: any(astu.short_name(c) == "register" for c in astu.calls_in(n_)))}
    raising = {h_.node.name for h_ in helpers if _has(h_, lambda n_: any(isinstance(x, ast.Raise) for x in ast.walk(n_)))}
    # a helper that only packs what the others computed into private records (no raise of its own) is read through, so that the fields
    # read back from the records are the terms they were built from
    def _packs_records(h_) -> bool:
        if any(isinstance(x, ast.Raise) for x in ast.walk(h_.node)):
            return False
        for c_ in astu.calls_in(h_.node):
            if isinstance(c_.func, ast.Name):
                r_ = repo.resolve_name(h_.module, c_.func.id)
                if r_ and r_[0] == "class" and r_[1].name.startswith("_") and r_[1].find_method("__init__") is None and (
                        "NamedTuple" in [b.split(".")[-1] for b in r_[1].external_bases()]
                        or any(ast.unparse(d).split("(")[0].split(".")[-1] == "dataclass" for d in r_[1].node.decorator_list)):
                    return True
        return False
    packing = {h_.node.name for h_ in helpers if _packs_records(h_)}
    ctx.no_inline = ({h_.node.name for h_ in helpers} - registering - packing) | {"lift"}
    ps = analyse_method(ctx, im, "__init__")
    res.count("paths", len(ps))
    # private methods of other classes that register on behalf of their caller (``member._register_all(aliases, overload)``):
    # a method whose every iteration of its first parameter ends in ``self.register(element, value)``
    bulk: Dict[str, tuple] = {}
    for ci_ in repo.classes.values():
        if ci_.module.name.startswith("labrea.mypy"):
            continue
        for mn_, mfn_ in ci_.methods.items():
            if not mn_.startswith("_") or mn_.startswith("__") or not any(astu.short_name(c) == "register" for c in astu.calls_in(mfn_)):
                continue
            mps_ = astu.param_names(mfn_)
            if len(mps_) < 2:
                continue
            good_ = True
            seen_ = False
            for p_ in analyse_function(Ctx(repo), ci_.module, mfn_, cls=ci_):
                for e_ in p_.events:
                    if e_.kind == "call" and e_.text == "register":
                        seen_ = True
                        if not (len(e_.args) == 2 and e_.args[0].key() == f"elem({mps_[0]})" and not getattr(e_.args[0], "partial", False) and e_.args[1].key() == mps_[1]):
                            good_ = False
            if seen_:
                bulk[mn_] = (ci_.qualname, good_)
    n_reg = 0
    bad = None
    reg_events = {}
    for p in ps:
        idx = [i for i, e in enumerate(p.events) if e.kind == "call" and e.text.split(".")[-1] in ("register", "register()") or (e.kind == "call" and e.text in bulk)]
        if not idx:
            continue
        n_reg += 1
        for i in idx:
            e = p.events[i]
            reg_events.setdefault((e.file, e.line), e)
        later = [e for e in p.events[idx[0] + 1:] if e.kind == "raise" or (e.kind == "call" and e.text.split(".")[-1] in raising)]
        if later and bad is None:
            bad = (p.events[idx[0]].line, later[0].line, later[0].text)
    if n_reg == 0:
        raise AnalysisError("Implementation.__init__ no longer calls register (anchor vanished)")
    res.add("labrea.interface.Implementation.__init__:no raise after a registration", bad is None, im.module.relpath, fn.lineno,
            f"{n_reg} paths register; none raises afterwards" if bad is None else
            f"register at line {bad[0]} can be followed by `raise {bad[2][:60]}` at line {bad[1]} (a later member is found abstract after an earlier one was registered)", nec)
    # every member is registered under every alias: the registration is issued on an element of a member list (the lists
    # of the collected members) under an element of the aliases, both iterated whole
    ok = bool(reg_events)
    how = []
    for (fl_, ln_), e in sorted(reg_events.items()):
        tk = e.target.key() if e.target is not None else ""
        ak = e.args[0].key() if e.args else ""
        if e.text in bulk:
            # the whole collection of aliases handed to a method that registers under every element of it
            good = tk.startswith("elem(elem(") and ak == "aliases" and bulk[e.text][1]
            how.append(f"{tk[:50]}.{e.text}({ak[:30]}, …) [{bulk[e.text][0]}.{e.text} registers under every element: {bulk[e.text][1]}]")
            ok = ok and good
            continue
        # the registration is issued on an element of what was collected from the interfaces (a member list per name, or the members of
        # one interface at a time) under an element of the aliases, both walked whole
        from_members = tk.startswith("elem(elem(") or (tk.startswith("elem(") and "interfaces" in tk and not getattr(e.target, "partial", False))
        good = from_members and ak == "elem(aliases)" and not getattr(e.args[0], "partial", False)
        how.append(f"{tk[:50]}.register({ak[:30]}, …)")
        ok = ok and good
    res.add("labrea.interface.Implementation.__init__:every member registered under every alias", ok, im.module.relpath, fn.lineno,
            "; ".join(how) or "no registration", nec)
    # what is registered is the implementation member itself — the object looked up in the table of overloads built from
    # the class body — not a part of it (its inner definition, its overload table): the implementation's own dataset is the
    # node that is evaluated, logged, cached and seen by handlers when the interface member dispatches to it (C18)
    ok_v, how_v = bool(reg_events), []
    for (fl_, ln_), e in sorted(reg_events.items()):
        vk = e.args[1].key() if len(e.args) > 1 else ""
        good = vk.startswith(("call:get(", "getitem(", "elem(", "call:pop("))
        how_v.append(vk[:70])
        ok_v = ok_v and good
    res.add("labrea.interface.Implementation.__init__:registers the implementation member itself", ok_v, im.module.relpath, fn.lineno,
            "; ".join(sorted(set(how_v))) or "no registration", nec)
    # every interface's member of a name is collected (multi-interface implementations)
    bodies_ = [h_.node for h_ in helpers] + [fn]
    gm = next((h_ for h_ in helpers if any(isinstance(c, ast.Call) and isinstance(c.func, ast.Attribute) and c.func.attr in ("append", "setdefault") for c in ast.walk(h_.node))
               and any(isinstance(x, ast.Attribute) and x.attr == "__dict__" for x in ast.walk(h_.node))), None)
    gm_node = gm.node if gm is not None else fn
    appends = [c for c in astu.calls_in(gm_node) if isinstance(c.func, ast.Attribute) and c.func.attr == "append"
               and isinstance(c.func.value, (ast.Call, ast.Subscript, ast.Name))]
    discarded = [s_ for b_ in bodies_ for s_ in ast.walk(b_) if isinstance(s_, ast.Expr) and isinstance(s_.value, ast.Call) and isinstance(s_.value.func, ast.Attribute)
                 and s_.value.func.attr == "setdefault" and len(s_.value.args) == 2 and not (isinstance(s_.value.args[1], (ast.List, ast.Dict)) and not getattr(s_.value.args[1], "elts", getattr(s_.value.args[1], "keys", [])))]
    ok = bool(appends) and not discarded
    res.add("labrea.interface._get_members:collects the member of every interface (append, not first-wins)", ok, im.module.relpath, gm_node.lineno,
            "members.setdefault(name, []).append(member)" if ok else ("setdefault(name, [member]) keeps only the first interface's member" if discarded else "no append into the member list"),
            "an implementation of several interfaces sharing a member name must be checked against and registered on every one of them (C07)")
    # unknown member names are rejected
    ok = False
    bo_line = fn.lineno
    for b_ in bodies_:
        for n, t_ in astu.effective_tests(b_):
            # a membership test of the member name (in either polarity / De Morgan form) that guards a raise
            if any(isinstance(x, ast.Compare) and len(x.ops) == 1 and isinstance(x.ops[0], (ast.NotIn, ast.In)) for x in ast.walk(t_)) \
                    and (any(isinstance(s_, ast.Raise) for s_ in n.body) or any(isinstance(s_, ast.Raise) for s_ in n.orelse)):
                ok = True
                bo_line = n.lineno
    res.add("labrea.interface._build_overloads:unknown member rejected", ok, im.module.relpath, bo_line, "if key not in members: raise TypeError", nec)
    # several aliases are given as a *list* (as for Dataset.overload): any other hashable — a tuple above all, the natural alias of a
    # dispatch over several options — is one alias and must be registered whole
    import re as _re
    for q_ in ("labrea.interface.implements",):
        fi_ = repo.functions.get(q_)
        if fi_ is None:
            raise AnalysisError(f"{q_} not found")
        kinds = set()
        for p_ in analyse_function(Ctx(repo), fi_.module, fi_.node):
            for k_, pol_ in Frame.atoms(p_.conds).items():
                m_ = _re.match(r"call:isinstance\((\w+),(.*)\)$", k_)
                if m_ and "alias" in m_.group(1):
                    kinds |= {x.split(".")[-1] for x in _re.findall(r"(?:name|class|ext)<([^>]+)>", m_.group(2))}
        # the aliases are walked once per interface member: they are handed to Implementation as a collection that can be
        # walked again (a tuple / list), never as an iterator (iter(...), map(...), a generator) that is empty after the first member
        probe = ast.parse("def __probe__(interface_, alias, cls):\n    return implements(interface_, alias=alias)(cls)").body[0]
        for n_ in ast.walk(probe):
            if hasattr(n_, "lineno"):
                n_.lineno = n_.end_lineno = fi_.node.lineno
        iparams_ = [a.arg for a in fn.args.posonlyargs + fn.args.args][1:]
        ai_ = iparams_.index("aliases") if "aliases" in iparams_ else len(iparams_) - 1
        shapes_, ok_it = set(), True
        for p_ in analyse_function(Ctx(repo), fi_.module, probe):
            r_ = p_.ret
            if p_.status == "ret" and isinstance(r_, Sym) and r_.head == "new:Implementation" and len(r_.args) > ai_:
                a_ = r_.args[ai_]
                if isinstance(a_, Sym) and a_.head == "kw:aliases" and a_.args:
                    a_ = a_.args[0]
                hd_ = a_.head if isinstance(a_, Sym) else type(a_).__name__
                shapes_.add(hd_)
                from .interp import Coll as _Coll
                if (isinstance(a_, Sym) and hd_.split(":")[-1] in ("iter", "map", "filter", "zip", "reversed", "chain", "itertools.chain", "islice", "itertools.islice")) or \
                        (isinstance(a_, _Coll) and getattr(a_, "kind", "") == "gen"):
                    ok_it = False
        res.add(f"{q_}:the aliases are a collection that can be walked once per member", ok_it and bool(shapes_), fi_.module.relpath, fi_.node.lineno,
                f"handed to Implementation as {sorted(shapes_)}" + ("" if ok_it else ": an iterator is exhausted after the first interface member — every later member keeps its default"),
                "every member of the interface is registered under every alias (C07, C19): with a one-shot iterator only the first member is")
        ok_ = kinds == {"list"}
        res.add(f"{q_}:only a list of aliases is registered element-wise", ok_, fi_.module.relpath, fi_.node.lineno,
                f"the alias argument is split when it is a {sorted(kinds)}" + ("" if ok_ else ": a tuple (or other hashable sequence) is a single alias"),
                "an implementation registered under the elements of a tuple alias instead of under the tuple is never selected by a dispatch that "
                "evaluates to that tuple: the default (or a failure) is used instead (C05, C07)")
    return res


# ------------------------------------------------------------------ R-ID
def rule_ID(run: Run) -> RuleResult:
    res = RuleResult("R-ID")
    repo = run.repo
    nec = "all members of an interface must dispatch on the interface's dispatch, else they resolve to different implementations (C07)"
    it = repo.cls("Interface")
    fn = it.methods.get("__init__")
    if fn is None:
        raise AnalysisError("Interface.__init__ not found")
    f = it.module.relpath
    # every site that builds or adopts a member dataset (in __init__ itself or in a helper it calls, directly or
    # through a table of installers) hands it the interface's dispatch
    ips_all = analyse_method(Ctx(repo), it, "__init__")
    sites: Dict[tuple, list] = {}
    dsp = ([a.arg for a in fn.args.posonlyargs + fn.args.args if a.arg == "dispatch"] or ["dispatch"])[0]
    for p in ips_all:
        for e in p.events:
            if e.kind != "call":
                continue
            if e.text in ("labrea.dataset.dataset", "labrea.dataset.abstractdataset"):
                s_ = sites.setdefault((e.file, e.line, e.text.rsplit(".", 1)[-1]), [True, ""])
                s_[0] = s_[0] and any(a.key() == f"kw:dispatch({dsp})" for a in e.args)
                s_[1] = ", ".join(a.key()[:40] for a in e.args)
            if e.text == "set_dispatch":
                s_ = sites.setdefault((e.file, e.line, "set_dispatch"), [True, ""])
                s_[0] = s_[0] and len(e.args) == 1 and e.args[0].key() == dsp
                s_[1] = ", ".join(a.key()[:40] for a in e.args)
    # the member kinds are told apart by what is made a dataset (the annotation's stub, the function itself, the stub around a plain
    # value) or adopted — two kinds may well share one call site
    kinds_ = set()
    for p in ips_all:
        for e in p.events:
            if e.kind == "call" and e.text in ("labrea.dataset.dataset", "labrea.dataset.abstractdataset"):
                first_ = next((a for a in e.args if not (isinstance(a, Sym) and a.head.startswith("kw:"))), None)
                kinds_.add((e.text.rsplit(".", 1)[-1], first_.key()[:80] if first_ is not None else ""))
            elif e.kind == "call" and e.text == "set_dispatch":
                kinds_.add(("set_dispatch", ""))
    n = max(len(sites), len(kinds_))
    for (fl_, ln_, nm), (ok, how) in sorted(sites.items()):
        if nm == "set_dispatch":
            res.add("labrea.interface.Interface.__init__:existing Dataset member gets set_dispatch(dispatch)", ok, fl_, ln_, f"set_dispatch({how})", nec)
        else:
            res.add(f"labrea.interface.Interface.__init__:{nm}(…) receives the interface dispatch", ok, fl_, ln_, f"{nm}({how})", nec)
    if n < 4:
        res.add("labrea.interface.Interface.__init__:four member kinds handled", False, f, fn.lineno, f"only {n} dispatch-setting sites (annotation, function, Dataset, plain value)", nec)
    # an abstract member is declared for an annotated name only when the name is public and the class body gives it no value:
    # a value found there is the member's default implementation (the second loop adopts it; for a value that already is a
    # dataset it only sets the dispatch, so an abstract dataset stored first would stay and the default would be lost)
    import re as _re0
    n_abs, ok_abs, why_abs = 0, True, ""
    for p in ips_all:
        for e in p.events:
            if e.kind == "call" and e.text == "labrea.dataset.abstractdataset":
                n_abs += 1
                # (an element that came through a filtering comprehension / generator helper satisfies the filter)
                kept_ = [(f_.text, True, f_.target.key()) for f_ in p.events[:p.events.index(e)] if f_.kind == "filter" and f_.target is not None]
                at0 = Frame.atoms(list(p.conds[:e.ncond]) + kept_)
                names_ = {m_.group(1) for k_ in at0 for m_ in [_re0.match(r"cmp:In\((.+),dct\)$", k_)] if m_}
                good = any(at0.get(f"cmp:In({x_},dct)") is False and at0.get(f"call:startswith({x_},Const('_'))") is False for x_ in names_)
                if not good:
                    ok_abs = False
                    why_abs = (f"abstractdataset(…) at line {e.line} is reached without having established that the annotated name is public and has no value in the class body "
                               f"(conditions {[c[0][:40] for c in p.conds[:e.ncond]]})")
    res.add("labrea.interface.Interface.__init__:abstract member only for a public annotated name without a value", ok_abs and n_abs > 0, f, fn.lineno,
            why_abs or f"{n_abs} paths declare an abstract member, each after `name in dct` and the underscore test came out false", nec)
    # every member that passes the underscore guard gets the dispatch, whatever its kind
    ips = [p for p in ips_all if p.status == "ret"]
    ok = bool(ips)
    why = ""
    n_set = 0
    for p in ips:
        guards = 0
        at_ = Frame.atoms(p.conds)
        for k, pol in at_.items():
            if k.startswith("call:startswith(") and k.endswith(",Const('_'))") and pol is False:
                nm_ = k[len("call:startswith("):-len(",Const('_'))")]
                # an annotation-only member that the class body also defines is left to the second loop
                if at_.get(f"cmp:In({nm_},dct)") is True:
                    continue
                guards += 1
        sets = 0
        for e in p.events:
            if e.kind != "call":
                continue
            if e.text in ("labrea.dataset.dataset", "labrea.dataset.abstractdataset") and any(a.key() == "kw:dispatch(dispatch)" for a in e.args):
                sets += 1
            if e.text == "set_dispatch" and e.args and e.args[0].key() == "dispatch":
                sets += 1
        n_set += sets
        if sets < guards:
            ok = False
            why = f"a member that is not underscore-prefixed passes through __init__ without receiving the dispatch (conditions {[c[0][:40] for c in p.conds]})"
    ok = ok and n_set >= 3
    res.add("labrea.interface.Interface.__init__:member-kind chain exhaustive, every branch sets the dispatch", ok, f, fn.lineno,
            why or f"{len(ips)} paths; every processed member reaches dataset(…, dispatch=dispatch) / set_dispatch(dispatch)", nec)
    # the dispatch handed to Interface() is the one given to @interface; given as a string it is an option key and becomes
    # Option(key).  Read off the object ``interface(dispatch)(cls)`` builds, whatever locals and helpers are on the way.
    def str_dispatch(paths, get_term, label, relpath, line):
        ok_, seen_, why_ = True, set(), ""
        for p in paths:
            if p.status != "ret":
                continue
            is_str = Frame.atoms(p.conds).get("call:isinstance(dispatch,name<str>)")
            t = get_term(p)
            if t is None or is_str is None:
                continue
            seen_.add(is_str)
            if is_str and not (isinstance(t, New) and t.cls.name == "Option" and t.attrs.get("key") is not None and t.attrs["key"].key() == "dispatch"):
                ok_, why_ = False, f"a string dispatch is used as {t.key()[:60]}"
            if not is_str and t.key() != "dispatch":
                ok_, why_ = False, f"a non-string dispatch becomes {t.key()[:60]}"
        res.add(f"{label}:a string dispatch becomes Option(key)", ok_ and seen_ == {True, False}, relpath, line, why_ or "Option(dispatch) if isinstance(dispatch, str)", nec)
    w = repo.functions.get("labrea.interface.interface")
    if w is not None:
        wp = [a.arg for a in w.node.args.posonlyargs + w.node.args.args]
        probe = ast.parse(f"def __probe__({wp[0] if wp else 'dispatch'}, cls):\n    return interface({wp[0] if wp else 'dispatch'})(cls)").body[0]
        for n_ in ast.walk(probe):
            if hasattr(n_, "lineno"):
                n_.lineno = n_.end_lineno = w.node.lineno
        iparams = [a.arg for a in fn.args.posonlyargs + fn.args.args][1:]
        di = iparams.index("dispatch") if "dispatch" in iparams else len(iparams) - 1

        def handed(p):
            r = p.ret
            if isinstance(r, Sym) and r.head == "new:Interface" and len(r.args) > di:
                a_ = r.args[di]
                return a_.args[0] if isinstance(a_, Sym) and a_.head == "kw:dispatch" and a_.args else a_
            return None
        pps = analyse_function(Ctx(repo), w.module, probe)
        rets = [p for p in pps if p.status == "ret"]
        ok = bool(rets) and all(handed(p) is not None and "dispatch" in handed(p).key() for p in rets)
        res.add("labrea.interface.interface:passes its dispatch to Interface(...)", ok, f, w.node.lineno,
                "; ".join(sorted({(handed(p).key()[:60] if handed(p) is not None else "no Interface built") for p in rets})), nec)
        if wp and wp[0] != "dispatch":
            raise AnalysisError("R-ID: the parameter of interface() is no longer called dispatch (public keyword)")
        str_dispatch(pps, handed, "labrea.interface.interface", f, w.node.lineno)
    else:
        res.add("labrea.interface.interface:passes its dispatch to Interface(...)", False, f, 0, "interface() not found", nec)
    df = repo.cls("DatasetFactory")
    dinit = df.methods.get("__init__")
    if dinit is not None:
        def stored(p):
            st = [e for e in p.events if e.kind == "store" and len(e.args) == 2 and e.args[0].key() == "self" and e.args[1].key() == Const("dispatch").key()]
            return st[-1].target if st else None
        str_dispatch([p for p in analyse_function(Ctx(repo), df.module, dinit, cls=df) if Frame.atoms(p.conds).get("cmp:Is(dispatch,Const(None))") is not True],
                     stored, "labrea.dataset.DatasetFactory.__init__", df.module.relpath, dinit.lineno)
    return res


# ------------------------------------------------------------------ R-EH
def rule_EH(run: Run) -> RuleResult:
    res = RuleResult("R-EH")
    repo = run.repo
    nec = ("every failure must surface as an EvaluationError whose source is the object evaluate() was "
           "called on, chained (`from e`) to the original exception (C12)")
    regd = astu.default_handler_registrations(repo).get("EvaluateRequest", [])
    if len(regd) != 1:
        res.add("labrea.types._evaluate_request:registered as the EvaluateRequest default", False, "labrea/types.py", 0, f"default handlers of EvaluateRequest: {regd}", nec)
        return res
    h = repo.func(regd[0])
    f = h.module.relpath
    ln = h.node.lineno
    ps = analyse_function(Ctx(repo), h.module, h.node)
    res.count("paths", len(ps))
    ok_call = ok_same = ok_wrap = ok_exc = ok_noret = True
    d_call = d_same = d_wrap = d_exc = d_noret = ""
    saw_same = saw_wrap = saw_exc = False
    SRC = "attr:evaluatable(request)"
    SAME = f"cmp:Is(attr:source(exc-of({SRC})),{SRC})"

    def own(p):
        """True when the path has established `e.source is request.evaluatable`,
        False when it has refuted it, None when it is unknown on this path."""
        from .interp import Frame
        for c in p.conds:
            if not c[2]:
                continue
            k, pol = Frame.norm_cond(c[2], c[1])
            if k == SAME:
                return pol
            if k.startswith("and(") and SAME in k and pol:
                return True
            if k.startswith("or(") and SAME in k and not pol:
                return False
        return None

    def wraps(rev, cause):
        return (rev.target is not None and rev.target.key().startswith("new:EvaluationError(")
                and rev.target.key().endswith(f",{SRC})") and cause == "from e")

    for p in ps:
        in_handler = [c for c in p.conds if c[0].startswith("except")]
        if p.status == "ret":
            if in_handler:
                ok_noret = False
                d_noret = "a handler path returns instead of raising"
            elif p.ret.key() != f"call:__labrea_evaluate__({SRC},attr:options(request))":
                ok_call = False
                d_call = f"returns {p.ret.key()[:80]}"
            else:
                ev = [e for e in p.events if e.kind == "call" and e.text == "__labrea_evaluate__"]
                if not ev or not any(re.search(r"\b(Base)?Exception\b", g) for g in ev[0].guards):
                    ok_call = False
                    d_call = "__labrea_evaluate__ is not inside a try that catches Exception"
        elif p.status == "raise":
            if not in_handler:
                continue
            hname = in_handler[0][0]
            typ, cause, line = p.exc
            rev = [e for e in p.events if e.kind == "raise"][-1]
            st = own(p)
            covers_eval = "EvaluationError" in hname or re.search(r"\b(Base)?Exception\b", hname) is not None
            covers_other = re.search(r"\b(Base)?Exception\b", hname) is not None
            if st is True:
                saw_same = True
                if rev.text != "<reraise>" and not (rev.target is not None and rev.target.key() == f"exc-of({SRC})"):
                    ok_same = False
                    d_same = f"own error not re-raised unchanged: raise {rev.text[:50]}"
                continue
            # not known to be this node's own error: must be wrapped with this source, chained
            good = wraps(rev, cause)
            if covers_eval and "EvaluationError" in hname and st is None:
                ok_same = False
                d_same = "EvaluationError handler does not test `e.source is request.evaluatable`"
            if covers_eval:
                saw_wrap = saw_wrap or good
                if not good:
                    ok_wrap = False
                    d_wrap = f"nested error wrapped as {rev.text[:70]} ({cause})"
            if covers_other:
                saw_exc = saw_exc or good
                if not good:
                    ok_exc = False
                    d_exc = f"foreign exception wrapped as {rev.text[:70]} ({cause})"
    res.add("labrea.types._evaluate_request:calls __labrea_evaluate__ inside the wrapping try", ok_call, f, ln, d_call or "try: return request.evaluatable.__labrea_evaluate__(request.options)", nec)
    res.add("labrea.types._evaluate_request:own EvaluationError re-raised unchanged", ok_same and saw_same, f, ln, d_same or "if e.source is request.evaluatable: raise e", nec)
    res.add("labrea.types._evaluate_request:nested EvaluationError wrapped with this source, chained", ok_wrap and saw_wrap, f, ln, d_wrap or "raise EvaluationError(…, request.evaluatable) from e", nec)
    res.add("labrea.types._evaluate_request:any other exception wrapped with this source, chained", ok_exc and saw_exc, f, ln, d_exc or "except Exception as e: raise EvaluationError(…, request.evaluatable) from e", nec)
    res.add("labrea.types._evaluate_request:no handler path returns", ok_noret, f, ln, d_noret or "handlers only raise", nec)
    # the error classes carry source / key
    ex = repo.cls("EvaluationError")
    init = ex.methods.get("__init__")
    ok = init is not None
    if ok:
        ps_ = astu.param_names(init)
        src_p = ps_[1] if len(ps_) > 1 else "source"
        ips = analyse_function(Ctx(repo), ex.module, init, cls=ex)
        ok = bool(ips) and all(p.status == "ret" and any(e.kind == "store" and len(e.args) == 2 and e.args[0].key() == "self" and e.args[1].key() == Const("source").key()
                                                          and e.target is not None and e.target.key() == src_p for e in p.events) for p in ips)
    res.add("labrea.exceptions.EvaluationError.__init__:stores source", ok, ex.module.relpath, init.lineno if init else 0, "self.source = source", nec)
    kn = repo.cls("KeyNotFoundError")
    init = kn.methods.get("__init__")
    ok = init is not None and kn.is_subclass_of("EvaluationError")
    if ok:
        ps_ = astu.param_names(init)
        kps = analyse_function(Ctx(repo), kn.module, init, cls=kn)
        ok = bool(kps) and all(p.status == "ret" and any(e.kind == "store" and len(e.args) == 2 and e.args[0].key() == "self" and e.args[1].key() == Const("key").key()
                                                          and e.target is not None and e.target.key() == ps_[0] for e in p.events) for p in kps) \
            and any(astu.short_name(c) == "__init__" and len(c.args) == 2 and ast.unparse(c.args[1]) == ps_[1] for c in astu.calls_in(init))
    res.add("labrea.exceptions.KeyNotFoundError.__init__:stores key, passes source on", ok, kn.module.relpath, init.lineno if init else 0, "self.key = key; super().__init__(…, source)", nec)
    # validate / keys / explain requests are not wrapped the way evaluate requests are: what an expression or an effect raises there itself
    # reaches the caller as it is — and Coalesce, Switch and Option step over a part that cannot be used by catching EvaluationError.  So
    # every exception the library constructs and raises in these operations (private helpers followed) is an EvaluationError
    from .interp import exc_is_subclass
    import re as _re
    n_r = 0
    seen_r = {}
    for ci in repo.classes.values():
        if ci.module.name.startswith("labrea.mypy") or not (ci.is_subclass_of("Evaluatable") or ci.is_subclass_of("Effect")):
            continue
        for op in ("validate", "keys", "explain"):
            fn_ = ci.methods.get(op)
            if fn_ is None:
                continue
            try:
                ps_o = analyse_function(Ctx(repo), ci.module, fn_, cls=ci)
            except AnalysisError:
                continue
            for p in ps_o:
                for e in p.events:
                    if e.kind != "raise" or e.depth != 0 or e.target is None:
                        continue
                    m_ = _re.match(r"new:([A-Za-z_][A-Za-z_0-9]*)\(", e.target.key())
                    if not m_:
                        continue
                    n_r += 1
                    good = exc_is_subclass(repo, m_.group(1), "EvaluationError")
                    k_ = (ci.qualname, op, m_.group(1))
                    if k_ not in seen_r:
                        seen_r[k_] = (good is not False, e.line)
    for (q_, op, en_), (good, line_) in sorted(seen_r.items()):
        res.add(f"{q_}.{op}:raises {en_}, an EvaluationError", good, repo.classes[q_].module.relpath if q_ in repo.classes else f, line_,
                "" if good else f"{en_} is not an EvaluationError: a Coalesce / Switch / Option that tries this part and would step over it (except EvaluationError) fails instead", nec)
    if n_r < 10:
        raise AnalysisError(f"R-EH: only {n_r} raise sites found in validate/keys/explain")
    return res


# ------------------------------------------------------------------ R-CH
def rule_CH(run: Run) -> RuleResult:
    res = RuleResult("R-CH")
    repo = run.repo
    nec = "the cause chain must lead to the original exception: raise … from e (or re-raise the caught object) (C12)"
    n = 0
    for m, cls, fn, q in iter_functions(repo):
        for h in astu.walk_no_nested(fn):
            if not isinstance(h, ast.ExceptHandler):
                continue
            for r in astu.walk_no_nested(h):
                if not isinstance(r, ast.Raise):
                    continue
                if r.exc is None:
                    n += 1
                    res.add(f"{q}:bare re-raise in except {ast.unparse(h.type) if h.type else ''}", True, m.relpath, r.lineno, "raise", nec)
                    continue
                if isinstance(r.exc, ast.Name) and h.name and r.exc.id == h.name:
                    n += 1
                    res.add(f"{q}:re-raises the caught object in except {ast.unparse(h.type) if h.type else ''}", True, m.relpath, r.lineno, ast.unparse(r), nec)
                    continue
                if isinstance(r.exc, ast.Call):
                    nm = astu.short_name(r.exc)
                    is_eval = exc_is_subclass(repo, nm, "EvaluationError")
                    if not is_eval:
                        # AttributeError translation in Namespace.__getattr__ etc.
                        continue
                    n += 1
                    if h.name is None:
                        # unnamed handler: nothing to chain explicitly; Python records the context
                        res.add(f"{q}:raise {nm} inside unnamed handler (implicit context)", True, m.relpath, r.lineno, ast.unparse(r)[:90], nec)
                        continue
                    ok = r.cause is not None and isinstance(r.cause, ast.Name) and r.cause.id == h.name
                    res.add(f"{q}:raise {nm} chained to the caught exception", ok, m.relpath, r.lineno, ast.unparse(r)[:90], nec)
    if n < 7:
        raise AnalysisError(f"R-CH found only {n} raises inside handlers")
    return res


# ------------------------------------------------------------------ R-CD
BROAD_OK = {
    "labrea.types._evaluate_request": "wraps every exception into EvaluationError and re-raises",
    "labrea.types.Value.evaluate": "deepcopy fallback: returns the original value",
}
FALLTHROUGH = {
    "labrea.conditional.Switch._lookup", "labrea.coalesce.Coalesce._delegate", "labrea.types.Bind.explain",
    "labrea.conditional.Switch.explain", "labrea.iterable.Map.explain", "labrea.coalesce.Coalesce.explain",
}


def _always_raises(body) -> bool:
    """Every path through the statement list ends in a raise."""
    if not body:
        return False
    last = body[-1]
    if isinstance(last, ast.Raise):
        return True
    if isinstance(last, ast.If):
        return _always_raises(last.body) and _always_raises(last.orelse)
    if isinstance(last, ast.With):
        return _always_raises(last.body)
    if isinstance(last, ast.Try):
        return (_always_raises(last.finalbody) or
                ((_always_raises(last.body) or _always_raises(last.orelse)) and all(_always_raises(h.body) for h in last.handlers)))
    return False


def _typed_exit(ci) -> Optional[list]:
    """[(type names, always raises or suppresses)] for a context-manager class whose ``__exit__`` acts on the exception by
    type (``if isinstance(exc, T): raise … from exc`` / ``return True``), else None."""
    r = ci.find_method("__exit__") if ci is not None else None
    if r is None or ci.find_method("__enter__") is None:
        return None
    xfn = r[1]
    names = [a.arg for a in xfn.args.posonlyargs + xfn.args.args]
    if len(names) < 3:
        return None
    out = []
    for s_ in xfn.body:
        if isinstance(s_, ast.Expr) and isinstance(s_.value, ast.Constant):
            continue
        if isinstance(s_, ast.If) and isinstance(s_.test, ast.Call) and isinstance(s_.test.func, ast.Name) and len(s_.test.args) == 2 \
                and ((s_.test.func.id == "isinstance" and isinstance(s_.test.args[0], ast.Name) and s_.test.args[0].id == names[2])
                     or (s_.test.func.id == "issubclass" and isinstance(s_.test.args[0], ast.Name) and s_.test.args[0].id == names[1])) and not s_.orelse:
            ty = s_.test.args[1]
            types = [ast.unparse(t) for t in (ty.elts if isinstance(ty, ast.Tuple) else [ty])]
            last = s_.body[-1] if s_.body else None
            suppress = isinstance(last, ast.Return) and isinstance(last.value, ast.Constant) and last.value.value is True
            out.append((types, _always_raises(s_.body), suppress, s_.lineno))
            continue
        if isinstance(s_, ast.Return) and (s_.value is None or (isinstance(s_.value, ast.Constant) and not s_.value.value)):
            continue
        return None
    return out or None


def _cm_handlers(repo, m, fn) -> list:
    """(with node, class, typed exits) for every ``with`` of the function whose manager is an instance of a private
    context-manager class of the repository with a typed ``__exit__`` (built in place or bound to a local first)."""
    amap = astu.single_assign_map(fn)
    out = []
    for w in astu.walk_no_nested(fn):
        if not isinstance(w, ast.With):
            continue
        for it in w.items:
            ce = it.context_expr
            if isinstance(ce, ast.Name) and ce.id in amap:
                ce = amap[ce.id]
            if isinstance(ce, ast.Call) and isinstance(ce.func, (ast.Name, ast.Attribute)):
                ci = repo.resolve_class(m, ce.func)
                if ci is not None and ci.name.startswith("_") and not (ci.is_subclass_of("Evaluatable") or ci.is_subclass_of("Effect")):
                    te = _typed_exit(ci)
                    if te:
                        out.append((w, ci, te))
    return out


_USER_OPS = {"evaluate", "validate", "keys", "explain", "transform", "run", "fingerprint", "get", "set", "exists", "apply", "bind"}


def _runs_user_code(stmts, fn, cls) -> bool:
    """Can the statements run an operation on an expression or a callable the user supplied?  Calls of x.evaluate/validate/
    keys/explain/transform/run(...), Cache protocol calls, calls of a parameter or of an attribute of self / of a parameter
    (``self.func(...)``, ``request.handler(...)``), calls of the result of a call (``f(options)(value)``), and calls of
    methods of the same class (followed into) count; module-level functions, builtins and methods of plain values do not."""
    params = {a.arg for a in fn.args.posonlyargs + fn.args.args + fn.args.kwonlyargs}
    for s_ in stmts:
        for c in ast.walk(s_):
            if not isinstance(c, ast.Call):
                continue
            f = c.func
            if isinstance(f, ast.Call):
                return True
            if isinstance(f, ast.Name) and f.id in params:
                return True
            if isinstance(f, ast.Attribute):
                if f.attr in _USER_OPS:
                    base = ast.unparse(f.value)
                    if f.attr in ("get", "set", "exists") and "cache" not in base.lower():
                        continue        # dict.get / mapping look-ups on plain data, not the Cache protocol
                    if f.attr == "keys" and not c.args:
                        continue        # mapping.keys()
                    return True
                if isinstance(f.value, ast.Name) and f.value.id in (params | {"self", "cls"}) and f.attr not in ("__dict__",) and not f.attr.startswith("__") \
                        and isinstance(f.value, ast.Name) and f.value.id in ("self", "cls") and cls is not None:
                    # a method of the same class: look into it one level
                    for st in getattr(cls, "body", []):
                        if isinstance(st, ast.FunctionDef) and st.name == f.attr:
                            if _runs_user_code(st.body, st, None):
                                return True
                            break
                    else:
                        return True         # a callable field of the object
    return False


def rule_CD(run: Run) -> RuleResult:
    res = RuleResult("R-CD")
    repo = run.repo
    nec = ("a handler that catches more than it names swallows user errors: Switch default / Coalesce "
           "fall-through catch EvaluationError only; nothing but the request handler catches Exception (C12, C05)")
    n = 0
    seen_ft = set()
    # the registered fall-through points: the selector of Switch, the selector of Coalesce (whatever they are called)
    # and the four explain methods that fall back statically; the one broad handler is the default evaluate handler
    FT = {q for q in FALLTHROUGH if q.endswith(".explain")}
    ft_label = {q: q for q in FT}
    for cname, label in (("Switch", "labrea.conditional.Switch._lookup"), ("Coalesce", "labrea.coalesce.Coalesce._delegate")):
        ci_ = repo.cls(cname)
        sel_ = _selector(repo, ci_)
        if sel_ is not None:
            FT.add(sel_.qualname)
            ft_label[sel_.qualname] = label
    broad_ok = dict(BROAD_OK)
    for q_ in astu.default_handler_registrations(repo).get("EvaluateRequest", []):
        broad_ok[q_] = BROAD_OK["labrea.types._evaluate_request"]
    # a private method that only a registered fall-through point (transitively) refers to acts on its behalf
    ft_of: Dict[str, str] = {q: q for q in FT}
    changed = True
    while changed:
        changed = False
        for ci in repo.classes.values():
            for mn, mfn in ci.methods.items():
                q = f"{ci.qualname}.{mn}"
                if q in ft_of or mn in ("evaluate", "validate", "keys", "explain"):
                    continue
                users = {f"{ci.qualname}.{un}" for un, ufn in ci.methods.items() if ufn is not mfn
                         for x in ast.walk(ufn) if isinstance(x, ast.Attribute) and x.attr == mn and isinstance(x.value, ast.Name) and x.value.id in ("self", "cls", ci.name)}
                if users and all(u in ft_of for u in users) and len({ft_of[u] for u in users}) == 1:
                    ft_of[q] = ft_of[next(iter(users))]
                    changed = True
        # likewise a private module-level function (a context manager written as a generator, a small helper) that only one
        # registered fall-through point refers to
        for q, fi in repo.functions.items():
            private_ = fi.name.startswith("_") or fi.module.name.rsplit(".", 1)[-1].startswith("_")     # (a private module's functions are private)
            if q in ft_of or not private_ or fi.module.name.startswith("labrea.mypy"):
                continue
            users = set()
            for m2, cls2, fn2, q2 in iter_functions(repo):
                if fn2 is fi.node or m2.name.startswith("labrea.mypy"):
                    continue
                if any(isinstance(x, ast.Name) and x.id == fi.name for x in ast.walk(fn2)):
                    r2 = repo.resolve_name(m2, fi.name)
                    if r2 and r2[0] == "func" and r2[1] is fi:
                        users.add(q2)
            if users and all(u in ft_of for u in users) and len({ft_of[u] for u in users}) == 1:
                ft_of[q] = ft_of[next(iter(users))]
                changed = True
    for m, cls, fn, q in iter_functions(repo):
        if m.name.startswith("labrea.mypy"):
            continue
        for h in astu.walk_no_nested(fn):
            if not isinstance(h, ast.ExceptHandler):
                continue
            n += 1
            types = ["BaseException"] if h.type is None else [ast.unparse(t) for t in (h.type.elts if isinstance(h.type, ast.Tuple) else [h.type])]
            broad = [t for t in types if t.split(".")[-1] in ("Exception", "BaseException")]
            if broad:
                ok = q in broad_ok
                why = broad_ok.get(q, "broad handler outside the request handler / Value.evaluate")
                if not ok:
                    try_node = next((t_ for t_ in ast.walk(fn) if isinstance(t_, ast.Try) and h in t_.handlers), None)
                    if try_node is not None and not _runs_user_code(try_node.body, fn, cls):
                        # what it guards is library plumbing only (a copy, a repr, a dictionary probe): no failure of the user's
                        # expressions, bodies or callbacks can end up here, so nothing of theirs is swallowed
                        ok = True
                        why = "guards no operation on an expression and no call of a user-supplied callable"
                if not ok and _always_raises(h.body) and isinstance(h.body[-1], ast.Raise) and (
                        h.body[-1].exc is None or (h.name and isinstance(h.body[-1].exc, ast.Name) and h.body[-1].exc.id == h.name and h.body[-1].cause is None)) \
                        and not any(isinstance(x, (ast.Return, ast.Break, ast.Continue)) for x in astu.walk_no_nested(h)):
                    ok = True
                    why = "cleans up and re-raises the same exception: nothing is swallowed"
                if not ok and h.name and _always_raises(h.body) and not any(isinstance(x, (ast.Return, ast.Break, ast.Continue)) for x in astu.walk_no_nested(h)) \
                        and all(isinstance(x.cause, ast.Name) and x.cause.id == h.name for x in astu.walk_no_nested(h) if isinstance(x, ast.Raise) and x.exc is not None):
                    ok = True
                    why = "translates: every way out raises a new error chained `from` the one caught — nothing is swallowed, the cause chain is kept"
                res.add(f"{q}:except {','.join(types)} (broad)", ok, m.relpath, h.lineno, why, nec)
                continue
            catches_eval = [t for t in types if exc_is_subclass(repo, "KeyNotFoundError", t) and t.split(".")[-1] != "KeyNotFoundError"]
            if q in ft_of:
                seen_ft.add(ft_of[q])
                ok = types == ["EvaluationError"]
                res.add(f"{q}:fall-through handler catches EvaluationError exactly", ok, m.relpath, h.lineno, f"except {','.join(types)}", nec)
            elif catches_eval:
                # a new swallow point for evaluation errors: the handler can complete without raising
                swallows = any(isinstance(x, ast.Return) for x in astu.walk_no_nested(h)) or not h.body or not _always_raises(h.body)
                res.add(f"{q}:except {','.join(types)} is not a registered fall-through point", not swallows, m.relpath, h.lineno,
                        "handler re-raises" if not swallows else "handler swallows evaluation errors at a point that is not a documented fall-through", nec)
            else:
                res.add(f"{q}:except {','.join(types)} (specific)", True, m.relpath, h.lineno, "specific exception type", nec)
        # the same for a ``with`` whose manager translates exceptions by type in its __exit__ (a private context-manager class)
        for w, ci_cm, exits in _cm_handlers(repo, m, fn):
            for types, raises_, suppress_, ln_ in exits:
                n += 1
                short = [t.split(".")[-1] for t in types]
                broad = [t for t in short if t in ("Exception", "BaseException")]
                if broad:
                    res.add(f"{q}:with {ci_cm.name} (broad)", raises_ and not suppress_, m.relpath, w.lineno,
                            "translates and re-raises" if raises_ else f"{ci_cm.name}.__exit__ swallows {broad}", nec)
                    continue
                catches_eval = [t for t in short if exc_is_subclass(repo, "KeyNotFoundError", t) and t != "KeyNotFoundError"]
                if q in ft_of:
                    seen_ft.add(ft_of[q])
                    res.add(f"{q}:fall-through handler catches EvaluationError exactly", short == ["EvaluationError"], m.relpath, w.lineno,
                            f"with {ci_cm.name}: __exit__ acts on {','.join(short)}", nec)
                elif catches_eval:
                    res.add(f"{q}:with {ci_cm.name} acting on {','.join(short)} is not a registered fall-through point", raises_ and not suppress_, m.relpath, w.lineno,
                            "the manager re-raises" if raises_ and not suppress_ else "the manager swallows evaluation errors at a point that is not a documented fall-through", nec)
    # calls of user-supplied callables (bodies, predicates, steps, callbacks) must
    # not sit inside a try that catches anything but the EvaluationError family
    n_calls = 0
    seen_c = set()
    for cls in run.node_classes():
        for op in ("evaluate", "validate", "keys", "explain"):
            for p in run.paths(cls, op):
                for e in p.events:
                    if e.kind != "call" or e.text not in ("<value>", "func"):
                        continue
                    n_calls += 1
                    for g in e.guards:
                        for t in g.replace("!", "").split("|"):
                            for one in t.strip("() ").split(","):
                                one = one.strip().split(".")[-1]
                                if not one or exc_is_subclass(repo, one, "EvaluationError"):
                                    continue
                                if one in ("Exception", "BaseException") and e.file.endswith("types.py"):
                                    continue
                                key = (cls.name, op, e.file, e.line, one)
                                if key in seen_c:
                                    continue
                                seen_c.add(key)
                                res.add(f"{cls.qualname}.{op}:user callable called inside try/except {one}", False, e.file, e.line,
                                        f"a user-supplied callable is called (line {e.line}) inside a try that catches {one}: an exception raised by user code is swallowed "
                                        "instead of surfacing as an EvaluationError", nec)
    # user code never runs inside a C-level iterator whose exhaustion is then tested: map()/filter()/itertools pass a StopIteration
    # raised by the function they apply straight on, and next(it, default) takes it for "no more items" — the failure vanishes
    LAZY = {"map", "filter", "itertools.starmap", "itertools.takewhile", "itertools.dropwhile", "itertools.filterfalse", "itertools.accumulate"}
    probe_ = ast.parse("def f(cases, default):\n    return next(filter(lambda c: c[0](), cases), default)\n").body[0]

    def swallowing_next(fn_):
        return [x for x in astu.walk_no_nested(fn_) if isinstance(x, ast.Call) and astu.callee_name(x) == "next" and len(x.args) == 2
                and isinstance(x.args[0], ast.Call) and astu.callee_name(x.args[0]) in LAZY]
    if not swallowing_next(probe_):
        raise AnalysisError("R-CD: the next(filter(...), default) detector no longer sees its positive example")
    for m, cls, fn, q in iter_functions(repo):
        if m.name.startswith("labrea.mypy"):
            continue
        for x in swallowing_next(fn):
            res.add(f"{q}:next({astu.callee_name(x.args[0])}(…), default) hides a StopIteration of the applied function", False, m.relpath, x.lineno,
                    f"{ast.unparse(x)[:80]}: a StopIteration raised while the function runs (user predicates, bodies) ends the search instead of surfacing", nec)
    res.count("user_calls", n_calls)
    missing = FT - seen_ft
    for q in sorted(missing):
        res.add(f"{ft_label.get(q, q)}:fall-through handler present", False, "", 0, "documented fall-through point has no except EvaluationError handler any more", nec)
    for cname in ("Switch", "Coalesce"):
        ci_ = repo.cls(cname)
        if _selector(repo, ci_) is None:
            res.add(f"{ci_.qualname}:one selector behind evaluate/validate/keys/explain", False, ci_.module.relpath, ci_.node.lineno,
                    "the four operations no longer choose their branch through one shared helper: the fall-through point (and what it catches) "
                    "differs between them", nec)
    if len(FT) < 4:
        raise AnalysisError(f"R-CD: only {len(FT)} fall-through points identified (selectors of Switch and Coalesce plus four explain methods expected)")
    res.count("handlers", n)
    return res
