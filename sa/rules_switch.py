"""Feature switches, requests, dataset classes, pickling (DESIGN 3.10)."""
from __future__ import annotations

import ast
from typing import Dict, List, Optional, Set

from . import astu
from .facts import Run, normal
from .interp import Ctx, Frame, analyse_function, analyse_method
from .model import AnalysisError, iter_functions
from .report import RuleResult
from .terms import Child, Const, New, Sym, Val


def _paths_fn(run: Run, qual: str, no_inline=()):
    fi = run.repo.func(qual)
    ctx = Ctx(run.repo)
    ctx.no_inline = set(no_inline)
    return fi, analyse_function(ctx, fi.module, fi.node)


def switch_polarity(p, key_const: str):
    """True when the path established that the feature switch read from the option ``key_const``
    is on, False when off, None when the path never tests it: the polarity of the first path
    condition on the value the switch Option evaluated to (whatever function reads it)."""
    for i, e in enumerate(p.events):
        if e.kind in ("unfold", "op") and e.op == "evaluate" and isinstance(e.target, New) and e.target.cls.name == "Option" \
                and e.target.attrs.get("key") is not None and e.target.attrs["key"].key() == f"Const('{key_const}')":
            vals = {x.target.key() for x in p.events[i + 1:] if x.kind == "return" and x.target is not None}
            vals.add(Val("evaluate", e.target).key())
            for c in p.conds[e.ncond:]:
                if c[2]:
                    k, pol = Frame.norm_cond(c[2], c[1])
                    if k in vals:
                        return pol
            return None
    return None


def handler_parts(run: Run) -> Dict[str, object]:
    """The cache / log handlers found by their role, not their name: the registered default
    handler of each request type and the stand-in that ``disabled()`` installs for it."""
    if "handler_parts" in run._rule_cache:
        return run._rule_cache["handler_parts"]
    repo = run.repo
    regs = astu.default_handler_registrations(repo)
    import re as _re
    out: Dict[str, object] = {"handlers": {}, "twins": {}}
    REQS = {"set": "CacheSetRequest", "get": "CacheGetRequest", "exists": "CacheExistsRequest", "log": "LogRequest"}
    for kind, req in REQS.items():
        hq = regs.get(req, [])
        if len(hq) != 1:
            raise AnalysisError(f"{req} has {len(hq)} default handlers ({hq}); exactly one expected")
        out["handlers"][kind] = hq[0]
    mapping: Dict[str, str] = {}

    def _collect(t):
        if isinstance(t, Sym):
            if t.head == "item" and len(t.args) == 2:
                mk = _re.match(r"class<.*\.(\w+)>$", t.args[0].key())
                mv = _re.match(r"(?:kw:\w+\()?Fn\((\w+);", t.args[1].key())
                if mk and mv:
                    mapping[mk.group(1)] = mv.group(1)
            elif t.head.startswith("call:handle") or t.head == "call:handle":
                ks = [a_.key() for a_ in t.args]
                for i_, k_ in enumerate(ks[:-1]):
                    mk = _re.match(r"class<.*\.(\w+)>$", k_)
                    mv = _re.match(r"(?:kw:\w+\()?Fn\((\w+);", ks[i_ + 1])
                    if mk and mv:
                        mapping[mk.group(1)] = mv.group(1)
            for a_ in t.args:
                _collect(a_)
    for modname in ("labrea.cache", "labrea.logging"):
        fi = repo.functions.get(f"{modname}.disabled")
        if fi is None:
            raise AnalysisError(f"{modname}.disabled not found")
        for p_ in analyse_function(Ctx(repo), fi.module, fi.node):
            for e_ in p_.events:
                if e_.kind == "call" and e_.text == "handle":
                    for a_ in e_.args:
                        _collect(a_)
                    ks = [a_.key() for a_ in e_.args]
                    for i_, k_ in enumerate(ks[:-1]):
                        mk = _re.match(r"class<.*\.(\w+)>$", k_)
                        mv = _re.match(r"(?:kw:\w+\()?Fn\((\w+);", ks[i_ + 1])
                        if mk and mv:
                            mapping[mk.group(1)] = mv.group(1)
            if p_.ret is not None:
                _collect(p_.ret)
    out["mapping"] = dict(mapping)
    for kind, req in REQS.items():
        if req in mapping:
            mod = "labrea.logging" if kind == "log" else "labrea.cache"
            out["twins"][kind] = f"{mod}.{mapping[req]}"
    run._rule_cache["handler_parts"] = out
    return out


# ------------------------------------------------------------------ R-VP
def rule_VP(run: Run) -> RuleResult:
    res = RuleResult("R-VP")
    repo = run.repo
    nec = ("switches, effects and logging change side behaviour only: nothing they produce may flow into a "
           "returned value (C16)")
    INNER = "Val(evaluate,Child(evaluatable))"
    for cn in ("Computation", "Logged"):
        c = repo.cls(cn)
        ps = normal(run.paths(c, "evaluate"))
        ok = bool(ps) and all(p.ret.key() == INNER for p in ps)
        res.add(f"{c.qualname}.evaluate:returns exactly the inner value on every path", ok, c.module.relpath, c.method("evaluate").lineno,
                f"{len(ps)} paths" if ok else f"returns {[p.ret.key()[:60] for p in ps if p.ret.key() != INNER][:2]}", nec)
    hp_ = handler_parts(run)
    H, TW = hp_["handlers"], hp_["twins"]
    if set(TW) != {"set", "get", "exists", "log"}:
        raise AnalysisError(f"disabled() stand-ins found only for {sorted(TW)}")
    tw_short = {k: v.rsplit(".", 1)[-1] for k, v in TW.items()}
    BACK = "(attr:cache(request),attr:evaluatable(request),attr:options(request))"
    allowed = {
        H["set"]: {"call:get" + BACK, "attr:value(request)", f"call:{tw_short['set']}(request)"},
        H["get"]: {"call:get" + BACK, f"call:{tw_short['get']}(request)"},
        H["exists"]: {"call:exists" + BACK, f"call:{tw_short['exists']}(request)"},
        TW["set"]: {"attr:value(request)"},
        TW["exists"]: {"Const(False)"},
        H["log"]: {"Const(None)", f"call:{tw_short['log']}(request)"},
        TW["log"]: {"Const(None)"},
    }
    label = {H["set"]: "labrea.cache._set_cache_handler", H["get"]: "labrea.cache._get_cache_handler", H["exists"]: "labrea.cache._exists_cache_handler",
             TW["set"]: "labrea.cache._disabled_set_cache_handler", TW["exists"]: "labrea.cache._disabled_exists_cache_handler",
             H["log"]: "labrea.logging._builtin_logging_handler", TW["log"]: "labrea.logging._disabled_logging_handler"}
    for q, okset in allowed.items():
        fi, ps = _paths_fn(run, q, no_inline=tuple(tw_short.values()))
        rp = [a.arg for a in fi.node.args.args][0]
        rets = sorted({p.ret.key().replace(f"({rp})", "(request)").replace(f"({rp},", "(request,") for p in ps if p.status == "ret"})
        bad = [r for r in rets if r not in okset]
        res.add(f"{label[q]}:returned values", not bad and bool(rets), fi.module.relpath, fi.node.lineno,
                f"returns {rets}" + (f"; unexpected {bad}" if bad else ""), nec)
    fi, ps = _paths_fn(run, TW["get"])
    ok = bool(ps) and all(p.status == "raise" and p.exc and p.exc[0] == "CacheGetFailure" for p in ps)
    res.add("labrea.cache._disabled_get_cache_handler:always reports a miss", ok, fi.module.relpath, fi.node.lineno, f"{[(p.status, p.exc) for p in ps][:2]}", nec)
    nc = repo.cls("NoCache")
    g = nc.methods.get("get")
    s = nc.methods.get("set")
    # (by paths: every way through get ends in a CacheGetFailure; every way through set returns nothing and neither stores nor calls anything)
    ok, why_nc = g is not None and s is not None, "get/set not found"
    if ok:
        gps = analyse_function(Ctx(repo), nc.module, g, cls=nc)
        sps = analyse_function(Ctx(repo), nc.module, s, cls=nc)
        why_nc = ""
        if not gps or not all(p.status == "raise" and p.exc and p.exc[0].split(".")[-1] == "CacheGetFailure" for p in gps):
            ok, why_nc = False, f"get: {[(p.status, p.exc[0] if p.exc else None) for p in gps][:3]}"
        elif not sps or not all(p.status == "ret" and (p.ret is None or p.ret.key() == Const(None).key()) and not any(e.kind in ("store", "acc", "call", "op", "delete") for e in p.events) for p in sps):
            ok, why_nc = False, f"set: {[(p.status, p.ret.key()[:40] if p.ret is not None else None, [e.kind for e in p.events if e.kind in ('store', 'acc', 'call', 'op', 'delete')][:3]) for p in sps][:3]}"
    res.add("labrea.cache.NoCache:get always misses, set stores nothing", ok, nc.module.relpath, nc.node.lineno, why_nc, nec)
    return res


# ------------------------------------------------------------------ R-SH
def _first_stmts(fn):
    return [s for s in fn.body if not (isinstance(s, ast.Expr) and isinstance(s.value, ast.Constant))]


def rule_SH(run: Run) -> RuleResult:
    res = RuleResult("R-SH")
    repo = run.repo
    nec = ("every documented switch spelling must be honoured by all sibling handlers: a handler that ignores "
           "the switch reads or writes stored entries although caching is disabled (C16)")
    cm = repo.modules["labrea.cache"]
    hp_ = handler_parts(run)
    H, TW = hp_["handlers"], hp_["twins"]
    tw_short = {k: v.rsplit(".", 1)[-1] for k, v in TW.items()}
    looked = set()
    on_opts = True
    falls_false = False
    for kind, req in (("set", "CacheSetRequest"), ("get", "CacheGetRequest"), ("exists", "CacheExistsRequest")):
        if kind not in TW:
            res.add(f"labrea.cache._{kind}_cache_handler:tests the switch first and delegates to its disabled twin", False, cm.relpath, 0, f"cache.disabled() installs no stand-in for {req}", nec)
            continue
        fi, ps = _paths_fn(run, H[kind], no_inline=tuple(tw_short.values()))
        rp = [a.arg for a in fi.node.args.args][0]
        ok = bool(ps)
        why = ""
        saw_on = saw_off = False
        for p in ps:
            backend = [i for i, e in enumerate(p.events) if e.kind == "call" and e.text in ("get", "set", "exists") and e.target is not None and e.target.key() == f"attr:cache({rp})"]
            sw_ev = [i for i, e in enumerate(p.events) if e.kind in ("unfold", "op") and e.op == "evaluate" and isinstance(e.target, New) and e.target.cls.name == "Option"
                     and e.target.attrs.get("key") is not None and e.target.attrs["key"].key() == "Const('LABREA.CACHE.DISABLED')"]
            for e in p.events:
                if e.kind == "call" and e.text.endswith("get_dotted_key") and len(e.args) >= 2 and isinstance(e.args[0], Const):
                    looked.add(e.args[0].key())
                    if e.args[1].key() != f"attr:options({rp})":
                        on_opts = False
                if e.kind == "return" and e.target is not None and e.target.key() in ("Const(False)", "call:copy.deepcopy(Const(False))"):
                    falls_false = True
            if p.status == "raise" and not (p.exc and "CacheGetFailure" in p.exc[0]):
                continue        # a failing option lookup inside the switch itself
            if not sw_ev:
                ok = False
                why = "a path does not consult the caching switch"
                continue
            if backend and backend[0] < sw_ev[0]:
                ok = False
                why = "the backend is touched before the switch is consulted"
            on = switch_polarity(p, "LABREA.CACHE.DISABLED")
            if on is None:
                continue
            if on:
                saw_on = True
                if backend or not (p.status == "ret" and p.ret is not None and p.ret.key() == f"call:{tw_short[kind]}({rp})"):
                    ok = False
                    why = f"with caching disabled the handler does not simply delegate to {tw_short[kind]}"
            else:
                saw_off = True
                if not backend:
                    ok = False
                    why = "with caching enabled the backend is not consulted"
        ok = ok and saw_on and saw_off
        res.add(f"labrea.cache._{kind}_cache_handler:tests the switch first and delegates to its disabled twin", ok, cm.relpath, fi.node.lineno,
                why or f"{len(ps)} paths: switch on -> {tw_short[kind]}(request), switch off -> backend", nec)
        res.add(f"labrea.cache._{kind}_cache_handler:registered for {req}", True, cm.relpath, fi.node.lineno, f"default handler of {req}: {H[kind]}", nec)
    ok = looked >= {"Const('LABREA.CACHE.DISABLED')", "Const('LABREA.CACHE.DISABLE')"} and on_opts and falls_false
    res.add("labrea.cache._cache_disabled:consults both option spellings, default False", ok, cm.relpath, 1,
            f"looks up {sorted(looked)} in request.options={on_opts}; falls back to False={falls_false}", nec)
    dis = repo.func("labrea.cache.disabled")
    mapping = {k: v for k, v in hp_["mapping"].items() if k.startswith("Cache")}
    ok = set(mapping) == {"CacheSetRequest", "CacheGetRequest", "CacheExistsRequest"} and len(set(mapping.values())) == 3 \
        and not (set(mapping.values()) & {q.rsplit(".", 1)[-1] for q in H.values()})
    res.add("labrea.cache.disabled:swaps exactly the three cache handlers for their disabled twins", ok, cm.relpath, dis.node.lineno, f"{mapping}", nec)
    lm = repo.modules["labrea.logging"]
    bh, bps = _paths_fn(run, H["log"], no_inline=(tw_short.get("log", "_disabled_logging_handler"),))
    ok = bool(bps)
    why = ""
    saw_on = saw_off = False
    for p in bps:
        if p.status != "ret":
            continue
        looks = [i for i, e in enumerate(p.events) if e.kind == "call" and e.text.endswith("get_dotted_key") and e.args and e.args[0].key() == "Const('LABREA.LOGGING.DISABLED')"
                 and len(e.args) > 1 and e.args[1].key() == "attr:options(request)"]
        emits = [i for i, e in enumerate(p.events) if e.kind == "call" and e.text == "log"]
        if not looks:
            ok = False
            why = "a path does not look LABREA.LOGGING.DISABLED up in request.options"
            continue
        if emits and emits[0] < looks[0]:
            ok = False
            why = "a record is emitted before the switch is consulted"
        if emits:
            saw_off = True
        else:
            saw_on = True
        # polarity and default: a record is emitted exactly when the switch is off, and the switch is off unless set
        on = switch_polarity(p, "LABREA.LOGGING.DISABLED")
        if on is True and emits:
            ok = False
            why = "a record is emitted although LABREA.LOGGING.DISABLED is on"
        if on is False and not emits:
            ok = False
            why = "nothing is emitted although LABREA.LOGGING.DISABLED is off"
        for e in p.events:
            if e.kind in ("unfold", "op") and e.op == "evaluate" and isinstance(e.target, New) and e.target.cls.name == "Option" and e.target.attrs.get("key") is not None \
                    and e.target.attrs["key"].key() == "Const('LABREA.LOGGING.DISABLED')":
                dflt = e.target.attrs.get("default")
                if dflt is None or dflt.key() != "New(Value;value=Const(False))":
                    ok = False
                    why = f"the switch defaults to {dflt.key()[:40] if dflt is not None else None}, not to False"
    ok = ok and saw_on and saw_off
    res.add("labrea.logging._builtin_logging_handler:tests LABREA.LOGGING.DISABLED first", ok, lm.relpath, bh.node.lineno,
            why or "the switch is looked up in request.options before anything is emitted; one outcome emits, the other does not", nec)
    logs = [(e.target.key() if e.target is not None else "", [a.key() for a in e.args]) for p in bps if p.status == "ret" for e in p.events if e.kind == "call" and e.text == "log"]
    ok = bool(logs) and all(t == "call:logging.getLogger(attr:name(request))" and a == ["attr:level(request)", "attr:msg(request)"] for t, a in logs)
    res.add("labrea.logging._builtin_logging_handler:emits request.msg at request.level on the named logger", ok, lm.relpath, bh.node.lineno, f"{logs[:2]}", nec)
    # a handler of a side request evaluates nothing but its own switch: whatever else it evaluated (all options resolved for a
    # debug record, a dataset consulted for a label) could fail or differ for options the graph never reads — and only on the
    # paths that reach the handler (a cache miss, a logged evaluation), so the outcome would depend on the side machinery
    SWITCH_KEYS = {"log": {"Const('LABREA.LOGGING.DISABLED')"},
                   "set": {"Const('LABREA.CACHE.DISABLED')", "Const('LABREA.CACHE.DISABLE')"}}
    SWITCH_KEYS["get"] = SWITCH_KEYS["exists"] = SWITCH_KEYS["set"]
    for kind_ in ("log", "set", "get", "exists"):
        hq_ = H.get(kind_)
        if hq_ is None:
            continue
        fi_, ps_ = _paths_fn(run, hq_, no_inline=tuple(tw_short.values()))
        extra = None
        for p in ps_:
            for e in p.events:
                if e.kind in ("unfold", "op") and e.op in ("evaluate", "validate", "keys", "explain") and e.depth == 0 or (e.kind in ("unfold", "op") and e.op == "evaluate" and not e.via):
                    t_ = e.target
                    key_ = t_.attrs.get("key").key() if isinstance(t_, New) and t_.cls.name == "Option" and t_.attrs.get("key") is not None else None
                    if key_ in SWITCH_KEYS[kind_]:
                        continue
                    # the nested default of the two-spelling cache switch is reached through the outer Option (via non-empty)
                    if extra is None:
                        extra = (e.line, f"{e.op} of {t_.key()[:70] if t_ is not None else '?'} (line {e.line})")
        res.add(f"{hq_}:evaluates nothing but its switch", extra is None, fi_.module.relpath, extra[0] if extra else fi_.node.lineno,
                "the only evaluation in the handler is that of its switch option" if extra is None else "also performs " + extra[1], nec)
    # the default handler of the type check of an option value is a side request too: it evaluates nothing at all — except, if it has
    # one, a switch of the library's own (an Option with a literal LABREA.* key; new switches are R-HK's business).  A handler that
    # evaluates what it was handed (a configurable type) makes every Option depend on keys that Option.keys()/explain() never report
    for hq_ in astu.default_handler_registrations(repo).get("TypeValidationRequest", []):
        try:
            fi_, ps_ = _paths_fn(run, hq_)
        except AnalysisError:
            continue
        extra = None
        for p in ps_:
            for e in p.events:
                if e.kind in ("unfold", "op") and e.op in ("evaluate", "validate", "keys", "explain") and (e.depth == 0 or not e.via):
                    t_ = e.target
                    key_ = t_.attrs.get("key") if isinstance(t_, New) and t_.cls.name == "Option" else None
                    if isinstance(key_, Const) and isinstance(key_.v, str) and key_.v.startswith("LABREA."):
                        continue
                    if extra is None:
                        extra = (e.line, f"{e.op} of {t_.key()[:70] if t_ is not None else '?'} (line {e.line})")
                elif e.kind == "call" and e.text in ("evaluate", "validate", "keys", "explain") and e.target is not None and e.depth == 0 and extra is None:
                    # ... or of something it was handed (request.type.evaluate(request.options))
                    extra = (e.line, f"{e.text} of {e.target.key()[:70]} (line {e.line})")
        res.add(f"{hq_}:evaluates nothing but its switch", extra is None, fi_.module.relpath, extra[0] if extra else fi_.node.lineno,
                "the handler evaluates nothing (beyond a switch of the library's own)" if extra is None else "also performs " + extra[1], nec)
    ld = repo.func("labrea.logging.disabled")
    lps = analyse_function(Ctx(repo), ld.module, ld.node)
    from . import rules_runtime as RTN
    RTN._rt(run)
    CUR = "<CUR>"
    rets = [RTN.cur_norm(run, RTN.positional_handle(run, p.ret).key()) if p.status == "ret" and p.ret is not None else p.status for p in lps]
    # handle(LogRequest, handler) or the mapping form handle({LogRequest: handler}) — the same derived runtime
    ok = bool(rets) and "log" in tw_short and all(r in (f"call:handle({CUR},class<labrea.logging.LogRequest>,Fn({tw_short['log']};))",
                                                        f"call:handle({CUR},dict(item(class<labrea.logging.LogRequest>,Fn({tw_short['log']};))))",
                                                        f"call:handle({CUR},dict(item(class<labrea.logging.LogRequest>,Fn({tw_short['log']};))),Const(None))") for r in rets)
    res.add("labrea.logging.disabled:swaps the log handler for the disabled one", ok, lm.relpath, ld.node.lineno, f"{[r[:90] for r in rets]}", nec)
    # effects switch
    cmod = repo.modules["labrea.computation"]
    co = repo.cls("Computation")
    # the switch consulted by Computation is the option LABREA.EFFECTS.DISABLED with default False (read off the paths)
    sw_terms = set()
    for p in run.paths(co, "evaluate"):
        for e in p.events:
            if e.kind in ("unfold", "op") and e.op == "evaluate" and isinstance(e.target, New) and e.target.cls.name == "Option" and e.target.attrs.get("key") is not None \
                    and "EFFECTS" in e.target.attrs["key"].key():
                sw_terms.add((e.target.attrs["key"].key(), e.target.attrs["default"].key() if e.target.attrs.get("default") is not None else None, e.opts.key() if e.opts is not None else None))
    ok = sw_terms == {("Const('LABREA.EFFECTS.DISABLED')", "New(Value;value=Const(False))", "options")}
    res.add("labrea.computation._EFFECTS_DISABLED:Option('LABREA.EFFECTS.DISABLED', False)", ok, cmod.relpath, 1, f"{sorted(sw_terms)}", nec)
    for op in ("evaluate", "validate", "explain"):
        ps = normal(run.paths(co, op))
        with_e = [p for p in ps if any(e.kind == "op" and isinstance(e.target, Child) and e.target.path == "effect" for e in p.events)]
        without = [p for p in ps if p not in with_e]
        def cond_of(p):
            """True when the path established that the switch is on (effects disabled), False when off:
            the polarity of the path condition that tests the value the switch Option evaluated to."""
            from .interp import Frame
            for i, e in enumerate(p.events):
                if e.kind in ("unfold", "op") and e.op == "evaluate" and isinstance(e.target, New) and e.target.cls.name == "Option" \
                        and e.target.attrs.get("key") is not None and e.target.attrs["key"].key() == "Const('LABREA.EFFECTS.DISABLED')":
                    vals = {x.target.key() for x in p.events[i + 1:] if x.kind == "return" and x.target is not None}
                    vals.add(Val("evaluate", e.target).key())
                    for c in p.conds[e.ncond:]:
                        if c[2]:
                            k, pol = Frame.norm_cond(c[2], c[1])
                            if k in vals:
                                return pol
                    return None
            return None
        def other_switch(p):
            """The path skips the effect because of a field of the object (a per-object switch), decided the other way on
            every path that applies the effect."""
            from .interp import Frame
            from .rules_agree import _about_object
            mine = {k: v for k, v in Frame.atoms(p.conds).items() if _about_object(k) and "Child(" in k and "elem(" not in k and "[*]" not in k}
            for k, v in mine.items():
                theirs = [Frame.atoms(q.conds).get(k) for q in with_e]
                if theirs and all(t is not None and t != v for t in theirs):
                    return True
            return False
        ok = bool(with_e) and bool(without) and all(cond_of(p) is False for p in with_e) and all(cond_of(p) is True or other_switch(p) for p in without) \
            and any(cond_of(p) is True for p in without)
        res.add(f"labrea.computation.Computation.{op}:effect skipped exactly when LABREA.EFFECTS.DISABLED", ok, cmod.relpath, co.method(op).lineno,
                f"{len(with_e)} paths with the effect, {len(without)} without", nec)
    ds = repo.cls("Dataset")
    from .facts import effects_toggle
    tog = effects_toggle(run)
    for nm, val in (("disable_effects", "True"), ("enable_effects", "False")):
        fn = ds.methods.get(nm)
        ok = fn is not None
        if ok:
            tps = analyse_function(Ctx(repo), ds.module, fn, cls=ds)
            ok = bool(tps) and all(p.status == "ret" and [(e.args[1].key(), e.target.key() if e.target is not None else None) for e in p.events
                                                           if e.kind == "store" and len(e.args) == 2 and e.args[0].key() == "self"]
                                   == [(Const(tog).key(), f"Const({val})")] for p in tps)
        res.add(f"labrea.dataset.Dataset.{nm}:sets the per-dataset toggle", ok, ds.module.relpath, fn.lineno if fn else 0, "", nec)
    df = repo.cls("DatasetFactory")
    nc = df.methods.get("nocache")
    ok = nc is not None
    if ok:
        nps = analyse_function(Ctx(repo), df.module, nc, cls=df)
        # a new factory whose cache is a NoCache, everything else carried over from this factory
        ok = bool(nps) and all(p.status == "ret" and p.ret is not None and p.ret.key().startswith("new:DatasetFactory(") and "new:NoCache" in p.ret.key()
                               and "attr:dispatch(self)" in p.ret.key() and "attr:options(self)" in p.ret.key() for p in nps)
    res.add("labrea.dataset.DatasetFactory.nocache:uses NoCache", ok, ds.module.relpath, nc.lineno if nc else 0, "", nec)
    return res


# ------------------------------------------------------------------ R-DH
def rule_DH(run: Run) -> RuleResult:
    res = RuleResult("R-DH")
    repo = run.repo
    nec = "with caching / logging disabled stored entries are neither read nor written and nothing is emitted (C16)"
    n = 0
    hp_ = handler_parts(run)
    enabled_short = {q.rsplit(".", 1)[-1] for q in hp_["handlers"].values()}
    for kind, q in sorted(hp_["twins"].items()):
        fi = repo.functions.get(q)
        if fi is None:
            continue
        n += 1
        bad = []
        for c in astu.calls_in(fi.node):
            nm = astu.short_name(c)
            if isinstance(c.func, ast.Attribute) and nm in ("get", "set", "exists", "log", "getLogger", "run", "fingerprint"):
                bad.append(ast.unparse(c)[:50])
            if isinstance(c.func, ast.Name) and nm in enabled_short:
                bad.append(ast.unparse(c)[:50])
        res.add(f"{q}:touches no backend", not bad, fi.module.relpath, fi.node.lineno, "no backend call" if not bad else f"calls {bad}", nec)
    if n < 4:
        raise AnalysisError(f"only {n} _disabled_* handlers found")
    return res


# ------------------------------------------------------------------ R-L1
def rule_L1(run: Run) -> RuleResult:
    res = RuleResult("R-L1")
    repo = run.repo
    nec = "exactly one INFO-level log request per evaluation of a dataset that is not served from its cache (C16, C18)"
    lg = repo.cls("Logged")
    ps = normal(run.paths(lg, "evaluate"))
    counts = []
    ok_args = True
    for p in ps:
        runs = [e for e in p.events if e.kind == "call" and e.text == "run" and isinstance(e.target, Sym) and e.target.head == "new:LogRequest"]
        counts.append(len(runs))
        for e in runs:
            if e.target.key() != "new:LogRequest(Child(level),Child(name),Child(msg),options)":
                ok_args = False
    res.add("labrea.logging.Logged.evaluate:exactly one LogRequest(...).run() on every path", bool(ps) and all(c == 1 for c in counts), lg.module.relpath, lg.method("evaluate").lineno,
            f"log requests per path: {counts}", nec)
    res.add("labrea.logging.Logged.evaluate:request carries level, name, msg and the options", ok_args, lg.module.relpath, lg.method("evaluate").lineno, "", nec)
    le = repo.cls("LogEffect")
    lt = le.find_method("transform")
    if lt is not None:
        lps_ = [p for p in analyse_method(Ctx(repo), le, "transform") if p.status == "ret"]
        okl = bool(lps_)
        shown_ = []
        for p in lps_:
            runs = [e for e in p.events if e.kind == "call" and e.text == "run" and isinstance(e.target, Sym) and e.target.head == "new:LogRequest"]
            shown_ += [e.target.key()[:80] for e in runs]
            # (the caller's options go with it: the handler reads LABREA.LOGGING.DISABLED from them — an empty dictionary only on a path
            # that found none given)
            k_run = runs[0].target.key() if len(runs) == 1 else ""
            none_given = Frame.atoms(p.conds).get("options") is False or Frame.atoms(p.conds).get("cmp:Is(options,Const(None))") is True
            if not (k_run == "new:LogRequest(Child(level),Child(name),Child(msg),options)"
                    or (k_run == "new:LogRequest(Child(level),Child(name),Child(msg),dict{})" and none_given)):
                okl = False
        res.add("labrea.logging.LogEffect.transform:one LogRequest carrying level, name, msg and the options", okl, le.module.relpath, lt[1].lineno, f"{shown_[:2]}", nec)
    # the level helpers (labrea.logging.INFO(name, msg, options) …) issue exactly that request: their own level, then name, message, options
    n_lv = 0
    for lv_ in ("CRITICAL", "ERROR", "WARNING", "INFO", "DEBUG"):
        fi_ = repo.functions.get(f"{lg.module.name}.{lv_}")
        if fi_ is None:
            continue
        n_lv += 1
        pr_ = [a_.arg for a_ in fi_.node.args.posonlyargs + fi_.node.args.args]
        want_ = f"call:run(new:LogRequest(ext<logging.{lv_}>,{','.join(pr_[:3])}"
        got_ = sorted({p.ret.key() if p.status == "ret" and p.ret is not None else p.status for p in analyse_function(Ctx(repo), fi_.module, fi_.node)})
        # (what a later version hands on beyond these four — arguments for the message, say — comes after them)
        ok_lv = len(pr_) >= 3 and len(got_) == 1 and got_[0].startswith(want_) and got_[0][len(want_):len(want_) + 1] in (")", ",")
        res.add(f"{lg.module.name}.{lv_}:issues LogRequest(logging.{lv_}, name, msg, options)", ok_lv, fi_.module.relpath, fi_.node.lineno,
                f"returns {got_}" + ("" if ok_lv else f"; expected {want_}))"),
                "a log emission is a request through the current runtime (C18) carrying the level it was asked at, the logger name, the message and the options "
                "the disabled-switch is read from (C16)")
    if n_lv < 5:
        raise AnalysisError(f"R-L1: only {n_lv} level helpers found in {lg.module.name}")
    for op in ("validate", "keys", "explain"):
        ps = run.paths(lg, op)
        n = sum(1 for p in ps for e in p.events if e.kind == "call" and "LogRequest" in e.text)
        res.add(f"labrea.logging.Logged.{op}:inspection does not log", n == 0, lg.module.relpath, lg.method(op).lineno, f"{n} log requests", nec)
    # Dataset composes Logged at INFO level
    ds = repo.cls("Dataset")
    ok = False
    from .facts import dataset_compositions
    for _dis, t in dataset_compositions(run):
        while isinstance(t, New):
            if t.cls.name == "Logged":
                ok = t.attrs.get("level") is not None and t.attrs["level"].key() in ("ext<logging.INFO>", "attr:INFO(ext<logging>)")
                lv_ = t.attrs.get("level")
                if not ok and isinstance(lv_, Sym) and lv_.head == "global" and lv_.text:
                    # a private module-level name for the level (``_LOG_LEVEL = logging.INFO``), bound once and never re-bound
                    mod_, _, nm_ = lv_.text.rpartition(".")
                    mm_ = repo.modules.get(mod_)
                    binds = [st for st in ast.walk(mm_.tree) if isinstance(st, (ast.Assign, ast.AnnAssign, ast.AugAssign)) and any(
                        isinstance(tg_, ast.Name) and tg_.id == nm_ for tg_ in (st.targets if isinstance(st, ast.Assign) else [st.target]))] if mm_ is not None else []
                    if len(binds) == 1 and binds[0] in mm_.tree.body and getattr(binds[0], "value", None) is not None and not any(
                            isinstance(g_, ast.Global) and nm_ in g_.names for g_ in ast.walk(mm_.tree)):
                        ok = repo.resolve_expr(mm_, binds[0].value) == ("external", "logging.INFO")
                lvl = t.attrs.get("level")
            t = t.attrs.get("evaluatable")
    res.add("labrea.dataset.Dataset._composed:logs at logging.INFO", ok, ds.module.relpath, ds.find_method("evaluate")[1].lineno, "", nec)
    return res


# ------------------------------------------------------------------ R-WR
ABCS = {"Validatable": ("validate", "ValidateRequest"), "Cacheable": ("keys", "KeysRequest"),
        "Explainable": ("explain", "ExplainRequest"), "Evaluatable": ("evaluate", "EvaluateRequest")}
SAVED = {"validate": "__labrea_validate__", "keys": "__labrea_keys__", "explain": "__labrea_explain__", "evaluate": "__labrea_evaluate__"}
HANDLERS = {"_evaluate_request": ("evaluatable", "__labrea_evaluate__"), "_validate_request": ("validatable", "__labrea_validate__"),
            "_keys_request": ("cacheable", "__labrea_keys__"), "_explain_request": ("explainable", "__labrea_explain__")}


def rule_WR(run: Run) -> RuleResult:
    res = RuleResult("R-WR")
    repo = run.repo
    nec = ("every evaluate/validate/keys/explain of every built-in expression type must be issued as a request "
           "through the current runtime, else a handler cannot observe or substitute it (C18)")
    for an, (op, req) in ABCS.items():
        c = repo.cls(f"labrea.types.{an}")
        isc = c.methods.get("__init_subclass__")
        if isc is None:
            res.add(f"labrea.types.{an}.__init_subclass__:present", False, c.module.relpath, c.node.lineno, "missing", nec)
            continue
        ok_super = any(isinstance(c_.func, ast.Attribute) and c_.func.attr == "__init_subclass__"
                       and ast.unparse(c_.func.value) == "super()" for c_ in astu.calls_in(isc))
        # path facts: on every path that finds cls.<op> not yet wrapped the hook saves the
        # implementation as cls.__labrea_<op>__, then installs a marked wrapper as cls.<op>;
        # on paths that find it wrapped it stores nothing
        from .facts import cond_pol
        W = f"call:hasattr(attr:{op}(cls),Const('__labrea_wrapper__'))"
        ps = analyse_function(Ctx(repo), c.module, isc)
        guard = ok_inner = ok_install = order_ok = True
        why = []
        n_unwrapped = 0
        for p in ps:
            if p.status != "ret":
                continue
            pol = cond_pol(p.conds, W)
            stores = [e for e in p.events if e.kind == "store" and len(e.args) == 2 and e.args[0].key() == "cls"]
            sv = [i for i, e in enumerate(stores) if e.args[1].key() == Const(SAVED[op]).key()]
            rp = [i for i, e in enumerate(stores) if e.args[1].key() == Const(op).key()]
            if pol is True:
                if sv or rp:
                    guard = False
                    why.append("re-wraps an already wrapped implementation")
                continue
            if pol is None and not (sv or rp):
                continue
            if pol is None:
                guard = False
                why.append(f"stores cls.{op} without testing the wrapper marker")
                continue
            n_unwrapped += 1
            if len(sv) != 1 or len(rp) != 1:
                ok_install = False
                why.append(f"stores to cls.{SAVED[op]}: {len(sv)}, to cls.{op}: {len(rp)}")
                continue
            if stores[sv[0]].target is None or stores[sv[0]].target.key() != f"attr:{op}(cls)":
                ok_install = False
                why.append(f"cls.{SAVED[op]} = {stores[sv[0]].target.key()[:60] if stores[sv[0]].target is not None else None}")
            if sv[0] > rp[0]:
                order_ok = False
                why.append("implementation saved after it was replaced")
            wfn = stores[rp[0]].target
            from .terms import Fn
            if not isinstance(wfn, Fn) or not isinstance(wfn.node, ast.FunctionDef):
                ok_inner = False
                why.append(f"cls.{op} = {wfn.key()[:60] if wfn is not None else None} is not a local wrapper function")
                continue
            marks = [e for e in p.events if e.kind == "store" and len(e.args) == 2 and e.args[0] is wfn or
                     (e.kind == "store" and len(e.args) == 2 and e.args[0].key() == wfn.key())]
            if not any(e.args[1].key() == Const("__labrea_wrapper__").key() and e.target is not None and e.target.key() == Const(True).key() for e in marks):
                ok_install = False
                why.append("wrapper not marked with __labrea_wrapper__ = True")
            wa = [x.arg for x in wfn.node.args.args]
            if len(wa) < 2:
                ok_inner = False
                why.append("wrapper takes fewer than two parameters")
                continue
            wps = analyse_function(Ctx(repo), c.module, wfn.node)
            for wp in wps:
                if wp.status != "ret" or wp.ret is None:
                    ok_inner = False
                    why.append("wrapper path does not return")
                    continue
                k = wp.ret.key()
                pre = f"call:run(new:{req}({wa[0]},"
                if not (k == pre + wa[1] + "))" or (k.startswith(pre) and any(wa[1] in (c_[2] or "") for c_ in wp.conds))):
                    ok_inner = False
                    why.append(f"wrapper returns {k[:80]}")
        if n_unwrapped == 0:
            guard = False
            why.append("no path installs the wrapper")
        res.add(f"labrea.types.{an}.__init_subclass__:replaces {op} by a wrapper issuing {req}(self, options).run()", ok_super and guard and ok_inner and ok_install and order_ok,
                c.module.relpath, isc.lineno, f"super={ok_super} guard={guard} wrapper={ok_inner} install={ok_install} saved-before-replaced={order_ok}" + ("; " + "; ".join(sorted(set(why))) if why else ""), nec)
    # default handlers call the saved implementation of the matching field
    regs = astu.default_handler_registrations(repo)
    REQ_OF = {"_evaluate_request": "EvaluateRequest", "_validate_request": "ValidateRequest", "_keys_request": "KeysRequest", "_explain_request": "ExplainRequest"}
    handler_quals = set()
    for hn, (field, saved) in HANDLERS.items():
        hq = regs.get(REQ_OF[hn], [])
        if len(hq) != 1:
            res.add(f"labrea.types.{hn}:calls request.{field}.{saved}(request.options)", False, "labrea/types.py", 0, f"default handlers of {REQ_OF[hn]}: {hq}", nec)
            continue
        handler_quals.add(hq[0])
        fi = repo.func(hq[0])
        rp = [a.arg for a in fi.node.args.args][0]
        want = f"call:{saved}(attr:{field}({rp}),attr:options({rp}))"
        hps = analyse_function(Ctx(repo), fi.module, fi.node)
        calls = [(e.target.key() if e.target is not None else "", [a.key() for a in e.args]) for p in hps for e in p.events if e.kind == "call" and e.text == saved and not e.failed]
        ok = bool(calls) and all(c == (f"attr:{field}({rp})", [f"attr:options({rp})"]) for c in calls)
        res.add(f"labrea.types.{hn}:calls request.{field}.{saved}(request.options)", ok, fi.module.relpath, fi.node.lineno, f"{calls[:2]}", nec)
        if hn != "_evaluate_request":
            rets = [p.ret.key() if p.status == "ret" and p.ret is not None else p.status for p in hps]
            res.add(f"labrea.types.{hn}:returns the implementation's result unchanged", bool(rets) and all(r == want for r in rets), fi.module.relpath, fi.node.lineno, f"{rets}", nec)
    # the saved implementations are called from nowhere else; the marker is set nowhere else
    marker_users: Dict[str, tuple] = {}
    for m, cls, fn, q in iter_functions(repo):
        for c in astu.calls_in(fn):
            nm = astu.short_name(c)
            if nm in SAVED.values():
                ok = q in handler_quals
                if not ok:
                    res.add(f"{q}:calls {nm} directly", False, m.relpath, c.lineno, ast.unparse(c)[:80] + " bypasses the request", nec)
        for n in astu.walk_no_nested(fn):
            if isinstance(n, ast.Constant) and n.value == "__labrea_wrapper__" and not q.endswith("__init_subclass__") and "__init_subclass__.<locals>" not in q:
                marker_users.setdefault(q, (m.relpath, n.lineno))
    # a helper that touches the marker is fine when only the four hooks call it (its effect was
    # checked above, inlined into the hooks' paths)
    for q, (rp_, ln_) in marker_users.items():
        short = q.rsplit(".", 1)[-1]
        callers = {q2 for m2, cls2, fn2, q2 in iter_functions(repo) for c2 in astu.calls_in(fn2) if astu.short_name(c2) == short and q2 != q}
        refs = sum(1 for m2 in repo.modules.values() for n2 in ast.walk(m2.tree) if isinstance(n2, (ast.Name, ast.Attribute)) and (getattr(n2, "id", None) == short or getattr(n2, "attr", None) == short))
        calls = sum(1 for m2, cls2, fn2, q2 in iter_functions(repo) for c2 in astu.calls_in(fn2) if astu.short_name(c2) == short)
        ok = bool(callers) and all(x.endswith("__init_subclass__") and x.startswith("labrea.types.") for x in callers) and refs == calls
        if not ok:
            res.add(f"{q}:touches the wrapper marker", False, rp_, ln_, "'__labrea_wrapper__' used outside the four __init_subclass__ hooks (and helpers only they call)", nec)
    # every concrete node class defines the ops as plain defs; no other __init_subclass__ drops super()
    n_cls = 0
    for c in list(run.node_classes()) + [k for k in repo.subclasses_of("Effect")]:
        n_cls += 1
        bad = []
        for op in ("evaluate", "validate", "keys", "explain"):
            if op in c.class_assigns:
                bad.append(f"{op} assigned in the class body")
            if op in c.methods:
                decos = [ast.unparse(d) for d in c.method(op).decorator_list]
                if any(d in ("staticmethod", "classmethod", "property") for d in decos):
                    bad.append(f"{op} decorated {decos}")
        for nm in SAVED.values():
            if nm in c.methods or nm in c.class_assigns:
                bad.append(f"defines {nm} itself")
        if "__init_subclass__" in c.methods and c.name not in ABCS:
            t = ast.unparse(c.method("__init_subclass__"))
            if "super().__init_subclass__(" not in t:
                bad.append("__init_subclass__ without super()")
        res.add(f"{c.qualname}:operations are plain methods wrapped by the ABC hooks", not bad, c.module.relpath, c.node.lineno, "ok" if not bad else "; ".join(bad), nec)
    res.count("classes", n_cls)
    return res


# ------------------------------------------------------------------ R-RQ
def rule_RQ(run: Run) -> RuleResult:
    res = RuleResult("R-RQ")
    repo = run.repo
    nec = ("cache lookups/stores, log emission and option type checks must go through requests: a direct "
           "backend call is invisible to handlers and ignores the disabling switches (C18, C16)")
    # who may touch a cache backend directly: the default handlers of the three cache requests, private
    # helpers that only those handlers (transitively) refer to, and Cache classes themselves
    backend_ok = {"labrea.cache.Cache.exists"}
    regs = astu.default_handler_registrations(repo)
    for rq_ in ("CacheSetRequest", "CacheGetRequest", "CacheExistsRequest"):
        backend_ok.update(regs.get(rq_, []))
    if len(backend_ok) < 4:
        raise AnalysisError("R-RQ: default handlers of CacheSetRequest/CacheGetRequest/CacheExistsRequest not found")
    refs: Dict[str, Set[str]] = {}
    for m_ in repo.modules.values():
        fn_spans = [(fn_, q_) for mm, cls_, fn_, q_ in iter_functions(repo) if mm is m_]
        for node in ast.walk(m_.tree):
            if isinstance(node, ast.Name) and isinstance(node.ctx, ast.Load) and f"{m_.name}.{node.id}" in repo.functions:
                owner = None
                for fn_, q_ in fn_spans:
                    if fn_.lineno <= node.lineno <= (fn_.end_lineno or fn_.lineno) and any(n is node for n in ast.walk(fn_)):
                        owner = q_ if owner is None or len(q_) > len(owner) else owner
                refs.setdefault(f"{m_.name}.{node.id}", set()).add(owner or "<module>")
    log_ok = set(regs.get("LogRequest", []))
    changed = True
    while changed:
        changed = False
        for q, users in refs.items():
            if q not in backend_ok and users and all(u in backend_ok for u in users):
                backend_ok.add(q)
                changed = True
            if q not in log_ok and users and all(u in log_ok for u in users):
                log_ok.add(q)
                changed = True
    handler_names = set()
    for qs_ in regs.values():
        handler_names.update(q_.rsplit(".", 1)[-1] for q_ in qs_)
    n = 0
    for m, cls, fn, q in iter_functions(repo):
        if m.name.startswith("labrea.mypy"):
            continue
        for c in astu.calls_in(fn):
            f0 = c.func
            nm = astu.short_name(c)
            if isinstance(f0, ast.Attribute) and nm in ("get", "set", "exists"):
                recv = ast.unparse(f0.value)
                is_cache = recv.endswith("cache") or recv == "self" and cls is not None and any(k.name == cls.name and k.is_subclass_of("Cache") for k in repo.classes.values())
                if is_cache and recv not in ("self._cache",):
                    n += 1
                    ok = q in backend_ok or (cls is not None and any(k.name == cls.name and k.is_subclass_of("Cache") for k in repo.classes.values()))
                    res.add(f"{q}:direct backend call {recv}.{nm}", ok, m.relpath, c.lineno,
                            ast.unparse(c)[:70] + (" (cache handler / Cache itself)" if ok else " bypasses the cache request"), nec)
            if nm == "getLogger":
                n += 1
                ok = q in log_ok
                res.add(f"{q}:logging.getLogger", ok, m.relpath, c.lineno, ast.unparse(c)[:70], nec)
            if isinstance(f0, ast.Name) and f0.id in handler_names and not q.split(".")[-1].endswith("_handler"):
                n += 1
                res.add(f"{q}:calls default handler {f0.id} directly", False, m.relpath, c.lineno, ast.unparse(c)[:70], nec)
    # request sites in node classes
    for cn, meth, reqs in (("Cached", "evaluate", {"CacheExistsRequest", "CacheGetRequest", "CacheSetRequest"}), ("Cached", "validate", {"CacheExistsRequest"}),
                           ("Logged", "evaluate", {"LogRequest"}), ("Option", "evaluate", {"TypeValidationRequest"}), ("LogEffect", "transform", {"LogRequest"})):
        c = repo.cls(cn)
        found = set()
        for p_ in analyse_method(Ctx(repo), c, meth):
            for e in p_.events:
                if e.kind == "call" and e.text == "run" and isinstance(e.target, Sym) and e.target.head.startswith("new:"):
                    found.add(e.target.head[4:])
        n += 1
        res.add(f"{c.qualname}.{meth}:issues {sorted(reqs)} via .run()", reqs <= found, c.module.relpath, c.method(meth).lineno, f"found {sorted(found)}", nec)
    res.count("sites", n)
    return res


# ------------------------------------------------------------------ R-HD
def rule_HD(run: Run) -> RuleResult:
    res = RuleResult("R-HD")
    repo = run.repo
    nec = "a request type without a default handler fails with TypeError in every runtime (C18, C14)"
    reqs = repo.subclasses_of("Request")
    if len(reqs) < 9:
        raise AnalysisError(f"only {len(reqs)} Request subclasses found (9 confirmed)")
    regs = astu.default_handler_registrations(repo)
    for r in reqs:
        hs = regs.get(r.name, [])
        res.add(f"{r.qualname}:has a module-level default handler", len(hs) >= 1, r.module.relpath, r.node.lineno, f"{hs}", nec)
    from . import rules_runtime as RTN
    RTN._rt(run)
    rq = repo.cls("Request")
    h = rq.methods.get("handle")
    ok = h is not None
    if ok:
        hp_ = astu.param_names(h)[0]
        c0 = astu.first_param(h)
        hps = analyse_function(Ctx(repo), rq.module, h)
        # registers the handler for this request class in the default table and hands the handler back
        ok = bool(hps) and all(p.status == "ret" and p.ret is not None and p.ret.key() == hp_ and any(
            e.kind == "store" and len(e.args) == 2 and e.args[0].key() == RTN.D_KEY and e.args[1].key() == f"index({c0})"
            and e.target is not None and e.target.key() == hp_ for e in p.events) for p in hps)
    res.add("labrea.runtime.Request.handle:registers the default and returns the handler", ok, rq.module.relpath, h.lineno if h else 0, "", nec)
    # the default handler of the type-validation request accepts every value: Option(type=…) is documentation until a third-party
    # handler enforces it.  A default that starts rejecting values (or consults the options) changes which evaluations succeed
    for hq in regs.get("TypeValidationRequest", []):
        fi = repo.functions.get(hq)
        if fi is None:
            continue
        bad = None
        for p in analyse_function(Ctx(repo), fi.module, fi.node):
            if p.status == "raise":
                bad = bad or (p.exc[2] if p.exc else fi.node.lineno, f"can raise {p.exc[0] if p.exc else '?'}")
            for e in p.events:
                if e.kind in ("op", "unfold") or (e.kind == "call" and (e.text.endswith("get_dotted_key") or e.text == "run")):
                    bad = bad or (e.line, f"performs {e.op or e.text} (line {e.line})")
            if p.status == "ret" and p.ret is not None and p.ret.key() != "Const(None)":
                bad = bad or (fi.node.lineno, f"returns {p.ret.key()[:40]}")
        res.add(f"{hq}:the default type-validation handler accepts every value", bad is None, fi.module.relpath, bad[0] if bad else fi.node.lineno,
                "no path raises, evaluates or looks anything up" if bad is None else bad[1],
                "Option.evaluate issues the type request for every present value: a default handler that rejects (an int for a float, a str "
                "under a strict flag) turns evaluations that the property says succeed into failures, or makes a coalesce skip the provided value (C04, C13, C03)")
    return res


# ------------------------------------------------------------------ R-MF
def _member_filters(fn: ast.AST, selfname: str):
    """(source, formula) of every loop over dir(...) in fn; the formula is the
    boolean expression (AST over normalised atoms MEMBER / NAME) under which a
    member is processed, whatever the loop's shape (comprehension filter, `if
    cond: work`, guard clause `if not cond: continue`)."""
    out = []
    for x in ast.walk(fn):
        gens = []
        if isinstance(x, ast.For):
            gens.append((x.target, x.iter, None, x))
        elif isinstance(x, ast.comprehension):
            gens.append((x.target, x.iter, x.ifs, x))
        for tgt, it, ifs, node in gens:
            if not (isinstance(it, ast.Call) and astu.short_name(it) == "dir"):
                continue
            var = tgt.id if isinstance(tgt, ast.Name) else "?"
            src = ast.unparse(it.args[0]) if it.args else "?"
            parts: List[ast.expr] = []
            if ifs is not None:
                parts = list(ifs)
            else:
                amap = astu.single_assign_map(node)
                for st in node.body:
                    if isinstance(st, ast.If) and not st.orelse and all(isinstance(b, ast.Continue) for b in st.body):
                        parts.append(ast.UnaryOp(op=ast.Not(), operand=astu.expand_locals(st.test, amap)))
                    elif isinstance(st, ast.If) and not st.orelse:
                        parts.append(astu.expand_locals(st.test, amap))
                        break
                    elif isinstance(st, (ast.Assign, ast.AnnAssign)):
                        continue
                    else:
                        break
            formula = ast.BoolOp(op=ast.And(), values=parts) if len(parts) > 1 else (parts[0] if parts else ast.Constant(value=True))
            t = ast.unparse(ast.fix_missing_locations(formula))
            for a in (f"getattr({src}, {var}, None)", f"getattr({src}, {var})", f"getattr({selfname}, {var}, None)", f"getattr({selfname}, {var})"):
                t = t.replace(a, "MEMBER")
            import re as _re
            t = _re.sub(r"(?<![A-Za-z0-9_])" + _re.escape(var) + r"(?![A-Za-z0-9_])", "NAME", t)
            out.append((src, ast.parse(t, mode="eval").body))
    return out


_MF_MODULE = None       # the module of the dataset-class machinery (set by rule_MF)


def _member_enumerations(fn: ast.AST, selfname: str, classes, depth: int = 0):
    """The member enumerations of fn, or — when fn delegates the enumeration to a helper
    method of the dataset-class machinery — those of that helper."""
    direct = _member_filters(fn, selfname)
    if direct or depth >= 2:
        return direct
    out = []
    for c in astu.calls_in(fn):
        f0 = c.func
        if isinstance(f0, ast.Name) and _MF_MODULE is not None and f0.id in _MF_MODULE.names and _MF_MODULE.names[f0.id][0] == "func":
            # a module-level helper that receives the class as an argument
            hfi = _MF_MODULE.names[f0.id][1]
            hps = [a.arg for a in hfi.node.args.posonlyargs + hfi.node.args.args]
            for i_, a_ in enumerate(c.args):
                if i_ < len(hps) and ast.unparse(a_) in (selfname, f"{selfname}.__class__", "cls", "self.__class__", "type(self)"):
                    for en in _member_enumerations(hfi.node, hps[i_], classes, depth + 1):
                        en = ("cls" if en[0] == hps[i_] else en[0], en[1])
                        if not any(en[0] == o[0] and ast.unparse(en[1]) == ast.unparse(o[1]) for o in out):
                            out.append(en)
            continue
        if isinstance(f0, ast.Attribute) and ast.unparse(f0.value) in (selfname, f"{selfname}.__class__", "cls", "self.__class__", "type(self)"):
            for ci in classes:
                h = ci.methods.get(f0.attr)
                if h is not None and h is not fn:
                    for en in _member_enumerations(h, astu.first_param(h), classes, depth + 1):
                        if not any(en[0] == o[0] and ast.unparse(en[1]) == ast.unparse(o[1]) for o in out):
                            out.append(en)      # the same helper reached twice is one enumeration
                    break
    return out


def _truth_table(formula: ast.expr, atoms: List[str]):
    import itertools as _it
    rows = []

    def ev(e, env):
        if isinstance(e, ast.UnaryOp) and isinstance(e.op, ast.Not):
            return not ev(e.operand, env)
        if isinstance(e, ast.BoolOp):
            vals = [ev(v, env) for v in e.values]
            return all(vals) if isinstance(e.op, ast.And) else any(vals)
        if isinstance(e, ast.Constant):
            return bool(e.value)
        return env[ast.unparse(e)]

    for combo in _it.product([False, True], repeat=len(atoms)):
        rows.append(ev(formula, dict(zip(atoms, combo))))
    return tuple(rows)


def _formula_atoms(e: ast.expr, out: List[str]):
    if isinstance(e, ast.UnaryOp) and isinstance(e.op, ast.Not):
        _formula_atoms(e.operand, out)
    elif isinstance(e, ast.BoolOp):
        for v in e.values:
            _formula_atoms(v, out)
    elif not isinstance(e, ast.Constant):
        t = ast.unparse(e)
        if t not in out:
            out.append(t)


def rule_MF(run: Run) -> RuleResult:
    res = RuleResult("R-MF")
    repo = run.repo
    nec = ("validate, keys, explain and instantiation of a dataset class must enumerate the same members: a "
           "member evaluated but not keyed/validated breaks union-over-members and instance equality (C19)")
    meta = repo.role_class("dsc_meta")
    mix = repo.role_class("dsc_mixin")
    f = meta.module.relpath
    global _MF_MODULE
    _MF_MODULE = meta.module
    forms = {}
    for op in ("validate", "keys", "explain"):
        fn = meta.methods.get(op)
        if fn is None:
            raise AnalysisError(f"_DatasetClassMeta.{op} not found")
        forms[f"_DatasetClassMeta.{op}"] = (_member_enumerations(fn, astu.first_param(fn), (meta, mix)), fn.lineno, astu.first_param(fn))
    init = mix.methods.get("__init__")
    if init is None:
        raise AnalysisError("_DatasetClassMixin.__init__ not found")
    forms["_DatasetClassMixin.__init__"] = (_member_enumerations(init, "self", (mix, meta)), init.lineno, "self")
    atoms: List[str] = []
    for k, (flt, ln, sn) in forms.items():
        for src, formula in flt:
            _formula_atoms(formula, atoms)
    # the same comparison read off the interpreter's paths (whatever the loop body looks like: guard clauses, try/except
    # AttributeError around the attribute read, a walrus, a helper): a member is processed on the paths that issue the
    # operation on it; the per-member conditions of those paths give the predicate
    def path_table():
        import re as _re
        from .interp import Frame as _Fr, analyse_function as _af
        CLS = r"(?:Child\(<self>\)|attr:__class__\((?:self|Child\(<instance>\))\)|classof\((?:self|Child\(<instance>\))\)|call:type\(self\))"

        def norm(t: str) -> str:
            t = _re.sub(r"elem\(call:dir\(" + CLS + r"\)\)", "NAME", t)
            t = _re.sub(r"Child\(<members>\[\*\]\)", "MEMBER", t)
            t = _re.sub(r"getattr\((?:self|Child\(<instance>\)|" + CLS + r"),NAME(?:,Const\(None\))?\)", "MEMBER", t)
            return t
        per_op = {}
        foreign = {}
        for k_, (fl_, ln_, sn_) in forms.items():
            cls_, mn_ = (mix, "__init__") if k_.endswith("__init__") else (meta, k_.rsplit(".", 1)[-1])
            ps_ = analyse_method(Ctx(repo), cls_, mn_) if cls_ is meta else _af(Ctx(repo), cls_.module, cls_.methods[mn_], cls=cls_)
            rows = []
            for p_ in ps_:
                if p_.status != "ret":
                    continue
                conds_ = list(p_.conds)
                # a comprehension keeps an element exactly when its filter holds
                conds_ += [(e.text, True, e.target.key()) for e in p_.events if e.kind == "filter" and e.target is not None]
                at_ = {norm(a): v for a, v in _Fr.atoms(conds_).items() if "MEMBER" in norm(a) or "NAME" in norm(a) or "call:dir(" in a}
                opev = [e for e in p_.events if ((e.kind == "op" and e.op in ("evaluate", "validate", "keys", "explain")) or (e.kind == "call" and e.text in ("evaluate", "validate", "keys", "explain")))
                        and e.target is not None and not e.failed]
                proc = any(norm(e.target.key()) == "MEMBER" for e in opev)
                for e in opev:
                    tk_ = norm(e.target.key())
                    if tk_ != "MEMBER" and not _re.fullmatch(CLS, e.target.key()):
                        foreign.setdefault(k_, set()).add(tk_[:80])
                rows.append((at_, proc))
            per_op[k_] = rows
        universe = sorted({a for rows in per_op.values() for at_, _ in rows for a in at_})
        if not universe or len(universe) > 6:
            return None
        import itertools as _it
        tables = {}
        for k_, rows in per_op.items():
            tab = []
            for combo in _it.product([False, True], repeat=len(universe)):
                asg = dict(zip(universe, combo))
                tab.append(any(proc and all(asg[a] == v for a, v in at_.items()) for at_, proc in rows))
            tables[k_] = tuple(tab)
        return tables, universe, foreign
    by_paths = None
    ref = None
    for k, (flt, ln, sn) in forms.items():
        if len(flt) != 1:
            # not one loop in the method's own text (helpers, several passes): judged on the interpreter's paths — every
            # operation the method issues is issued on a member drawn from dir(class), under the siblings' conditions
            if by_paths is None:
                by_paths = path_table() or False
            okp, how = False, f"{len(flt)} enumerations"
            if by_paths:
                tabs, uni, foreign_ = by_paths
                first = next(iter(forms))
                okp = k in tabs and any(tabs[k]) and not foreign_.get(k)
                how = (f"on the interpreter's paths every operation is issued on a member drawn from dir(class) (truth table over {uni})" if okp
                       else f"operations also issued on {sorted(foreign_.get(k, []))}" if foreign_.get(k) else "no member is processed on any path")
                res.add(f"labrea.datasetclass.{k}:one member enumeration over dir(...)", okp, f, ln, how, nec)
                same = okp and first in tabs and tabs[k] == tabs[first]
                res.add(f"labrea.datasetclass.{k}:same member source and predicate as its siblings", same, f, ln,
                        f"on the interpreter's paths the member is processed under the same conditions as in {first}" if same else "conditions differ from " + first, nec)
            else:
                res.add(f"labrea.datasetclass.{k}:one member enumeration over dir(...)", False, f, ln, how, nec)
            continue
        src, formula = flt[0]
        src_n = "CLASS" if src in (sn, f"{sn}.__class__", "self.__class__", "cls", "type(self)") else src
        key = (src_n, _truth_table(formula, atoms))
        if ref is None:
            ref = key
        same = key == ref
        how = f"source {src}; member processed iff {ast.unparse(formula)} (compared as a truth table over {atoms})"
        if not same:
            if by_paths is None:
                by_paths = path_table() or False
            if by_paths:
                tabs, uni, _fg = by_paths
                first = next(iter(forms))
                if k in tabs and first in tabs and tabs[k] == tabs[first] and any(tabs[k]):
                    same = True
                    how = f"on the interpreter's paths the member is processed under the same conditions as in {first} (truth table over {uni})"
        res.add(f"labrea.datasetclass.{k}:same member source and predicate as its siblings", same, f, ln, how, nec)
    # a per-class memo written by an operation must not be read through the MRO: a derived dataset class would
    # inherit the base's list and its own members would be evaluated but never keyed / validated / explained
    memo_bad = []
    reach = astu.reachable_self_methods(meta, ["validate", "keys", "explain", "evaluate"])
    for mn, mfn in reach.items():
        sn = astu.first_param(mfn)
        for x in ast.walk(mfn):
            attr = None
            if isinstance(x, ast.Assign) and isinstance(x.targets[0], ast.Attribute) and isinstance(x.targets[0].value, ast.Name) and x.targets[0].value.id == sn:
                attr = x.targets[0].attr
            elif isinstance(x, ast.Call) and astu.short_name(x) == "setattr" and len(x.args) == 3 and isinstance(x.args[0], ast.Name) and x.args[0].id == sn \
                    and isinstance(x.args[1], ast.Constant) and isinstance(x.args[1].value, str):
                attr = x.args[1].value
            if attr is None:
                continue
            for rn, rfn in reach.items():
                rs_ = astu.first_param(rfn)
                for y in ast.walk(rfn):
                    # the presence test of the memo: hasattr / getattr-with-default follow the MRO (cls.__dict__ / vars(cls) do not)
                    via_mro = isinstance(y, ast.Call) and isinstance(y.args[0] if y.args else None, ast.Name) and y.args[0].id == rs_ \
                        and len(y.args) >= 2 and isinstance(y.args[1], ast.Constant) and y.args[1].value == attr \
                        and ((astu.short_name(y) == "hasattr") or (astu.short_name(y) == "getattr" and len(y.args) == 3))
                    if via_mro:
                        memo_bad.append((mn, attr, rn, y.lineno))
    res.add("labrea.datasetclass._DatasetClassMeta:no per-class memo that derived classes inherit", not memo_bad, f, memo_bad[0][3] if memo_bad else meta.node.lineno,
            "no operation stores state on the class" if not memo_bad else
            f"{memo_bad[0][0]}() stores cls.{memo_bad[0][1]} and {memo_bad[0][2]}() tests for it through the MRO (hasattr / getattr with a default): a derived class inherits the base's memo", nec)
    want_atoms = {"isinstance(MEMBER, Evaluatable)", "NAME.startswith('__')"}
    ok_atoms = set(atoms) == want_atoms
    how_atoms = f"predicate atoms {sorted(atoms)}"
    if not ok_atoms:
        # the predicate as the interpreter's paths decide it (helpers, hoisted constants): processed exactly when the
        # attribute is an Evaluatable and its name does not start with the dunder prefix, in every operation
        if by_paths is None:
            by_paths = path_table() or False
        if by_paths:
            tabs, uni, _fg = by_paths
            A1, A2 = "call:isinstance(MEMBER,class<labrea.types.Evaluatable>)", "call:startswith(NAME,Const('__'))"
            if set(uni) == {A1, A2}:
                import itertools as _it2
                want_tab = tuple(dict(zip(uni, combo))[A1] and not dict(zip(uni, combo))[A2] for combo in _it2.product([False, True], repeat=len(uni)))
                ok_atoms = all(t_ == want_tab for t_ in tabs.values())
                how_atoms = f"on the interpreter's paths: processed iff {A1} and not {A2}" if ok_atoms else f"truth tables {tabs} over {uni}"
            else:
                how_atoms = f"path atoms {uni}"
    res.add("labrea.datasetclass:members are the Evaluatable attributes that are not dunder names", ok_atoms, f, 1, how_atoms, nec)
    from .facts import bool_atoms, eval_bool
    eq = mix.methods.get("__eq__")
    rp = mix.methods.get("__repr__")
    ok = eq is not None and rp is not None
    # the attribute that records the relevant options: what __eq__ compares on both sides (whatever it is called)
    REC = "_repr_options"
    if eq is not None:
        import re as _re
        for p in analyse_function(Ctx(repo), mix.module, eq, cls=mix):
            if p.ret is not None:
                mo_ = _re.search(r"cmp:Eq\(attr:(\w+)\(self\),attr:(\w+)\(\w+\)\)", p.ret.key())
                if mo_ and mo_.group(1) == mo_.group(2):
                    REC = mo_.group(1)
    if ok:
        oth = astu.param_names(eq)[0]
        A_, B_ = f"call:isinstance({oth},attr:__class__(self))", f"cmp:Eq(attr:{REC}(self),attr:{REC}({oth}))"
        B2_ = f"cmp:Eq(attr:{REC}({oth}),attr:{REC}(self))"
        for p in analyse_function(Ctx(repo), mix.module, eq, cls=mix):
            # equal exactly when other is an instance of the same class and the recorded relevant options are equal
            if p.status != "ret" or p.ret is None:
                ok = False
                continue
            at = dict(Frame.atoms(p.conds))
            ats = [a_.replace(B2_, B_) for a_ in bool_atoms(p.ret)]
            if isinstance(p.ret, Const) and p.ret.v is True and (at.get(f"cmp:Is(self,{oth})") is True or at.get(f"cmp:Is({oth},self)") is True):
                continue        # the very same object: an instance of its class with the same recorded options
            if "NotImplemented" in p.ret.key() and any(k_.startswith(f"call:isinstance({oth},") and v_ is False for k_, v_ in at.items()):
                continue        # not an instance of this class: left to the other operand, which (for a foreign object) says not equal
            if isinstance(p.ret, Const):
                val = {(True, True): bool(p.ret.v)} if at.get(A_) is True and (at.get(B_) is True or at.get(B2_) is True) else None
                good = (p.ret.v is False and (at.get(A_) is False or at.get(B_) is False or at.get(B2_) is False)) or (p.ret.v is True and val is not None)
            else:
                good = set(ats) | set(at) >= {A_} and (B_ in ats or B_ in at or B2_ in at)
                for av in (False, True):
                    for bv in (False, True):
                        asg = {A_: av, B_: bv, B2_: bv, **{k_: v_ for k_, v_ in at.items()}}
                        if any(asg.get(k_) != v_ for k_, v_ in at.items()):
                            continue
                        r_ = eval_bool(p.ret, asg)
                        if r_ is not None and r_ != (asg[A_] and asg[B_]):
                            good = False
            ok = ok and good
        ok = ok and all(p.status == "ret" and p.ret is not None and f"attr:{REC}(self)" in p.ret.key() and "attr:__name__(attr:__class__(self))" in p.ret.key()
                        for p in analyse_function(Ctx(repo), mix.module, rp, cls=mix))
    res.add("labrea.datasetclass._DatasetClassMixin:__eq__ and __repr__ read the recorded relevant options", ok, f, eq.lineno if eq else 0, "", nec)
    ips = [p for p in analyse_function(Ctx(repo), mix.module, init, cls=mix) if p.status == "ret"]
    optp = astu.param_names(init)[0]
    ok = bool(ips)
    saw_rec = False
    for p in ips:
        st = [e for e in p.events if e.kind == "store" and len(e.args) == 2 and e.args[0].key() == "self" and e.args[1].key() == Const(REC).key()]
        if not st:
            ok = False
        for e in p.events:
            if e.kind == "call" and e.text.endswith("set_dotted_key"):
                # key from the class's keys for these options, value looked up under the same key, recorded on the instance
                k0 = e.args[0].key() if e.args else ""
                import re as _re
                mo_ = _re.search(r"call:keys\(attr:__class__\(self\),(" + _re.escape(optp) + r"|dict\{\})\)", k0)
                good = len(e.args) == 3 and mo_ is not None and e.args[1].key() == f"call:confectioner.templating.get_dotted_key({k0},{mo_.group(1)})" \
                    and (e.args[2].key() in (f"attr:{REC}(self)", "dict{}") or REC in e.args[2].key())
                saw_rec = saw_rec or good
                ok = ok and good
    res.add("labrea.datasetclass._DatasetClassMixin.__init__:records options restricted to the class's keys", ok and saw_rec, f, init.lineno, "", nec)
    # set_dotted_key builds nested sections; a dictionary filled that way is recorded as it is — merged into another one with
    # ``update()`` / ``{**a, **b}`` (shallow) a later partial section replaces an earlier one of the same name, entries and all
    shallow = []
    n_filled = 0
    for fn_ in [x for x in ast.walk(mix.module.tree) if isinstance(x, (ast.FunctionDef, ast.AsyncFunctionDef))]:
        filled = {c_.args[2].id for c_ in ast.walk(fn_) if isinstance(c_, ast.Call) and astu.callee_name(c_).split(".")[-1] == "set_dotted_key"
                  and len(c_.args) == 3 and isinstance(c_.args[2], ast.Name)}
        n_filled += len(filled)
        for c_ in ast.walk(fn_):
            if isinstance(c_, ast.Call) and isinstance(c_.func, ast.Attribute) and c_.func.attr == "update" and any(isinstance(a_, ast.Name) and a_.id in filled for a_ in c_.args):
                shallow.append((c_.lineno, ast.unparse(c_)[:60]))
            if isinstance(c_, ast.Dict) and any(k_ is None and isinstance(v_, ast.Name) and v_.id in filled for k_, v_ in zip(c_.keys, c_.values)) and len(c_.values) > 1:
                shallow.append((c_.lineno, ast.unparse(c_)[:60]))
    res.add("labrea.datasetclass:a dictionary of nested sections is not merged shallowly into another", not shallow, f, shallow[0][0] if shallow else init.lineno,
            f"`{shallow[0][1]}` (line {shallow[0][0]}): the merged dictionary was filled with set_dotted_key — a section that occurs twice keeps only the entries merged last, "
            "instances whose options differ in the lost entries compare equal" if shallow else "no update()/{**…} of a dictionary filled by set_dotted_key",
            "two instances compare equal exactly when the options restricted to the reported keys (nested dotted keys included) are equal (C19)")
    ev = meta.methods.get("evaluate")
    ok = ev is not None
    if ok:
        eps_ = analyse_function(Ctx(repo), meta.module, ev)
        c0, o0 = astu.first_param(ev), astu.param_names(ev)[0]
        ok = bool(eps_) and all(p.status == "ret" and p.ret is not None and p.ret.key() == f"call:{c0}({o0})" for p in eps_)
    res.add("labrea.datasetclass._DatasetClassMeta.evaluate:instantiates with the options", ok, f, ev.lineno if ev else 0, "", nec)
    # the member's value is requested through its evaluate() with the instance's options (calling a dataset class
    # instantiates it directly, bypassing the request) and stored on the instance under the member's own name — read off
    # the paths: every setattr on the instance is setattr(self, NAME, MEMBER.evaluate(options)), and every path that
    # evaluates a member stores it
    import re as _re3
    CLS3 = r"(?:attr:__class__\(self\)|classof\(self\)|call:type\(self\)|self)"
    NAME3 = r"elem\(call:dir\(" + CLS3 + r"\)\)"
    ok = bool(ips)
    seen_set = []
    for p in ips:
        sets_ = [e for e in p.events if e.kind == "store" and e.text.startswith("setattr(") and e.args and e.args[0].key() == "self"]
        evs_ = [e for e in p.events if e.kind == "call" and e.text == "evaluate" and e.target is not None and _re3.fullmatch(r"getattr\(" + CLS3 + "," + NAME3 + r"(?:,Const\(None\))?\)", e.target.key())]
        for e in sets_:
            nm_ = e.args[1].key() if len(e.args) > 1 else ""
            tk_ = e.target.key() if e.target is not None else ""
            # (the options, or the empty dictionary that stands in for them on a path that found them falsy)
            empty_ok = Frame.atoms(p.conds).get(optp) is False
            good = bool(_re3.fullmatch(NAME3, nm_)) and bool(_re3.fullmatch(r"call:evaluate\(getattr\(" + CLS3 + "," + _re3.escape(nm_) + r"(?:,Const\(None\))?\),(?:" + _re3.escape(optp)
                                                                   + (r"|dict\{\}" if empty_ok else "") + r")\)", tk_))
            seen_set.append(f"setattr(self, {nm_[:30]}, {tk_[:60]})")
            ok = ok and good
        if evs_ and not sets_:
            ok = False
            seen_set.append("a member is evaluated and not stored")
    ok = ok and bool(seen_set)
    res.add("labrea.datasetclass._DatasetClassMixin.__init__:every evaluatable member set to its evaluation", ok, f, init.lineno, f"{sorted(set(seen_set))[:3]}", nec)
    mi = meta.methods.get("__init__")
    ok = mi is not None
    if ok:
        wrapped = False
        c0 = astu.first_param(mi)
        for p in analyse_function(Ctx(repo), meta.module, mi):
            at = Frame.atoms(p.conds)
            for e in p.events:
                if e.kind == "store" and len(e.args) == 2 and e.args[0].key() == c0 and e.target is not None and e.target.key().startswith("New(Value;value="):
                    inner = e.target.key()[len("New(Value;value="):-1]
                    # only members that are not evaluatables already are wrapped, and the member is stored back under its own name
                    if at.get(f"call:isinstance({inner},class<labrea.types.Evaluatable>)") is False and inner.startswith(f"getattr({c0},"):
                        wrapped = True
                    else:
                        ok = False
        ok = ok and wrapped
    res.add("labrea.datasetclass._DatasetClassMeta.__init__:plain annotated members wrapped as constants", ok, f, mi.lineno if mi else 0, "", nec)
    return res


# ------------------------------------------------------------------ R-PL
def _lock_attrs(repo, c) -> Set[str]:
    out = set()
    for fn in c.methods.values():
        for s in ast.walk(fn):
            if isinstance(s, ast.Assign):
                for t in s.targets:
                    if isinstance(t, ast.Attribute) and isinstance(t.value, ast.Name) and t.value.id == "self":
                        v = s.value
                        txt = ast.unparse(v)
                        is_lock = "Lock(" in txt or "RLock(" in txt or "Condition(" in txt or "Semaphore(" in txt or "Event(" in txt
                        if isinstance(v, ast.Call) and isinstance(v.func, ast.Name):
                            r = repo.resolve_name(c.module, v.func.id)
                            if r and r[0] == "func" and r[1].node.returns is not None and "Lock" in ast.unparse(r[1].node.returns):
                                is_lock = True
                        if is_lock:
                            out.add(t.attr)
    for a, ann in c.annotations.items():
        if "Lock" in ast.unparse(ann):
            out.add(a)
    return out


_UNPICKLABLE = {"types.MappingProxyType": "a read-only mapping view", "MappingProxyType": "a read-only mapping view",
                "weakref.ref": "a weak reference", "weakref.proxy": "a weak reference", "weakref.WeakKeyDictionary": "a weak dictionary",
                "weakref.WeakValueDictionary": "a weak dictionary", "weakref.WeakSet": "a weak set", "weakref.WeakMethod": "a weak reference",
                "threading.local": "thread-local storage", "open": "an open file", "iter": "a one-shot iterator", "builtins.iter": "a one-shot iterator",
                "itertools.chain": "a one-shot iterator", "itertools.count": "an iterator", "itertools.cycle": "an iterator (not picklable from 3.14 on)",
                "builtins.map": "a one-shot iterator", "builtins.filter": "a one-shot iterator", "builtins.zip": "a one-shot iterator"}


def _unpicklable_value(repo, module, v, _depth: int = 0) -> str:
    """Why pickle refuses (one of the values of) the expression, '' when nothing is known against it.  Looks through `a or b`,
    conditional expressions and module-level names bound once to such a value."""
    if _depth > 4:
        return ""
    if isinstance(v, ast.BoolOp):
        for x in v.values:
            w = _unpicklable_value(repo, module, x, _depth + 1)
            if w:
                return w
        return ""
    if isinstance(v, ast.IfExp):
        return _unpicklable_value(repo, module, v.body, _depth + 1) or _unpicklable_value(repo, module, v.orelse, _depth + 1)
    if isinstance(v, ast.GeneratorExp):
        return "a generator"
    if isinstance(v, ast.Call):
        r = repo.resolve_expr(module, v.func)
        nm = r[1] if r and r[0] == "external" else (ast.unparse(v.func) if r is None and isinstance(v.func, (ast.Name, ast.Attribute)) else "")
        if isinstance(v.func, ast.Name) and v.func.id in ("open", "iter") and r is None:
            nm = v.func.id
        return _UNPICKLABLE.get(nm, "") if isinstance(nm, str) else ""
    if isinstance(v, ast.Name):
        r = repo.resolve_name(module, v.id)
        if r and r[0] == "var" and isinstance(r[1], ast.expr):
            return _unpicklable_value(repo, r[2], r[1], _depth + 1)
    return ""


def rule_PL(run: Run) -> RuleResult:
    res = RuleResult("R-PL")
    repo = run.repo
    from . import rules_runtime as RTN
    RTN._rt(run)
    nec = "a lock stored on an instance cannot be pickled: the class must drop it in __getstate__ and re-create it in __setstate__ (C20)"
    n = 0
    for c in repo.classes.values():
        if c.module.name.startswith("labrea.mypy"):
            continue
        locks = _lock_attrs(repo, c)
        gs, ss = c.methods.get("__getstate__"), c.methods.get("__setstate__")
        if locks:
            n += 1
            ok_g = gs is not None
            if ok_g:
                # the pickled state is the instance dictionary with every lock attribute replaced by something that is not a lock
                for p in analyse_function(Ctx(repo), c.module, gs, cls=c):
                    k = p.ret.key() if p.status == "ret" and p.ret is not None else ""
                    replaced = (k.startswith("dict(") and "attr:__dict__(self)" in k and all(f"item(Const('{a}')," in k and k.index("attr:__dict__(self)") < k.index(f"item(Const('{a}'),") for a in locks)
                                and "Lock" not in k.split("attr:__dict__(self)", 1)[1])
                    # … or the instance dictionary copied, with every lock entry taken out of the copy (state.pop('_lock', None) / del state['_lock'])
                    copied = "attr:__dict__(self)" in k and k != "attr:__dict__(self)"
                    dropped = all(any((e.kind == "call" and e.text == "pop" and e.args and e.args[0].key() == Const(a).key() and e.target is not None and e.target.key() != "attr:__dict__(self)")
                                      or (e.kind == "delete" and len(e.args) == 2 and e.args[1].key() == Const(a).key() and e.args[0].key() != "attr:__dict__(self)") for e in p.events) for a in locks)
                    if not (replaced or (copied and dropped)):
                        ok_g = False
            ok_s = ss is not None
            if ok_s:
                st_p = astu.param_names(ss)[0]
                for p in analyse_function(Ctx(repo), c.module, ss, cls=c):
                    if p.status != "ret":
                        continue
                    restored = any(e.kind == "call" and e.text == "update" and e.target is not None and e.target.key() == "attr:__dict__(self)" and e.args and e.args[0].key() == st_p for e in p.events) \
                        or any(e.kind == "store" and len(e.args) == 2 and e.args[0].key() == "self" and e.args[1].key() == Const("__dict__").key() for e in p.events)
                    relocked = all(any(e.kind == "store" and len(e.args) == 2 and e.args[0].key() == "self" and e.args[1].key() == Const(a).key() and e.target is not None
                                       and ("Lock" in e.target.key() or RTN.LOCKS_TABLE in e.target.key()) for e in p.events) for a in locks)
                    # the fresh lock is installed after the saved state (which holds the placeholder) was restored
                    order = True
                    if restored and relocked:
                        i_upd = max(i for i, e in enumerate(p.events) if (e.kind == "call" and e.text == "update") or (e.kind == "store" and len(e.args) == 2 and e.args[1].key() == Const("__dict__").key()))
                        i_lock = min(i for i, e in enumerate(p.events) if e.kind == "store" and len(e.args) == 2 and e.args[0].key() == "self" and e.args[1].key() in [Const(a).key() for a in locks])
                        order = i_upd < i_lock
                    if not (restored and relocked and order):
                        ok_s = False
            res.add(f"{c.qualname}:lock attribute(s) {sorted(locks)} replaced in __getstate__", ok_g, c.module.relpath, gs.lineno if gs else c.node.lineno, "", nec)
            res.add(f"{c.qualname}:lock attribute(s) {sorted(locks)} re-created in __setstate__, other state restored", ok_s, c.module.relpath, ss.lineno if ss else c.node.lineno,
                    "unconditional `self.<lock> = <new or registered lock>` at the top level of __setstate__" if ok_s else
                    "__setstate__ does not unconditionally assign a lock: an object unpickled in a fresh process has no lock and register() fails", nec)
        elif gs is not None or ss is not None:
            ok = gs is not None and ss is not None
            res.add(f"{c.qualname}:__getstate__ and __setstate__ come in pairs", ok, c.module.relpath, c.node.lineno, "", nec)
    if n < 1:
        raise AnalysisError("no class with a lock attribute found (Overloaded expected)")
    # ... and nothing else that pickle refuses is kept on an object of the graph: a read-only mapping view, a weak reference, a generator,
    # an iterator, thread-local storage, an open file (a class that defines its own __getstate__ / __reduce__ decides for itself)
    n_st = 0
    for c in repo.classes.values():
        if c.module.name.startswith("labrea.mypy") or any(k in kc.methods for kc in c.mro() for k in ("__getstate__", "__reduce__", "__reduce_ex__")):
            continue
        for mn, fn in c.methods.items():
            sn = astu.first_param(fn) or "self"
            for st in ast.walk(fn):
                if not isinstance(st, (ast.Assign, ast.AnnAssign)) or getattr(st, "value", None) is None:
                    continue
                for t in (st.targets if isinstance(st, ast.Assign) else [st.target]):
                    if not (isinstance(t, ast.Attribute) and isinstance(t.value, ast.Name) and t.value.id == sn):
                        continue
                    n_st += 1
                    why = _unpicklable_value(repo, c.module, st.value)
                    if why:
                        res.add(f"{c.qualname}.{mn}:self.{t.attr} holds nothing pickle refuses", False, c.module.relpath, st.lineno,
                                f"self.{t.attr} = {ast.unparse(st.value)[:60]}: {why}; pickling (and deep-copying) any graph that contains such an object fails", nec)
    res.add("labrea:no object of the graph keeps a value pickle refuses (mapping views, weak references, generators, iterators, thread-locals, files)",
            True, "labrea/types.py", 1, f"{n_st} attribute stores inspected", nec, trivial=True)
    if n_st < 60:
        raise AnalysisError(f"R-PL: only {n_st} attribute stores found")
    if not _unpicklable_value(repo, next(iter(repo.modules.values())), ast.parse("types.MappingProxyType({}) if x else y", mode="eval").body):
        raise AnalysisError("R-PL: the detector no longer sees its positive example")
    # what is pickled is the instance dictionary: a class that takes a hand in it (__getstate__ / __setstate__ / __reduce__ / __reduce_ex__ /
    # __getnewargs__ / __copy__ / __deepcopy__) is one of the reviewed ones — the classes that hold a lock.  A new hook (functions stored
    # by reference and looked up again on load, say) decides by itself what the copy is made of, and is reported for a look
    HOOKS = ("__getstate__", "__setstate__", "__reduce__", "__reduce_ex__", "__getnewargs__", "__getnewargs_ex__", "__copy__", "__deepcopy__")
    for c in repo.classes.values():
        if c.module.name.startswith("labrea.mypy") or not (c.is_subclass_of("Evaluatable") or c.is_subclass_of("Effect") or c.is_subclass_of("Cache")):
            continue
        own = [h_ for h_ in HOOKS if h_ in c.methods]
        if not own:
            continue
        holds_lock = bool(_lock_attrs(repo, c))
        res.add(f"{c.qualname}:pickling hooks {own} only where a lock has to be dropped", holds_lock, c.module.relpath, c.methods[own[0]].lineno,
                "the class holds a lock (its hooks are judged above)" if holds_lock else
                f"{c.name} defines {own} although its instances hold nothing pickle refuses: what a copy is made of is decided by hand here", nec)
    # node classes rely on default instance pickling: no __slots__, no __reduce__ surprises
    for c in run.node_classes():
        bad = [a for a in ("__slots__",) if a in c.class_assigns]
        res.add(f"{c.qualname}:default instance pickling applies", not bad, c.module.relpath, c.node.lineno, "no __slots__" if not bad else f"defines {bad}", nec)
    # unpickling (and copy) makes the instance first and fills its dictionary afterwards; in between pickle asks it for ``__setstate__``.
    # A class with a ``__getattr__`` answers that question itself — on an instance that has no attribute yet.  For an underscore name
    # that the (absent) instance dictionary does not list it has to say AttributeError before it touches any instance state: a read
    # of self.<attribute> or self[…] there arrives in __getattr__ again, and again, until RecursionError
    n_ga = 0
    for c in repo.classes.values():
        ga = c.methods.get("__getattr__")
        if c.module.name.startswith("labrea.mypy") or ga is None:
            continue
        n_ga += 1
        pn = astu.param_names(ga)
        key_p = pn[0] if pn else "key"

        def known(term: str):
            """Truth of a condition for (the name starts with an underscore, the instance dictionary is empty); None = not decided by that."""
            if term.startswith("unop:Not(") and term.endswith(")"):
                v = known(term[len("unop:Not("):-1])
                return None if v is None else not v
            if term.startswith("call:startswith(" + key_p + ",Const('_"):
                return True
            for op, val in (("cmp:NotIn(", True), ("cmp:In(", False)):
                if term.startswith(op + key_p + ",") and ("call:get(attr:__dict__(self)," in term or "call:get(call:vars(self)," in term):
                    return val
            return None

        def touches_state(term: str) -> bool:
            import re as _re
            return bool(_re.search(r"attr:(?!__dict__\b|__class__\b)[A-Za-z_0-9]+\(self\)", term)) or "getitem(self," in term or "call:getattr(self," in term

        bad_ga = []
        n_s = 0
        for p in analyse_function(Ctx(repo), c.module, ga):
            if any(known(cd[2] or "") is not None and known(cd[2] or "") != cd[1] for cd in p.conds):
                continue        # not a path of the scenario
            n_s += 1
            first_touch = None
            for e in p.events:
                terms = [e.target.key() if e.target is not None else ""] + [a.key() for a in (e.args or [])]
                if e.kind == "raise":
                    break
                if (e.kind == "call" and e.text == "getitem" and e.target is not None and e.target.key() == "self") or any(touches_state(t) for t in terms if e.kind != "raise"):
                    first_touch = e.line
                    break
            rejected = p.status == "raise" and p.exc and p.exc[0].split(".")[-1] == "AttributeError"
            if first_touch is not None or not rejected:
                bad_ga.append(f"line {first_touch}: instance state is read" if first_touch is not None else f"the path ends with {p.status} {p.exc[0] if p.exc else ''}")
        res.add(f"{c.qualname}.__getattr__:an underscore name the instance dictionary does not list is refused before any state is read", n_s > 0 and not bad_ga,
                c.module.relpath, ga.lineno, (bad_ga[0] + " for a name like '__setstate__' on an instance whose dictionary is still empty (as pickle.loads and copy "
                "ask for it): the read comes back to __getattr__ and recurses until RecursionError — no graph containing such an object can be loaded")
                if bad_ga else f"{n_s} path(s) for that case, all raise AttributeError first", "datasets survive a pickle round trip (C20)")
    res.count("getattr_classes", n_ga)
    return res


# ------------------------------------------------------------------ R-PK
def _sentinel_confined(repo, mod, name: str) -> bool:
    """Every reference to the module-level sentinel is the default of getattr()/dict.get()/pop()/next() or an operand of
    ``is`` / ``is not`` — it is never stored, returned or handed to anything else, in any module that can see it."""
    for m in repo.modules.values():
        if m is not mod and not (name in m.imports and m.imports[name][0] == mod.name):
            continue
        pm = astu.parent_map(m.tree)
        for x in ast.walk(m.tree):
            if not (isinstance(x, ast.Name) and x.id == name):
                continue
            par = pm.get(id(x))
            if isinstance(x.ctx, ast.Store):
                if isinstance(par, (ast.Assign, ast.AnnAssign)) and pm.get(id(par)) is m.tree:
                    continue        # its one module-level definition
                return False
            if isinstance(par, ast.Compare) and len(par.ops) == 1 and isinstance(par.ops[0], (ast.Is, ast.IsNot)):
                continue
            if isinstance(par, ast.Call) and x in par.args and par.args.index(x) >= 1:
                f = par.func
                if (isinstance(f, ast.Name) and f.id in ("getattr", "next") and par.args.index(x) == (2 if f.id == "getattr" else 1)) or \
                        (isinstance(f, ast.Attribute) and f.attr in ("get", "pop") and par.args.index(x) == 1):
                    continue
            if isinstance(par, ast.arguments) and (x in par.defaults or x in par.kw_defaults):
                # "argument not given" marker of a parameter: fine when the parameter is only ever used after the test
                # ``param is <sentinel>`` came out false (it can then not be the sentinel that is stored or handed on)
                fn_ = pm.get(id(par))
                if isinstance(fn_, (ast.FunctionDef, ast.Lambda)):
                    pos_ = par.posonlyargs + par.args
                    if x in par.defaults:
                        pname = pos_[len(pos_) - len(par.defaults) + par.defaults.index(x)].arg
                    else:
                        pname = par.kwonlyargs[par.kw_defaults.index(x)].arg
                    if _param_guarded_by_sentinel(fn_, pname, name, pm):
                        continue
            return False
    return True


def _param_guarded_by_sentinel(fn, pname: str, sentinel: str, pm) -> bool:
    """Every use of the parameter is the identity test against the sentinel, or sits where that test came out false."""
    def is_test(t, positive: bool) -> bool:
        return isinstance(t, ast.Compare) and len(t.ops) == 1 and isinstance(t.ops[0], ast.Is if positive else ast.IsNot) \
            and isinstance(t.left, ast.Name) and t.left.id == pname and isinstance(t.comparators[0], ast.Name) and t.comparators[0].id == sentinel
    for u in ast.walk(fn):
        if not (isinstance(u, ast.Name) and u.id == pname and isinstance(u.ctx, ast.Load)):
            continue
        par = pm.get(id(u))
        if isinstance(par, ast.Compare) and (is_test(par, True) or is_test(par, False)):
            continue
        cur, ok = u, False
        while id(cur) in pm and cur is not fn:
            up = pm[id(cur)]
            if isinstance(up, (ast.IfExp, ast.If)):
                in_body = (cur is up.body) if isinstance(up, ast.IfExp) else any(cur is b_ for b_ in up.body)
                in_else = (cur is up.orelse) if isinstance(up, ast.IfExp) else any(cur is b_ for b_ in up.orelse)
                if (is_test(up.test, True) and in_else) or (is_test(up.test, False) and in_body):
                    ok = True
                    break
            cur = up
        if not ok:
            return False
    return True


def rule_PK(run: Run) -> RuleResult:
    """Identity tests only against objects whose identity survives a pickle round trip."""
    res = RuleResult("R-PK")
    repo = run.repo
    nec = ("`x is G` with G an ordinary module-level instance is False for the copy of G that unpickling creates: an object that "
           "held G before pickling takes the other branch afterwards (C20)")

    def by_reference(mod, value: ast.expr, name: str = "") -> Optional[str]:
        """Why the object bound by ``name = value`` keeps its identity across pickling, or None."""
        if isinstance(value, ast.Constant) and (value.value is None or isinstance(value.value, bool)):
            return "None/True/False"
        if isinstance(value, ast.Attribute) and isinstance(value.value, ast.Name):
            ci = repo.resolve_class(mod, value.value)
            if ci is not None and any(b in ("Enum", "IntEnum", "Flag") or b.endswith(".Enum") for k in ci.mro() for b in k.external_bases()):
                return f"member of the Enum {ci.name} (pickled by name)"
        if isinstance(value, ast.Call):
            fn = ast.unparse(value.func)
            if fn == "object" and name and _sentinel_confined(repo, mod, name):
                return "a private sentinel that never leaves the module's own look-ups (getattr/get/pop/next default and `is` tests only): no pickled object can hold it"
            if fn in ("object", "threading.Lock", "threading.RLock"):
                return None
            ci = repo.resolve_class(mod, value.func) if isinstance(value.func, (ast.Name, ast.Attribute)) else None
            if ci is not None:
                if any("__reduce__" in k.methods or "__reduce_ex__" in k.methods for k in ci.mro()):
                    red = next(k.methods.get("__reduce__") or k.methods.get("__reduce_ex__") for k in ci.mro() if "__reduce__" in k.methods or "__reduce_ex__" in k.methods)
                    rets = [r.value for r in ast.walk(red) if isinstance(r, ast.Return) and r.value is not None]
                    if rets and all(isinstance(r, ast.Constant) and isinstance(r.value, str) for r in rets):
                        return f"{ci.name}.__reduce__ returns a global name"
                return None
        return None

    n = n_missing = 0
    for m, cls, fn, q in iter_functions(repo):
        if m.name.startswith("labrea.mypy"):
            continue
        for x in astu.walk_no_nested(fn):
            if not (isinstance(x, ast.Compare) and len(x.ops) == 1 and isinstance(x.ops[0], (ast.Is, ast.IsNot))):
                continue
            for side in (x.left, x.comparators[0]):
                if not isinstance(side, ast.Name):
                    continue
                r = repo.resolve_name(m, side.id)
                if not r or r[0] != "var":
                    continue
                # follow `from .x import NAME` to the defining assignment
                val = r[1]
                dm = r[2] if len(r) > 2 else m
                why = by_reference(dm, val, side.id)
                n += 1
                if side.id == "MISSING":
                    n_missing += 1
                    continue      # reported once below
                res.add(f"{q}:identity test against module-level {side.id}", why is not None, m.relpath, x.lineno,
                        f"{ast.unparse(x)[:70]} — {side.id} = {ast.unparse(val)[:50]}: " + (why or "an ordinary instance, pickled by value: the test is False for its unpickled copy"), nec)
    mm = repo.modules.get("labrea._missing")
    ok = False
    d = "labrea/_missing.py not found"
    if mm is not None:
        r = mm.names.get("MISSING")
        why = by_reference(mm, r[1]) if r and r[0] == "var" else None
        ok = why is not None
        d = f"MISSING = {ast.unparse(r[1]) if r else '?'}: " + (why or "not pickled by reference")
    res.add("labrea._missing.MISSING:identity survives pickling", ok, mm.relpath if mm else "", 1, d + f"; {n_missing} `is MISSING` tests rely on it", nec)
    res.count("identity_tests", n)
    if n_missing < 20:
        raise AnalysisError(f"only {n_missing} identity tests against MISSING found (40+ confirmed by hand)")
    return res


# ------------------------------------------------------------------ R-PF
def rule_PF(run: Run) -> RuleResult:
    res = RuleResult("R-PF")
    repo = run.repo
    nec = ("pickle stores functions by reference (module + qualified name): an object that replaces the decorated "
           "function under its own name while still holding the raw function cannot be pickled — the name now "
           "resolves to the object, not the function")
    n = 0
    for m, cls, fn, q in iter_functions(repo):
        amap = astu.single_assign_map(fn)
        for c in astu.calls_in(fn):
            if ast.unparse(c.func) in ("functools.update_wrapper", "update_wrapper") and len(c.args) >= 2:
                tgt = astu.expand_locals(c.args[0], amap)
                if isinstance(tgt, ast.Call):
                    ci = repo.resolve_class(m, tgt.func) if isinstance(tgt.func, (ast.Name, ast.Attribute)) else None
                    if ci is not None:
                        n += 1
                        has_reduce = any(k.find_method(x) for k in [ci] for x in ("__reduce__", "__reduce_ex__"))
                        # is the raw function retained by the wrapper's fields?
                        res.add(f"{q}:{ci.name} instance takes the decorated function's name while retaining it", bool(has_reduce), m.relpath, c.lineno,
                                f"functools.update_wrapper({ast.unparse(c.args[0])}, {ast.unparse(c.args[1])}) copies __module__/__qualname__/__wrapped__ onto a {ci.name}; "
                                + ("class customises pickling" if has_reduce else f"{ci.name} defines no __reduce__/__reduce_ex__"), nec)
    if n == 0:
        res.add("labrea:no wrapper object impersonates a function", True, "", 0, "no update_wrapper on instances", nec, trivial=True)
    return res


# ------------------------------------------------------------------ R-GA
def rule_GA(run: Run) -> RuleResult:
    res = RuleResult("R-GA")
    repo = run.repo
    nec = ("pickle probes __setstate__/__reduce_ex__ on an instance whose __dict__ is still empty: a __getattr__ "
           "that reads an instance attribute without first rejecting private/dunder names recurses without bound")
    n = 0
    for c in repo.classes.values():
        ga = c.methods.get("__getattr__")
        if ga is None or c.module.name.startswith("labrea.mypy"):
            continue
        n += 1
        name = astu.param_names(ga)[0]
        stmts = [s for s in ga.body if not (isinstance(s, ast.Expr) and isinstance(s.value, ast.Constant))]
        guarded = False
        eff_g = {id(n_): t_ for n_, t_ in astu.effective_tests(ga)}
        for s in stmts:
            if isinstance(s, ast.If) and any(isinstance(x, ast.Raise) for x in s.body):
                te = eff_g.get(id(s), s.test)
                # private name predicates (``_is_public(key)`` = ``not key.startswith('_')``) are read through

                def _pred(call, _m=c.module):
                    if isinstance(call.func, (ast.Name, ast.Attribute)):
                        r_ = repo.resolve_expr(_m, call.func)
                        if r_ and r_[0] == "func" and (r_[1].node.name.startswith("_") or r_[1].module.name.rsplit(".", 1)[-1].startswith("_")):
                            return r_[1].node, False
                    return None
                te = astu.inline_helpers(te, _pred)
                t = ast.unparse(te)
                reads_self = any(isinstance(x, ast.Attribute) and isinstance(x.value, ast.Name) and x.value.id == "self" and x.attr != "__dict__" for x in ast.walk(te))
                if (f"{name}.startswith('_" in t or f"{name}.startswith(\"_" in t) and not reads_self:
                    guarded = True
                    break
                if reads_self:
                    break       # the guard's own test reads instance state (self.x in `name.startswith('_') and name not in self.x`)
            # any self access before the guard?  (self.__dict__ is found by normal lookup and cannot recurse)
            if isinstance(s, ast.Assign) and len(s.targets) == 1 and isinstance(s.targets[0], ast.Name) and any(
                    isinstance(nx, ast.If) and isinstance(nx.test, ast.Name) and nx.test.id == s.targets[0].id for nx in stmts):
                continue        # the computation of the guard's own test
            if any(((isinstance(x, ast.Attribute) and isinstance(x.value, ast.Name) and x.value.id == "self" and x.attr != "__dict__") or
                    (isinstance(x, ast.Subscript) and isinstance(x.value, ast.Name) and x.value.id == "self")) for x in ast.walk(s)):
                break
        res.add(f"{c.qualname}.__getattr__:rejects private names before touching instance state", guarded, c.module.relpath, ga.lineno,
                "guarded" if guarded else f"reads instance state (`{ast.unparse(stmts[0])[:50]}`…) for any name, including __setstate__", nec)
    if n == 0:
        res.add("labrea:no class defines __getattr__", True, "", 0, "", nec, trivial=True)
    # __getattr__ is asked only when normal look-up fails: an attribute attached to a class of the library from outside its body
    # (``Evaluatable.when = _when`` at the bottom of another module) is found first on every instance of every subclass — a Namespace
    # member of that name is shadowed by it (C04: options grouped in a namespace behave like the fully-qualified Options)
    attached = []
    for m in repo.modules.values():
        if m.name.startswith("labrea.mypy"):
            continue
        for x in ast.walk(m.tree):
            tgts = x.targets if isinstance(x, ast.Assign) else ([x.target] if isinstance(x, (ast.AnnAssign, ast.AugAssign)) else [])
            for t in tgts:
                if isinstance(t, ast.Attribute) and isinstance(t.value, (ast.Name, ast.Attribute)) and not t.attr.startswith("__"):
                    kc_ = repo.resolve_class(m, t.value)
                    if kc_ is not None and (kc_.is_subclass_of("Evaluatable") or kc_.name == "Evaluatable"):
                        attached.append((m, x.lineno, kc_.name, t.attr))
            if isinstance(x, ast.Call) and isinstance(x.func, ast.Name) and x.func.id == "setattr" and len(x.args) == 3 and isinstance(x.args[0], (ast.Name, ast.Attribute)):
                kc_ = repo.resolve_class(m, x.args[0])
                if kc_ is not None and (kc_.is_subclass_of("Evaluatable") or kc_.name == "Evaluatable"):
                    nm_ = x.args[1].value if isinstance(x.args[1], ast.Constant) else "…"
                    attached.append((m, x.lineno, kc_.name, str(nm_)))
    for m_, ln_, cn_, an_ in attached:
        res.add(f"{m_.name}:attaches {cn_}.{an_} from outside the class body", False, m_.relpath, ln_,
                f"{cn_}.{an_} = …: found by normal attribute look-up on every {cn_}, so a namespace member called '{an_}' is never reached through __getattr__", nec)
    res.add("labrea:attaches no attribute to an expression class from outside its body", not attached, "labrea/types.py", 1, f"{len(attached)} such assignments", nec, trivial=not attached)
    return res


# ------------------------------------------------------------------ R-GS
def _shared_tables(run: Run) -> Dict[str, str]:
    """The three guarded shared tables, found by their use (rules_runtime._bind_names), whatever they are called."""
    from . import rules_runtime as RTN
    RTN._rt(run)
    return {
        f"labrea.runtime.{RTN.TABLE}": "thread -> runtime table, guarded by the runtime lock (R-LS, R-TI)",
        f"labrea.runtime.{RTN.DEFAULTS}": "default handler registry, written under the runtime lock (R-LS)",
        f"{RTN.LOCKS_MODULE}.{RTN.LOCKS_TABLE}": "per-object lock registry, guarded by the module lock next to it (R-LS)",
    }


_MUTATORS = {"add", "discard", "remove", "append", "extend", "insert", "pop", "popitem", "clear", "update", "setdefault", "__setitem__", "__delitem__", "sort"}


def _mutated_defaults(fn) -> List[tuple]:
    """(parameter, line, how) for every parameter whose default is a fresh mutable container that the body mutates."""
    a = fn.args
    pos = a.posonlyargs + a.args
    pairs = list(zip(pos[len(pos) - len(a.defaults):], a.defaults)) + [(x, d) for x, d in zip(a.kwonlyargs, a.kw_defaults) if d is not None]
    out = []
    for arg, d in pairs:
        mutable = isinstance(d, (ast.List, ast.Dict, ast.Set, ast.ListComp, ast.DictComp, ast.SetComp)) or (
            isinstance(d, ast.Call) and isinstance(d.func, (ast.Name, ast.Attribute)) and ast.unparse(d.func).split(".")[-1] in
            ("list", "dict", "set", "defaultdict", "OrderedDict", "deque", "Counter", "bytearray"))
        if not mutable:
            continue
        rebound = False
        for x in astu.walk_no_nested(fn):
            if isinstance(x, ast.Call) and isinstance(x.func, ast.Attribute) and x.func.attr in _MUTATORS and isinstance(x.func.value, ast.Name) and x.func.value.id == arg.arg:
                out.append((arg.arg, x.lineno, f"mutated in place ({arg.arg}.{x.func.attr}(…))"))
                break
            if isinstance(x, (ast.Assign, ast.AugAssign, ast.Delete)):
                tgts = x.targets if isinstance(x, (ast.Assign, ast.Delete)) else [x.target]
                hit = False
                for t in tgts:
                    if isinstance(t, ast.Subscript) and isinstance(t.value, ast.Name) and t.value.id == arg.arg:
                        out.append((arg.arg, x.lineno, f"mutated in place ({arg.arg}[…] = …)"))
                        hit = True
                    if isinstance(x, ast.AugAssign) and isinstance(t, ast.Name) and t.id == arg.arg:
                        out.append((arg.arg, x.lineno, f"mutated in place ({arg.arg} {type(x.op).__name__}= …)"))
                        hit = True
                if hit:
                    break
    return out


_ADDERS = {"add", "append", "appendleft", "insert", "update", "setdefault", "extend", "__setitem__"}
_REMOVERS = {"discard", "remove", "pop", "popleft", "popitem", "clear", "__delitem__"}


def _thread_local_is_scoped(m, name: str) -> str:
    """Every addition to the containers hanging off the thread-local is followed at once by a ``try … finally`` that takes it
    out again (a marker that lives exactly as long as the operation).  Returns a description, or '' when that is not so."""
    funcs = [f for f in ast.walk(m.tree) if isinstance(f, (ast.FunctionDef, ast.AsyncFunctionDef))]
    helpers = {f.name for f in funcs if any(isinstance(x, ast.Name) and x.id == name for x in ast.walk(f)) and any(isinstance(r, ast.Return) and r.value is not None for r in ast.walk(f))}
    sites = []
    for f in funcs:
        holders = set()
        for st in ast.walk(f):
            if isinstance(st, (ast.Assign, ast.AnnAssign)) and getattr(st, "value", None) is not None:
                v = st.value
                from_tl = any(isinstance(x, ast.Name) and x.id == name for x in ast.walk(v)) or (
                    isinstance(v, ast.Call) and isinstance(v.func, ast.Name) and v.func.id in helpers and f.name not in helpers)
                if from_tl:
                    for t in (st.targets if isinstance(st, ast.Assign) else [st.target]):
                        if isinstance(t, ast.Name):
                            holders.add(t.id)

        def on_holder(e):
            return (isinstance(e, ast.Name) and e.id in holders) or (isinstance(e, ast.Attribute) and isinstance(e.value, ast.Name) and e.value.id == name) or \
                (isinstance(e, ast.Call) and isinstance(e.func, ast.Name) and e.func.id in helpers)
        for parent in ast.walk(f):
            for fld in ("body", "orelse", "finalbody"):
                body = getattr(parent, fld, None)
                if not isinstance(body, list):
                    continue
                for i, st in enumerate(body):
                    call = st.value if isinstance(st, ast.Expr) and isinstance(st.value, ast.Call) else None
                    adds = None
                    if call is not None and isinstance(call.func, ast.Attribute) and call.func.attr in _ADDERS and on_holder(call.func.value):
                        adds = ast.unparse(call.func.value)
                    if isinstance(st, (ast.Assign, ast.AugAssign)):
                        for t in (st.targets if isinstance(st, ast.Assign) else [st.target]):
                            if isinstance(t, ast.Subscript) and on_holder(t.value):
                                adds = ast.unparse(t.value)
                    if adds is None:
                        continue
                    nxt = body[i + 1] if i + 1 < len(body) else None
                    if nxt is None and isinstance(parent, ast.If) and fld == "body" and len(body) == 1 and not parent.orelse:
                        # ``if token is not None: marks.add(token)`` — the statement after the ``if`` is what follows the addition
                        for gp in ast.walk(f):
                            for gfld in ("body", "orelse", "finalbody"):
                                gbody = getattr(gp, gfld, None)
                                if isinstance(gbody, list) and parent in gbody:
                                    j_ = gbody.index(parent)
                                    nxt = gbody[j_ + 1] if j_ + 1 < len(gbody) else None
                    undone = isinstance(nxt, ast.Try) and any(
                        (isinstance(x, ast.Call) and isinstance(x.func, ast.Attribute) and x.func.attr in _REMOVERS and ast.unparse(x.func.value) == adds)
                        or (isinstance(x, ast.Delete) and any(isinstance(t, ast.Subscript) and ast.unparse(t.value) == adds for t in x.targets))
                        for fb in nxt.finalbody for x in ast.walk(fb))
                    sites.append((f.name, st.lineno, undone))
    if sites and all(u for _, _, u in sites):
        return ", ".join(f"{fn_} line {ln_}" for fn_, ln_, _ in sites)
    return ""


def rule_GS(run: Run) -> RuleResult:
    """No hidden module-level mutable state: outcomes depend on options only."""
    res = RuleResult("R-GS")
    repo = run.repo
    nec = ("an operation that records something in module-level state makes later outcomes depend on what was evaluated "
           "(or failed) earlier: a failed keys() that leaves an entry behind changes the keys reported afterwards")
    n = 0
    SHARED_TABLES = _shared_tables(run)
    for m, cls, fn, q in iter_functions(repo):
        if m.name.startswith("labrea.mypy"):
            continue
        glob_decl = {n2 for x in ast.walk(fn) if isinstance(x, (ast.Global, ast.Nonlocal)) for n2 in x.names}
        local_names = {a.arg for a in fn.args.posonlyargs + fn.args.args + fn.args.kwonlyargs}
        if fn.args.vararg:
            local_names.add(fn.args.vararg.arg)
        if fn.args.kwarg:
            local_names.add(fn.args.kwarg.arg)
        for x in astu.walk_no_nested(fn):
            if isinstance(x, (ast.Assign, ast.AnnAssign, ast.AugAssign, ast.For, ast.comprehension, ast.With)):
                tg = []
                if isinstance(x, ast.Assign):
                    tg = x.targets
                elif isinstance(x, (ast.AnnAssign, ast.AugAssign)):
                    tg = [x.target]
                elif isinstance(x, (ast.For, ast.comprehension)):
                    tg = [x.target]
                for t in tg:
                    for y in ast.walk(t):
                        if isinstance(y, ast.Name) and isinstance(y.ctx, ast.Store) and y.id not in glob_decl:
                            local_names.add(y.id)
        def is_module_var(name: str) -> bool:
            if name in local_names and name not in glob_decl:
                return False
            r = m.names.get(name)
            return r is not None and r[0] == "var"
        for x in astu.walk_no_nested(fn):
            hit = None
            if isinstance(x, ast.Call) and isinstance(x.func, ast.Attribute) and x.func.attr in _MUTATORS and isinstance(x.func.value, ast.Name) and is_module_var(x.func.value.id):
                hit = (x.func.value.id, f"{x.func.value.id}.{x.func.attr}(…)")
            if isinstance(x, (ast.Assign, ast.AugAssign, ast.Delete)):
                tgts = x.targets if isinstance(x, (ast.Assign, ast.Delete)) else [x.target]
                for t in tgts:
                    if isinstance(t, ast.Subscript) and isinstance(t.value, ast.Name) and is_module_var(t.value.id):
                        hit = (t.value.id, f"{t.value.id}[…] = …")
                    if isinstance(t, ast.Name) and t.id in glob_decl:
                        hit = (t.id, f"global {t.id} = …")
            if hit:
                n += 1
                full = f"{m.name}.{hit[0]}"
                ok = full in SHARED_TABLES
                res.add(f"{q}:mutates module-level {hit[0]}", ok, m.relpath, x.lineno,
                        f"{hit[1]}" + (f" — registered shared table: {SHARED_TABLES[full]}" if ok else " — module-level mutable state that is not one of the guarded shared tables"), nec)
    # thread-local and context-local objects are module-level state too (one copy per thread): what one operation leaves there is
    # seen by the next operation on the same thread
    for m in repo.modules.values():
        if m.name.startswith("labrea.mypy"):
            continue
        for name, v in m.names.items():
            is_tl = v[0] == "var" and isinstance(v[1], ast.Call) and ast.unparse(v[1].func).split(".")[-1] in ("local", "ContextVar") \
                and ("threading" in ast.unparse(v[1].func) or "contextvars" in ast.unparse(v[1].func) or ast.unparse(v[1].func) in ("local", "ContextVar"))
            if not is_tl and v[0] == "var" and isinstance(v[1], ast.Call) and isinstance(v[1].func, (ast.Name, ast.Attribute)):
                # an instance of a class of the library derived from threading.local (``class _Active(threading.local)``; ``_ACTIVE = _Active()``)
                kc_ = repo.resolve_class(m, v[1].func)
                is_tl = kc_ is not None and any(b_.split(".")[-1] == "local" for k2_ in kc_.mro() for b_ in k2_.external_bases())
            if is_tl:
                n += 1
                scoped = _thread_local_is_scoped(m, name)
                if scoped:
                    res.add(f"{m.name}.{name}:thread-local module state", True, m.relpath, getattr(v[1], "lineno", 1),
                            f"{name}: every entry put there is taken out again in a `finally` right after ({scoped}): nothing survives the operation that wrote it", nec)
                    continue
                res.add(f"{m.name}.{name}:thread-local module state", False, m.relpath, getattr(v[1], "lineno", 1),
                        f"{name} = {ast.unparse(v[1])[:40]}: per-thread state that survives the operation that wrote it (an exception between writing and "
                        "clearing leaves it behind)", nec)
    # a mutable default argument is module-level state in disguise: it is created once, when the function is defined,
    # and every call that does not pass the argument works on the same object
    probe = ast.parse("def f(x, seen=[]):\n    seen.append(x)\n    return seen\n").body[0]
    if not _mutated_defaults(probe):
        raise AnalysisError("R-GS: the mutable-default detector no longer sees its positive example")
    for m, cls, fn, q in iter_functions(repo):
        if m.name.startswith("labrea.mypy"):
            continue
        for name, line, how in _mutated_defaults(fn):
            res.add(f"{q}:mutable default argument {name}", False, m.relpath, line,
                    f"the default of `{name}` is created once and {how}: what one call leaves in it is seen by every later call "
                    "(of every object), so an outcome depends on what was evaluated, or failed, before", nec)
    if n < 3:
        raise AnalysisError(f"R-GS found only {n} writes to module-level state (the three guarded tables expected)")
    dirty = {o.file for o in res.obligations if not o.ok}
    for m in repo.modules.values():
        if m.name.startswith("labrea.mypy"):
            continue
        res.add(f"{m.name}:no unregistered module-level mutable state", m.relpath not in dirty, m.relpath, 1,
                "no function of this module mutates module-level state outside the guarded shared tables", nec)
    return res


# ------------------------------------------------------------------ R-AI
AMBIENT = ("os.environ", "os.environb", "os.getenv", "os.getenvb", "os.putenv", "os.getcwd", "os.getpid", "os.getppid", "os.getlogin", "os.urandom",
           "os.uname", "os.cpu_count", "time.", "datetime.", "random.", "uuid.", "socket.", "getpass.", "platform.", "secrets.", "locale.",
           "sys.argv", "sys.stdin", "tempfile.", "pwd.", "multiprocessing.cpu_count", "os.times", "resource.")


def ambient_reads(tree: ast.AST) -> List[tuple]:
    """(line, qualified name) of every reference, anywhere in the module, to a source whose value belongs to the process
    rather than to the arguments: environment variables, clocks, random numbers, host and user identity, command line."""
    alias: Dict[str, str] = {}
    for n in ast.walk(tree):
        if isinstance(n, ast.Import):
            for a in n.names:
                alias[a.asname or a.name.split(".")[0]] = a.name if a.asname else a.name.split(".")[0]
        elif isinstance(n, ast.ImportFrom) and n.module and not n.level:
            for a in n.names:
                alias[a.asname or a.name] = f"{n.module}.{a.name}"
    out = []
    seen = set()
    for n in ast.walk(tree):
        q = None
        if isinstance(n, ast.Attribute):
            parts = [n.attr]
            cur = n.value
            while isinstance(cur, ast.Attribute):
                parts.append(cur.attr)
                cur = cur.value
            if isinstance(cur, ast.Name) and cur.id in alias:
                q = ".".join([alias[cur.id]] + parts[::-1])
        elif isinstance(n, ast.Name) and isinstance(n.ctx, ast.Load) and n.id in alias:
            q = alias[n.id]
        if q is None:
            continue
        for a in AMBIENT:
            if (q == a or q.startswith(a if a.endswith(".") else a + ".")) and (n.lineno, a) not in seen:
                seen.add((n.lineno, a))
                out.append((n.lineno, q))
    return out


CONCURRENCY = ("threading.Thread", "threading.Timer", "concurrent.futures.", "multiprocessing.", "asyncio.", "_thread.start_new_thread", "subprocess.", "os.fork")


def concurrency_uses(tree: ast.AST) -> List[tuple]:
    """(line, qualified name) of every reference to something that runs code on another thread, process or event loop."""
    alias: Dict[str, str] = {}
    for n in ast.walk(tree):
        if isinstance(n, ast.Import):
            for a in n.names:
                alias[a.asname or a.name.split(".")[0]] = a.name if a.asname else a.name.split(".")[0]
        elif isinstance(n, ast.ImportFrom) and n.module and not n.level:
            for a in n.names:
                alias[a.asname or a.name] = f"{n.module}.{a.name}"
    out = []
    for call in ast.walk(tree):
        if not isinstance(call, ast.Call):
            continue        # only uses that create something count: the names also serve as type annotations
        n = call.func
        q = None
        if isinstance(n, ast.Attribute):
            parts = [n.attr]
            cur = n.value
            while isinstance(cur, ast.Attribute):
                parts.append(cur.attr)
                cur = cur.value
            if isinstance(cur, ast.Name) and cur.id in alias:
                q = ".".join([alias[cur.id]] + parts[::-1])
        elif isinstance(n, ast.Name) and n.id in alias:
            q = alias[n.id]
        if q and any(q == c or q.startswith(c if c.endswith(".") else c + ".") or (c.endswith(".") and q + "." == c) for c in CONCURRENCY):
            out.append((call.lineno, q))
    return out


def rule_AI(run: Run) -> RuleResult:
    """No ambient inputs: what an operation returns, reports or stores is a function of its arguments."""
    res = RuleResult("R-AI")
    nec = ("an operation that reads the process environment, a clock, a random source or the host identity has an input that is "
           "in no options dictionary: keys() cannot report it, the fingerprint cannot separate on it, and two evaluations under the "
           "same options may differ (C01, C03, C16)")
    # the detector must see its own positive example on every run
    probe = ast.parse("import os\nfrom time import time as now\ndef f(o):\n    return {**o, '@env': dict(os.environ), 't': now()}\n")
    if len(ambient_reads(probe)) != 2:
        raise AnalysisError("R-AI: the ambient-input detector no longer sees its positive example")
    n = 0
    for m in run.repo.modules.values():
        if m.name.startswith("labrea.mypy"):
            continue
        n += 1
        hits = ambient_reads(m.tree)
        res.add(f"{m.name}:reads no ambient input", not hits, m.relpath, hits[0][0] if hits else 1,
                "no reference to environment variables, clocks, random sources, host or user identity" if not hits
                else "reads " + ", ".join(sorted({q for _, q in hits})) + f" (line {hits[0][0]})", nec)
    # evaluation happens on the caller's thread: the library starts no threads, processes or event loops of its own
    tprobe = ast.parse("from concurrent.futures import ThreadPoolExecutor\ndef f(xs):\n    with ThreadPoolExecutor() as pool:\n        return list(pool.map(str, xs))\n")
    if not concurrency_uses(tprobe):
        raise AnalysisError("R-AI: the concurrency detector no longer sees its positive example")
    for m in run.repo.modules.values():
        if m.name.startswith("labrea.mypy"):
            continue
        hits = concurrency_uses(m.tree)
        res.add(f"{m.name}:starts no threads or processes", not hits, m.relpath, hits[0][0] if hits else 1,
                "no thread, pool, process or event loop is created" if not hits else "uses " + ", ".join(sorted({q for _, q in hits})) + f" (line {hits[0][0]})",
                "parts of one evaluation that run concurrently race on every cache they share: both miss, both run the body and its effects "
                "(C02), in an order the caller cannot rely on (C06), under handler scopes that are per thread (C14)")
    res.count("modules", n)
    return res


# ------------------------------------------------------------------ R-HK
SWITCH_OPTIONS = {
    "LABREA.CACHE.DISABLED": "caching switch (side behaviour only, R-SH / R-VP)",
    "LABREA.CACHE.DISABLE": "legacy spelling of the caching switch",
    "LABREA.EFFECTS.DISABLED": "effects switch (side behaviour only)",
    "LABREA.LOGGING.DISABLED": "logging switch (side behaviour only)",
}


def constant_key_reads(repo, m) -> List[tuple]:
    """(line, key, how) of every look-up of a *literal* option key in the module: get_dotted_key / dotted_key_exists /
    Option(...) / options[...] / options.get(...) with a string constant (or a module-level string constant) as key."""
    consts = {n: v[1].value for n, v in m.names.items() if v[0] == "var" and isinstance(v[1], ast.Constant) and isinstance(v[1].value, str)}

    def key_of(e):
        if isinstance(e, ast.Constant) and isinstance(e.value, str):
            return e.value
        if isinstance(e, ast.Name) and e.id in consts:
            return consts[e.id]
        return None
    out = []
    for n in ast.walk(m.tree):
        if isinstance(n, ast.Call):
            nm = astu.short_name(n)
            if nm in ("get_dotted_key", "dotted_key_exists") and n.args and key_of(n.args[0]) is not None:
                out.append((n.lineno, key_of(n.args[0]), nm))
            elif nm == "Option" and n.args and key_of(n.args[0]) is not None:
                r = repo.resolve_expr(m, n.func) if isinstance(n.func, (ast.Name, ast.Attribute)) else None
                if r and r[0] == "class" and r[1].name == "Option":
                    out.append((n.lineno, key_of(n.args[0]), "Option(...)"))
            elif isinstance(n.func, ast.Attribute) and n.func.attr in ("get", "pop", "setdefault") and n.args and key_of(n.args[0]) is not None \
                    and "options" in ast.unparse(n.func.value).lower():
                out.append((n.lineno, key_of(n.args[0]), f"{ast.unparse(n.func)}(...)"))
        elif isinstance(n, ast.Subscript) and key_of(n.slice) is not None and "options" in ast.unparse(n.value).lower():
            out.append((n.lineno, key_of(n.slice), f"{ast.unparse(n.value)}[...]"))
    # a key of the library's own namespace handed to a look-up helper (``switched_on(request, "LABREA.CACHE.DISABLED", …)``) is a literal
    # look-up as well, wherever the helper does the reading
    seen = {(ln, k) for ln, k, _ in out}
    for n in ast.walk(m.tree):
        if isinstance(n, ast.Call):
            for a in list(n.args) + [k.value for k in n.keywords]:
                k_ = key_of(a)
                if k_ is not None and k_.startswith("LABREA.") and (a.lineno, k_) not in seen and (n.lineno, k_) not in seen:
                    seen.add((a.lineno, k_))
                    out.append((a.lineno, k_, f"{ast.unparse(n.func)[:40]}(…)"))
    return out


def rule_HK(run: Run) -> RuleResult:
    """The library itself reads no option by name except the documented side switches."""
    res = RuleResult("R-HK")
    repo = run.repo
    nec = ("an option that library code looks up by a literal name is read behind the back of keys(): it is not reported, not in the "
           "fingerprint, and not restricted away — harmless only for the documented switches, which change side behaviour and never a "
           "value (R-SH, R-VP); any other such option lets the outcome depend on a key outside keys(o) (C03, C16)")
    probe_m = type("M", (), {})()
    probe_m.tree = ast.parse("STRICT = 'LABREA.TYPE_VALIDATION.STRICT'\ndef f(request):\n    return get_dotted_key(STRICT, request.options)\n")
    probe_m.names = {"STRICT": ("var", probe_m.tree.body[0].value)}
    if [k for _, k, _ in constant_key_reads(repo, probe_m)] != ["LABREA.TYPE_VALIDATION.STRICT"]:
        raise AnalysisError("R-HK: the literal-key detector no longer sees its positive example")
    n = 0
    for m in repo.modules.values():
        if m.name.startswith("labrea.mypy"):
            continue
        reads = constant_key_reads(repo, m)
        n += len(reads)
        other = [(ln, k, how) for ln, k, how in reads if k not in SWITCH_OPTIONS]
        res.add(f"{m.name}:reads no option by a literal name except the documented switches", not other, m.relpath, other[0][0] if other else 1,
                (f"{len(reads)} literal look-ups, all documented switches" if reads else "no literal option look-up") if not other
                else f"{other[0][2]} looks up '{other[0][1]}' (line {other[0][0]})", nec)
    if n < 4:
        raise AnalysisError(f"R-HK: only {n} literal switch look-ups found (the cache, effects and logging switches expected)")
    res.count("literal_lookups", n)
    return res


# ------------------------------------------------------------------ R-OH
def _orders_attr(fn, attrs: Set[str], selfname: str = "self") -> List[tuple]:
    """(line, text) of every sorted()/min()/max()/.sort() over one of the attributes (through .keys()/.items()/list()/dict())
    that does not order by the string form."""
    out = []

    def mentions(e) -> Optional[str]:
        for x in ast.walk(e):
            if isinstance(x, ast.Attribute) and x.attr in attrs and isinstance(x.value, ast.Name) and x.value.id == selfname:
                return x.attr
        return None

    def by_text(call) -> bool:
        for k in call.keywords:
            if k.arg == "key":
                v = k.value
                if isinstance(v, ast.Name) and v.id in ("repr", "str"):
                    return True
                if isinstance(v, ast.Lambda) and isinstance(v.body, ast.Call) and isinstance(v.body.func, ast.Name) and v.body.func.id in ("repr", "str"):
                    return True
                # a tuple of texts — ``(type(k).__name__, repr(k))`` — orders any two keys as well
                if isinstance(v, ast.Lambda) and isinstance(v.body, ast.Tuple) and v.body.elts and all(
                        (isinstance(e_, ast.Call) and isinstance(e_.func, ast.Name) and e_.func.id in ("repr", "str"))
                        or (isinstance(e_, ast.Attribute) and e_.attr in ("__name__", "__qualname__") and isinstance(e_.value, ast.Call) and isinstance(e_.value.func, ast.Name) and e_.value.func.id == "type")
                        for e_ in v.body.elts):
                    return True
        return False
    for x in astu.walk_no_nested(fn):
        if isinstance(x, ast.Call):
            nm = astu.callee_name(x)
            if nm in ("sorted", "min", "max") and x.args and mentions(x.args[0]) and not by_text(x):
                out.append((x.lineno, f"{nm}(… self.{mentions(x.args[0])} …)"))
            if isinstance(x.func, ast.Attribute) and x.func.attr == "sort" and mentions(x.func.value) and not by_text(x):
                out.append((x.lineno, f"self.{mentions(x.func.value)}.sort()"))
    return out


_STR_MAKERS = {"str", "repr", "ascii", "format"}
_STR_ATTRS = {"__qualname__", "__name__", "__module__"}


def _annotation_of(name_expr: ast.expr, fn: ast.FunctionDef, cls_node) -> Optional[ast.expr]:
    """Annotation of a parameter of fn, or of ``self.<attr>`` from the class body."""
    if isinstance(name_expr, ast.Name):
        for a in fn.args.posonlyargs + fn.args.args + fn.args.kwonlyargs + ([fn.args.vararg] if fn.args.vararg else []):
            if a.arg == name_expr.id:
                return a.annotation
    if isinstance(name_expr, ast.Attribute) and isinstance(name_expr.value, ast.Name) and name_expr.value.id in ("self", "cls") and cls_node is not None:
        for st in cls_node.body:
            if isinstance(st, ast.AnnAssign) and isinstance(st.target, ast.Name) and st.target.id == name_expr.attr:
                return st.annotation
    return None


def _elem_type_is_str(ann: Optional[ast.expr], which: int = 0) -> Optional[bool]:
    """Is type argument ``which`` of a Mapping/Dict/Iterable/… annotation ``str``?  None when it cannot be read."""
    if ann is None:
        return None
    if isinstance(ann, ast.Constant) and isinstance(ann.value, str):
        try:
            ann = ast.parse(ann.value, mode="eval").body
        except SyntaxError:
            return None
    if isinstance(ann, ast.Subscript):
        sl = ann.slice
        args = list(sl.elts) if isinstance(sl, ast.Tuple) else [sl]
        if len(args) > which:
            t = args[which]
            txt = ast.unparse(t)
            if txt == "str":
                return True
            if txt.split(".")[-1] in ("Hashable", "Any", "object") or "Evaluatable" in txt or "Union" in txt or "Optional" in txt:
                return False
    return None


def joined_strings(arg: ast.expr, fn: ast.FunctionDef, cls_node, amap) -> Optional[bool]:
    """Are the elements handed to ``sep.join(·)`` strings?  True / False when it can be told from the expression and
    the annotations, None otherwise (not judged)."""
    x = arg
    if isinstance(x, ast.Name) and x.id in amap:
        return joined_strings(amap[x.id], fn, cls_node, amap)
    if isinstance(x, ast.Call):
        f = x.func
        short = f.attr if isinstance(f, ast.Attribute) else (f.id if isinstance(f, ast.Name) else "")
        if short == "map" and x.args and isinstance(x.args[0], ast.Name) and x.args[0].id in _STR_MAKERS:
            return True
        if short in ("splitlines", "split", "rsplit"):
            return True
        if short in ("sorted", "reversed", "list", "tuple", "set") and len(x.args) == 1:
            return joined_strings(x.args[0], fn, cls_node, amap)
        if short == "keys" and isinstance(f, ast.Attribute) and not x.args:
            return _elem_type_is_str(_annotation_of(f.value, fn, cls_node), 0)
        if short == "values" and isinstance(f, ast.Attribute) and not x.args:
            return _elem_type_is_str(_annotation_of(f.value, fn, cls_node), 1)
        return None
    if isinstance(x, (ast.GeneratorExp, ast.ListComp, ast.SetComp)):
        e = x.elt
        if isinstance(e, ast.JoinedStr) or (isinstance(e, ast.Constant) and isinstance(e.value, str)):
            return True
        if isinstance(e, ast.Call):
            f = e.func
            short = f.attr if isinstance(f, ast.Attribute) else (f.id if isinstance(f, ast.Name) else "")
            if short in _STR_MAKERS or short == "join":
                return True
        if isinstance(e, ast.Attribute) and e.attr in _STR_ATTRS:
            return True
        if isinstance(e, ast.Name) and len(x.generators) == 1 and isinstance(x.generators[0].target, ast.Name) and x.generators[0].target.id == e.id:
            return joined_strings(x.generators[0].iter, fn, cls_node, amap)
        return None
    if isinstance(x, (ast.Name, ast.Attribute)):
        ann = _annotation_of(x, fn, cls_node)
        return _elem_type_is_str(ann, 0)
    return None


def rule_JS(run: Run) -> RuleResult:
    """What is joined into a message has been turned into text first."""
    res = RuleResult("R-JS")
    nec = ("str.join raises TypeError on the first element that is not a str. Dispatch values, aliases and lookup keys are arbitrary hashables "
           "(bool, int, tuple, MISSING …): an error message that joins them unconverted cannot be built, and the failure surfaces as a TypeError "
           "from the constructor of the error instead of the SwitchError / EvaluationError whose cause chain leads to the dispatch (C12)")
    probe = ast.parse("def f(lookup: Mapping[Hashable, Any]):\n    return ', '.join(lookup.keys())\n").body[0]
    pj = [c for c in ast.walk(probe) if isinstance(c, ast.Call) and isinstance(c.func, ast.Attribute) and c.func.attr == "join"]
    if joined_strings(pj[0].args[0], probe, None, {}) is not False:
        raise AnalysisError("R-JS: the detector no longer sees its positive example")
    n = judged = 0
    from .model import iter_functions
    for m, cls, fn, q in iter_functions(run.repo):
        if m.name.startswith("labrea.mypy"):
            continue
        amap = astu.single_assign_map(fn)
        for c in astu.walk_no_nested(fn):
            if isinstance(c, ast.Call) and isinstance(c.func, ast.Attribute) and c.func.attr == "join" and len(c.args) == 1 and not c.keywords \
                    and (isinstance(c.func.value, ast.Constant) and isinstance(c.func.value.value, str)):
                n += 1
                v = joined_strings(c.args[0], fn, cls, amap)
                if v is None:
                    continue
                judged += 1
                res.add(f"{q}:joins text", v, m.relpath, c.lineno,
                        f"{ast.unparse(c)[:90]}" + ("" if v else ": the joined elements are declared as arbitrary hashables / objects, not str — convert with map(str, …)"), nec)
    res.count("join_sites", n)
    res.count("judged", judged)
    if n < 15 or judged < 10:
        raise AnalysisError(f"R-JS: only {n} join sites found, {judged} judged")
    return res


def misnamed_type_variables(tree: ast.AST) -> List[tuple]:
    """(line, bound name, declared name) of every ``X = TypeVar("Y")`` / ParamSpec / TypeVarTuple / NewType with X != Y."""
    out = []
    for st in ast.walk(tree):
        if isinstance(st, ast.Assign) and len(st.targets) == 1 and isinstance(st.targets[0], ast.Name) and isinstance(st.value, ast.Call):
            fn_ = st.value.func
            short = fn_.attr if isinstance(fn_, ast.Attribute) else (fn_.id if isinstance(fn_, ast.Name) else "")
            if short in ("TypeVar", "ParamSpec", "TypeVarTuple", "NewType") and st.value.args and isinstance(st.value.args[0], ast.Constant) \
                    and isinstance(st.value.args[0].value, str) and st.value.args[0].value != st.targets[0].id:
                out.append((st.lineno, st.targets[0].id, st.value.args[0].value))
    return out


def rule_TV(run: Run) -> RuleResult:
    """Type variables carry the name they are bound to."""
    res = RuleResult("R-TV")
    nec = ("a type variable is pickled by reference: module + its __name__. Objects built through a subscripted constructor (Iter[Union[K, V]](…)) "
           "carry that alias as __orig_class__ in their instance state, so a TypeVar whose declared name is not the name it is bound to — or is the name "
           "of another variable of the module — makes every such object unpicklable (C20)")
    probe = ast.parse('K = TypeVar("K")\nV = TypeVar("K")\n')
    if len(misnamed_type_variables(probe)) != 1:
        raise AnalysisError("R-TV: the detector no longer sees its positive example")
    n = 0
    for m in run.repo.modules.values():
        if m.name.startswith("labrea.mypy"):
            continue
        n_here = sum(1 for st in ast.walk(m.tree) if isinstance(st, ast.Assign) and isinstance(st.value, ast.Call)
                     and ast.unparse(st.value.func).split(".")[-1] in ("TypeVar", "ParamSpec", "TypeVarTuple", "NewType"))
        if not n_here:
            continue
        n += n_here
        hits = misnamed_type_variables(m.tree)
        res.add(f"{m.name}:type variables are declared under the name they are bound to", not hits, m.relpath, hits[0][0] if hits else 1,
                f"{n_here} type variables" if not hits else f"{hits[0][1]} = TypeVar({hits[0][2]!r}) (line {hits[0][0]})", nec)
    res.count("type_variables", n)
    if n < 20:
        raise AnalysisError(f"R-TV: only {n} type variables found")
    return res


def _always_handed_named_function(m, fn, param: str) -> bool:
    import builtins as _b
    ps = [a_.arg for a_ in fn.args.posonlyargs + fn.args.args]
    if param not in ps:
        return False
    idx = ps.index(param)
    defs = {d.name for d in m.tree.body if isinstance(d, (ast.FunctionDef, ast.ClassDef))}
    stored = {z.id for z in ast.walk(m.tree) if isinstance(z, ast.Name) and isinstance(z.ctx, ast.Store)}
    n_ = 0
    for c in ast.walk(m.tree):
        if isinstance(c, ast.Name) and c.id == fn.name and isinstance(c.ctx, ast.Load):
            n_ += 1
    calls = [c for c in ast.walk(m.tree) if isinstance(c, ast.Call) and isinstance(c.func, ast.Name) and c.func.id == fn.name]
    if not calls or len(calls) != n_:
        return False            # also mentioned other than by a direct call
    for c in calls:
        if any(isinstance(a_, ast.Starred) for a_ in c.args):
            return False
        a = c.args[idx] if idx < len(c.args) else next((k.value for k in c.keywords if k.arg == param), None)
        if a is None:
            return False
        if isinstance(a, ast.Attribute) and isinstance(a.value, ast.Name) and a.value.id == "builtins" and a.value.id not in stored \
                and callable(getattr(_b, a.attr, None)) and hasattr(getattr(_b, a.attr), "__name__"):
            continue
        if isinstance(a, ast.Name) and a.id not in stored and (a.id in defs or (callable(getattr(_b, a.id, None)) and hasattr(getattr(_b, a.id), "__name__"))):
            continue
        return False
    return True


def _decorates_defs_only(repo, m, hfn) -> bool:
    """``hfn`` is a module-level decorator, or the function a module-level decorator factory returns, and every mention of that
    decorator (factory) in the repository is in the decorator list of a ``def``."""
    outer = None
    for f_ in m.tree.body:
        if isinstance(f_, ast.FunctionDef) and (f_ is hfn or (any(d_ is hfn for d_ in f_.body) and any(
                isinstance(r_, ast.Return) and isinstance(r_.value, ast.Name) and r_.value.id == hfn.name for r_ in f_.body))):
            outer = f_
    if outer is None:
        return False
    n_uses = 0
    for mm in repo.modules.values():
        deco_nodes = set()
        for d in ast.walk(mm.tree):
            if isinstance(d, (ast.FunctionDef, ast.AsyncFunctionDef)):
                for dx in d.decorator_list:
                    head = dx.func if isinstance(dx, ast.Call) else dx
                    for z in ast.walk(head):
                        deco_nodes.add(id(z))
        for z in ast.walk(mm.tree):
            if ((isinstance(z, ast.Name) and z.id == outer.name) or (isinstance(z, ast.Attribute) and z.attr == outer.name)) and isinstance(getattr(z, "ctx", None), ast.Load):
                if id(z) not in deco_nodes:
                    return False
                n_uses += 1
    return n_uses > 0


def rule_OH(run: Run) -> RuleResult:
    """Values a user supplies as dispatch aliases are only hashable: nothing may put them in order."""
    res = RuleResult("R-OH")
    repo = run.repo
    nec = ("overload and switch aliases are arbitrary hashables (1, 'max', None, True …): ordering them raises TypeError for mixed types. In a "
           "__repr__ that error replaces whatever message was being built — the CacheGetFailure a backend raises to report a miss, or the "
           "EvaluationError that carries a failure's cause (C17, C12)")
    probe = ast.parse("def f(self):\n    return dict(sorted(self.lookup.items(), key=lambda kv: kv[0]))\n").body[0]
    if not _orders_attr(probe, {"lookup"}):
        raise AnalysisError("R-OH: the ordering detector no longer sees its positive example")
    n = 0
    for ci in repo.classes.values():
        if ci.module.name.startswith("labrea.mypy"):
            continue
        attrs = set()
        for c in ci.mro():
            for a, ann in c.annotations.items():
                if "Hashable" in ast.unparse(ann):
                    attrs.add(a)
        if not attrs:
            continue
        n += 1
        for mn, fn in ci.methods.items():
            sn = astu.first_param(fn) or "self"
            hits = _orders_attr(fn, attrs, sn)
            res.add(f"{ci.qualname}.{mn}:does not order the hashable aliases {sorted(attrs)}", not hits, ci.module.relpath, hits[0][0] if hits else fn.lineno,
                    hits[0][1] + " compares user-supplied aliases with each other" if hits else "no sorted()/min()/max()/sort() over them", nec)
    # likewise a value looked up in the options is arbitrary JSON (a list of mappings, mixed scalars): it has no order
    for m, cls, fn, q in iter_functions(repo):
        if m.name.startswith("labrea.mypy"):
            continue
        looked = set()
        for x in astu.walk_no_nested(fn):
            if isinstance(x, (ast.Assign, ast.AnnAssign)) and isinstance(x.value, ast.Call) and astu.short_name(x.value) in ("get_dotted_key", "resolve"):
                for t in (x.targets if isinstance(x, ast.Assign) else [x.target]):
                    if isinstance(t, ast.Name):
                        looked.add(t.id)
        if not looked:
            continue
        for x in astu.walk_no_nested(fn):
            if isinstance(x, ast.Call) and astu.callee_name(x) in ("sorted", "min", "max") and x.args and isinstance(x.args[0], ast.Name) and x.args[0].id in looked \
                    and not any(k.arg == "key" and isinstance(k.value, ast.Name) and k.value.id in ("str", "repr") for k in x.keywords):
                res.add(f"{q}:orders a value looked up in the options", False, m.relpath, x.lineno,
                        f"{ast.unparse(x)[:50]}: `{x.args[0].id}` comes from the options dictionary and may hold anything JSON allows", nec)
    # a __repr__ and a message builder never fail: reprs are embedded in every error message of the library (CacheGetFailure,
    # EvaluationError) and messages are built on the error path.  __name__ / __qualname__ exist on classes and plain functions
    # only — partial objects, callable instances, operator helpers and typing constructs (int | None, Optional[int], List[int])
    # have none — so they are read from a class (cls, type(x), x.__class__, a decorated class handed in as a parameter
    # annotated Type[...]), or behind hasattr / getattr-with-default / except AttributeError
    n_names = 0
    for m, cls_node, hfn, q in iter_functions(repo):
        if m.name.startswith("labrea.mypy"):
            continue
        ci = repo.classes.get(f"{m.name}.{cls_node.name}") if cls_node is not None else None
        guarded = {ast.unparse(x.args[0]) for x in ast.walk(hfn) if isinstance(x, ast.Call) and astu.callee_name(x) == "hasattr" and len(x.args) == 2}
        sn = (astu.first_param(hfn) or "self") if cls_node is not None else None
        class_params = set()
        for a_ in hfn.args.posonlyargs + hfn.args.args + hfn.args.kwonlyargs:
            txt = ast.unparse(a_.annotation) if a_.annotation is not None else ""
            if txt.split("[")[0].split(".")[-1] in ("Type", "type") or txt in ("Interface", "'Interface'", "Implementation"):
                class_params.add(a_.arg)
        if hfn.name in ("__get__", "__set_name__", "__init_subclass__", "__class_getitem__"):
            # the descriptor / class-creation protocols hand in the owning class
            pn_ = [a_.arg for a_ in hfn.args.posonlyargs + hfn.args.args]
            class_params |= set(pn_[2:3] if hfn.name == "__get__" else pn_[1:2] if hfn.name == "__set_name__" else pn_[:1])
        for x in astu.walk_no_nested(hfn):
            if not (isinstance(x, ast.Attribute) and x.attr in ("__name__", "__qualname__") and isinstance(x.ctx, ast.Load)):
                continue
            n_names += 1
            base = ast.unparse(x.value)
            if base in (sn, "cls", "mcs") or base.endswith(".__class__") or base.startswith("type(") or base in guarded or base in class_params:
                continue
            # an element of a collection of classes (instances of a metaclass of the library) always has a name
            is_class_elem = False
            if ci is not None:
                for y in ast.walk(hfn):
                    if isinstance(y, (ast.comprehension, ast.For)) and isinstance(y.target, ast.Name) and y.target.id == base \
                            and isinstance(y.iter, ast.Attribute) and isinstance(y.iter.value, ast.Name) and y.iter.value.id == sn:
                        for kc in ci.mro():
                            ann = kc.annotations.get(y.iter.attr)
                            if ann is not None:
                                for z in ast.walk(ann):
                                    if isinstance(z, (ast.Name, ast.Constant)):
                                        nm_ = z.id if isinstance(z, ast.Name) else (z.value if isinstance(z.value, str) else "")
                                        c2 = repo.resolve_name(kc.module, nm_.strip("'\"")) if nm_ else None
                                        if c2 and c2[0] == "class" and "type" in [b for k2 in c2[1].mro() for b in k2.external_bases()]:
                                            is_class_elem = True
            # a function defined in this very function (its name is set right there)
            local_defs = {d.name for d in ast.walk(hfn) if isinstance(d, ast.FunctionDef) and d is not hfn}
            if is_class_elem or base in local_defs:
                continue
            # a key of a mapping keyed by classes (``for request, handler in self.handlers.items()`` with handlers: Mapping[Type[Request], …])
            key_of_class_map = False
            if ci is not None:
                for y in ast.walk(hfn):
                    if isinstance(y, (ast.comprehension, ast.For)) and isinstance(y.iter, ast.Call) and isinstance(y.iter.func, ast.Attribute) and y.iter.func.attr in ("items", "keys") \
                            and isinstance(y.iter.func.value, ast.Attribute) and isinstance(y.iter.func.value.value, ast.Name) and y.iter.func.value.value.id == sn:
                        tgt0 = y.target.elts[0] if isinstance(y.target, ast.Tuple) and y.target.elts else y.target
                        if isinstance(tgt0, ast.Name) and tgt0.id == base:
                            for kc in ci.mro():
                                ann = kc.annotations.get(y.iter.func.value.attr)
                                if ann is not None and isinstance(ann, ast.Subscript):
                                    sl = ann.slice.elts[0] if isinstance(ann.slice, ast.Tuple) and ann.slice.elts else ann.slice
                                    if ast.unparse(sl).split("[")[0].split(".")[-1] in ("Type", "type"):
                                        key_of_class_map = True
            # a value that the enclosing test found to be a class: ``if isinstance(x, type): … x.__name__``
            pm2_ = astu.parent_map(hfn)
            cur2_, is_class_here = x, False
            while id(cur2_) in pm2_:
                up2_ = pm2_[id(cur2_)]
                if isinstance(up2_, (ast.If, ast.IfExp)):
                    in_body = (cur2_ is up2_.body) if isinstance(up2_, ast.IfExp) else any(cur2_ is b_ for b_ in up2_.body)
                    t_ = up2_.test
                    if in_body and isinstance(t_, ast.Call) and isinstance(t_.func, ast.Name) and t_.func.id == "isinstance" and len(t_.args) == 2 \
                            and ast.unparse(t_.args[0]) == base and ast.unparse(t_.args[1]) in ("type", "(type,)"):
                        is_class_here = True
                cur2_ = up2_
            if key_of_class_map or is_class_here:
                continue
            # a local bound once, to the class of something: ``request_type = type(request)``
            binds = [y for y in ast.walk(hfn) if isinstance(y, (ast.Assign, ast.AnnAssign, ast.AugAssign, ast.NamedExpr, ast.For, ast.comprehension, ast.withitem))
                     for t_ in ([y.target] if hasattr(y, "target") else (y.targets if hasattr(y, "targets") else [y.optional_vars] if getattr(y, "optional_vars", None) is not None else []))
                     for z in ast.walk(t_) if isinstance(z, ast.Name) and z.id == base]
            if len(binds) == 1 and isinstance(binds[0], (ast.Assign, ast.AnnAssign)) and binds[0].value is not None and isinstance(x.value, ast.Name) \
                    and base not in {a_.arg for a_ in hfn.args.posonlyargs + hfn.args.args + hfn.args.kwonlyargs}:
                v_ = ast.unparse(binds[0].value)
                if (v_.startswith("type(") and v_.endswith(")") and isinstance(binds[0].value, ast.Call) and len(binds[0].value.args) == 1) or v_.endswith(".__class__"):
                    continue
            # a parameter of a private module-level helper that every call in the module hands a named function (a builtin, a function or
            # class defined in the module): those carry their names
            if cls_node is None and hfn.name.startswith("_") and isinstance(x.value, ast.Name) and _always_handed_named_function(m, hfn, base):
                continue
            # the function a decorator (factory) of the library's own is applied to: when every use of the enclosing function in the
            # repository is as the decorator of a ``def``, the parameter of the function it hands back is a def'd function
            if isinstance(x.value, ast.Name) and x.value.id in {a_.arg for a_ in hfn.args.posonlyargs + hfn.args.args} and _decorates_defs_only(repo, m, hfn):
                continue
            # inside try/except AttributeError
            pm_ = astu.parent_map(hfn)
            cur_, in_try = x, False
            while id(cur_) in pm_:
                up_ = pm_[id(cur_)]
                if isinstance(up_, ast.Try) and any(cur_ is b_ for b_ in up_.body) and any(
                        h_.type is None or "AttributeError" in ast.unparse(h_.type) or ast.unparse(h_.type) in ("Exception", "BaseException") for h_ in up_.handlers):
                    in_try = True
                cur_ = up_
            if in_try:
                continue
            res.add(f"{q}:reads {base}.{x.attr} unguarded while building the repr", False, m.relpath, x.lineno,
                    f"{base}.{x.attr}: partial objects, callable instances, operator helpers and typing constructs have no {x.attr}; the AttributeError replaces the "
                    "message being built", nec)
    if n_names < 8:
        raise AnalysisError(f"R-OH: only {n_names} reads of __name__/__qualname__ found")
    if n < 2:
        raise AnalysisError(f"R-OH: only {n} classes keep hashable aliases (Switch and Overloaded expected)")
    res.count("classes", n)
    return res


# ------------------------------------------------------------------ R-IS
_OBJ_MUTATORS = {"append", "appendleft", "extend", "add", "update", "setdefault", "pop", "popitem", "clear", "remove", "discard", "insert", "__setitem__", "__delitem__"}


def _options_dependent(t, depth: int = 0) -> bool:
    """The term is (or closes over) something computed from the options of this call."""
    from .terms import Bound, Fn, Seq
    from .interp import Coll
    if t is None or depth > 8:
        return False
    if isinstance(t, Val):
        return True
    if isinstance(t, Sym):
        if t.head in ("options",) and not t.args:
            return True
        return any(_options_dependent(a, depth + 1) for a in t.args)
    if isinstance(t, Fn):
        env = list((t.frame or {}).values()) + list(t.bound.values()) + list(t.pos)
        names = {n_.id for n_ in ast.walk(t.node) if isinstance(n_, ast.Name)}
        for k_, v_ in (t.frame or {}).items():
            if k_ in names and v_ is not t and _options_dependent(v_, depth + 1):
                return True
        return any(_options_dependent(v_, depth + 1) for v_ in list(t.bound.values()) + list(t.pos))
    if isinstance(t, New):
        return any(_options_dependent(v_, depth + 1) for v_ in t.attrs.values())
    if isinstance(t, Coll):
        return _options_dependent(t.elem, depth + 1) or _options_dependent(t.keyterm, depth + 1)
    if isinstance(t, Seq):
        return any(_options_dependent(v_, depth + 1) for v_ in t.items)
    if isinstance(t, Bound):
        return _options_dependent(t.target, depth + 1)
    return False


def rule_IS(run: Run) -> RuleResult:
    """No operation records an options-dependent result on the expression object (or a child)."""
    res = RuleResult("R-IS")
    nec = ("expression objects are shared (datasets are module-level objects used with many option dictionaries, from many "
           "threads): a result computed from one call's options and kept on the object is served to later calls with other options")
    n_paths = 0
    seen = set()
    for cls in run.node_classes():
        dirty = []
        for op in ("evaluate", "validate", "keys", "explain"):
            for p in run.paths(cls, op):
                n_paths += 1
                ctor_stack: List[str] = []
                for e in p.events:
                    obj = None
                    val = None
                    what = ""
                    if e.kind == "enter":
                        ctor_stack = ctor_stack[:e.depth] + [e.text]
                        continue
                    if e.kind == "store" and len(e.args) == 2 and isinstance(e.args[0], Child):
                        obj, val, what = e.args[0], e.target, f"{e.text} = …"
                    elif e.kind == "call" and e.text in _OBJ_MUTATORS and isinstance(e.target, Child) and getattr(e.target, "kind", "other") == "other" \
                            and not e.target.path.startswith(("*", "<")) and "(" not in e.target.path:
                        obj, val, what = e.target, (e.args[-1] if e.args else None), f"self.{e.target.path}.{e.text}(…)"
                    if obj is None or not _options_dependent(val):
                        continue
                    if e.kind == "store" and (e.op or "").split(".")[-1] in ("__init__", "__new__", "__setstate__", "__post_init__"):
                        continue        # the constructor of an object created by this call fills in that object
                    if e.kind == "store" and obj.path.startswith("<instance>") and any(n_ in ("__init__", "__new__", "__setstate__", "__post_init__") for n_ in ctor_stack[:e.depth]):
                        continue        # … also through a helper the constructor hands the new object to
                    k = (cls.qualname, op, e.file, e.line)
                    if k in seen:
                        continue
                    seen.add(k)
                    dirty.append((op, e, what, val))
        owner, fn = cls.find_method("evaluate")
        if not dirty:
            res.add(f"{cls.qualname}:operations keep no options-dependent state on the object", True, owner.module.relpath, fn.lineno,
                    "no store into self (or a child) of a value computed from the call's options", nec)
        for op, e, what, val in dirty:
            res.add(f"{cls.qualname}.{op}:keeps an options-dependent result on the object ({what[:50]})", False, e.file, e.line,
                    f"{what} in {e.op or op} stores {val.key()[:80] if val is not None else '?'}, which was computed from this call's options", nec)
    res.count("paths", n_paths)
    return res


# ------------------------------------------------------------------ R-SK
def rule_SK(run: Run) -> RuleResult:
    """Switch options are never part of a key set."""
    res = RuleResult("R-SK")
    repo = run.repo
    nec = ("feature switches must not split cache entries: a switch option reported by keys() changes the fingerprint, so the same "
           "evaluation with the switch present recomputes, logs and stores again (C16, C02)")
    for cls in run.node_classes():
        for op in ("keys",):
            owner, fn = cls.find_method(op)
            bad = []
            for p in run.paths(cls, op):
                for e in p.events:
                    tgt = e.target
                    if e.kind in ("op", "call") and (e.op in ("keys", "explain") or e.text in ("keys", "explain", "fingerprint")) and isinstance(tgt, Sym) and tgt.head == "global":
                        bad.append((e.line, tgt.text))
                    if e.kind in ("op", "unfold") and e.op in ("keys",) and isinstance(tgt, New) and tgt.cls.name == "Option":
                        k = tgt.attrs.get("key")
                        if isinstance(k, Const) and isinstance(k.v, str) and k.v.startswith("LABREA."):
                            bad.append((e.line, k.v))
            res.add(f"{cls.qualname}.{op}:no feature-switch option in the key set", not bad, owner.module.relpath, fn.lineno,
                    "no switch keyed" if not bad else f"line {bad[0][0]}: keys of switch {bad[0][1]} are reported", nec)
    return res
