"""Feature switches, requests, dataset classes, pickling (DESIGN 3.10)."""
from __future__ import annotations

import ast
from typing import Dict, List, Optional, Set

from . import astu
from .facts import Run, normal
from .interp import Ctx, analyse_function, analyse_method
from .model import AnalysisError, iter_functions
from .report import RuleResult
from .terms import Child, Const, New, Sym, Val


def _paths_fn(run: Run, qual: str, no_inline=()):
    fi = run.repo.func(qual)
    ctx = Ctx(run.repo)
    ctx.no_inline = set(no_inline)
    return fi, analyse_function(ctx, fi.module, fi.node)


# ------------------------------------------------------------------ R-VP
def rule_VP(run: Run) -> RuleResult:
    res = RuleResult("R-VP")
    repo = run.repo
    nec = ("switches, effects and logging change side behaviour only: nothing they produce may flow into a "
           "returned value (C16)")
    INNER = "Val(evaluate,Child(evaluatable))"
    for cn in ("Computation", "Logged"):
        c = repo.cls(cn)
        ps = normal(run.paths(c, "evaluate"))
        ok = bool(ps) and all(p.ret.key() == INNER for p in ps)
        res.add(f"{c.qualname}.evaluate:returns exactly the inner value on every path", ok, c.module.relpath, c.methods["evaluate"].lineno,
                f"{len(ps)} paths" if ok else f"returns {[p.ret.key()[:60] for p in ps if p.ret.key() != INNER][:2]}", nec)
    allowed = {
        "labrea.cache._set_cache_handler": {"call:get(attr:cache(request),attr:evaluatable(request),attr:options(request))", "attr:value(request)", "call:_disabled_set_cache_handler(request)"},
        "labrea.cache._get_cache_handler": {"call:get(attr:cache(request),attr:evaluatable(request),attr:options(request))", "call:_disabled_get_cache_handler(request)"},
        "labrea.cache._exists_cache_handler": {"call:exists(attr:cache(request),attr:evaluatable(request),attr:options(request))", "call:_disabled_exists_cache_handler(request)"},
        "labrea.cache._disabled_set_cache_handler": {"attr:value(request)"},
        "labrea.cache._disabled_exists_cache_handler": {"Const(False)"},
        "labrea.logging._builtin_logging_handler": {"Const(None)", "call:_disabled_logging_handler(request)"},
        "labrea.logging._disabled_logging_handler": {"Const(None)"},
    }
    for q, okset in allowed.items():
        fi, ps = _paths_fn(run, q, no_inline=("_cache_disabled", "_disabled_set_cache_handler", "_disabled_get_cache_handler",
                                              "_disabled_exists_cache_handler", "_disabled_logging_handler"))
        rets = sorted({p.ret.key() for p in ps if p.status == "ret"})
        bad = [r for r in rets if r not in okset]
        res.add(f"{q}:returned values", not bad and bool(rets), fi.module.relpath, fi.node.lineno,
                f"returns {rets}" + (f"; unexpected {bad}" if bad else ""), nec)
    fi, ps = _paths_fn(run, "labrea.cache._disabled_get_cache_handler")
    ok = bool(ps) and all(p.status == "raise" and p.exc and p.exc[0] == "CacheGetFailure" for p in ps)
    res.add("labrea.cache._disabled_get_cache_handler:always reports a miss", ok, fi.module.relpath, fi.node.lineno, f"{[(p.status, p.exc) for p in ps][:2]}", nec)
    nc = repo.cls("NoCache")
    g = nc.methods.get("get")
    s = nc.methods.get("set")
    ok = g is not None and all(isinstance(x, ast.Raise) for x in g.body if not (isinstance(x, ast.Expr) and isinstance(x.value, ast.Constant))) \
        and s is not None and all(isinstance(x, ast.Pass) or (isinstance(x, ast.Expr) and isinstance(x.value, ast.Constant)) for x in s.body)
    res.add("labrea.cache.NoCache:get always misses, set stores nothing", ok, nc.module.relpath, nc.node.lineno, "", nec)
    return res


# ------------------------------------------------------------------ R-SH
def _first_stmts(fn):
    return [s for s in fn.body if not (isinstance(s, ast.Expr) and isinstance(s.value, ast.Constant))]


def rule_SH(run: Run) -> RuleResult:
    res = RuleResult("R-SH")
    repo = run.repo
    nec = ("every documented switch spelling must be honoured by all sibling handlers: a handler that ignores "
           "the switch reads or writes stored entries although caching is disabled (C16)")
    cm = repo.modules["labrea.cache"]
    for kind, req in (("set", "CacheSetRequest"), ("get", "CacheGetRequest"), ("exists", "CacheExistsRequest")):
        fi, ps = _paths_fn(run, f"labrea.cache._{kind}_cache_handler",
                           no_inline=("_cache_disabled", "_disabled_set_cache_handler", "_disabled_get_cache_handler", "_disabled_exists_cache_handler"))
        ok = bool(ps)
        why = ""
        saw_on = saw_off = False
        for p in ps:
            sw = [c for c in p.conds if "call:_cache_disabled(request)" in c[2]]
            backend = [e for e in p.events if e.kind == "call" and e.text in ("get", "set", "exists") and e.target is not None and "cache" in e.target.key()]
            if not sw:
                ok = False
                why = "a path does not consult the caching switch"
                continue
            first_backend = min([p.events.index(e) for e in backend], default=None)
            sw_idx = min(i for i, e in enumerate(p.events) if e.kind == "call" and e.text == "_cache_disabled")
            if first_backend is not None and first_backend < sw_idx:
                ok = False
                why = "the backend is touched before the switch is consulted"
            on = sw[0][1] != sw[0][2].startswith("unop:Not(")
            if on:
                saw_on = True
                if backend or not (p.status == "ret" and p.ret.key() == f"call:_disabled_{kind}_cache_handler(request)"):
                    ok = False
                    why = f"with caching disabled the handler does not simply delegate to _disabled_{kind}_cache_handler"
            else:
                saw_off = True
                if not backend:
                    ok = False
                    why = "with caching enabled the backend is not consulted"
        ok = ok and saw_on and saw_off
        res.add(f"labrea.cache._{kind}_cache_handler:tests the switch first and delegates to its disabled twin", ok, cm.relpath, fi.node.lineno,
                why or f"{len(ps)} paths: switch on -> _disabled_{kind}_cache_handler(request), switch off -> backend", nec)
        deco = [ast.unparse(d) for d in fi.node.decorator_list]
        res.add(f"labrea.cache._{kind}_cache_handler:registered for {req}", deco == [f"{req}.handle"], cm.relpath, fi.node.lineno, f"{deco}", nec)
    cd, cps = _paths_fn(run, "labrea.cache._cache_disabled")
    looked = set()
    on_opts = True
    falls_false = False
    for p in cps:
        for e in p.events:
            if e.kind == "call" and e.text.endswith("get_dotted_key") and len(e.args) >= 2:
                looked.add(e.args[0].key())
                if e.args[1].key() != "attr:options(request)":
                    on_opts = False
        if p.status == "ret" and p.ret is not None and ("Const(False)" in p.ret.key()):
            falls_false = True
    ok = looked == {"Const('LABREA.CACHE.DISABLED')", "Const('LABREA.CACHE.DISABLE')"} and on_opts and falls_false
    res.add("labrea.cache._cache_disabled:consults both option spellings, default False", ok, cm.relpath, cd.node.lineno,
            f"looks up {sorted(looked)} in request.options={on_opts}; falls back to False={falls_false}", nec)
    dis = repo.func("labrea.cache.disabled")
    mapping = {}
    for n in ast.walk(dis.node):
        if isinstance(n, ast.Dict):
            for k, v in zip(n.keys, n.values):
                mapping[ast.unparse(k)] = ast.unparse(v)
    want = {"CacheSetRequest": "_disabled_set_cache_handler", "CacheGetRequest": "_disabled_get_cache_handler", "CacheExistsRequest": "_disabled_exists_cache_handler"}
    res.add("labrea.cache.disabled:swaps exactly the three cache handlers for their disabled twins", mapping == want, cm.relpath, dis.node.lineno, f"{mapping}", nec)
    lm = repo.modules["labrea.logging"]
    bh, bps = _paths_fn(run, "labrea.logging._builtin_logging_handler", no_inline=("_disabled_logging_handler",))
    ok = bool(bps)
    why = ""
    saw_on = saw_off = False
    for p in bps:
        if p.status != "ret":
            continue
        looks = [i for i, e in enumerate(p.events) if e.kind == "call" and e.text.endswith("get_dotted_key") and e.args and e.args[0].key() == "Const('LABREA.LOGGING.DISABLED')"
                 and len(e.args) > 1 and e.args[1].key() == "attr:options(request)"]
        emits = [i for i, e in enumerate(p.events) if e.kind == "call" and e.text == "log"]
        if not looks:
            ok = False
            why = "a path does not look LABREA.LOGGING.DISABLED up in request.options"
            continue
        if emits and emits[0] < looks[0]:
            ok = False
            why = "a record is emitted before the switch is consulted"
        if emits:
            saw_off = True
        else:
            saw_on = True
    ok = ok and saw_on and saw_off
    res.add("labrea.logging._builtin_logging_handler:tests LABREA.LOGGING.DISABLED first", ok, lm.relpath, bh.node.lineno,
            why or "the switch is looked up in request.options before anything is emitted; one outcome emits, the other does not", nec)
    logs = [c for c in astu.calls_in(bh.node) if astu.short_name(c) == "log"]
    ok = len(logs) == 1 and ast.unparse(logs[0]) == "logging.getLogger(request.name).log(request.level, request.msg)"
    res.add("labrea.logging._builtin_logging_handler:emits request.msg at request.level on the named logger", ok, lm.relpath, bh.node.lineno, f"{[ast.unparse(c) for c in logs]}", nec)
    ld = repo.func("labrea.logging.disabled")
    rets = [ast.unparse(r.value) for r in ast.walk(ld.node) if isinstance(r, ast.Return)]
    res.add("labrea.logging.disabled:swaps the log handler for the disabled one", rets == ["runtime.handle(LogRequest, _disabled_logging_handler)"], lm.relpath, ld.node.lineno, f"{rets}", nec)
    # effects switch
    cmod = repo.modules["labrea.computation"]
    sw = cmod.names.get("_EFFECTS_DISABLED")
    ok = sw is not None and sw[0] == "var" and ast.unparse(sw[1]) == "Option('LABREA.EFFECTS.DISABLED', False)"
    res.add("labrea.computation._EFFECTS_DISABLED:Option('LABREA.EFFECTS.DISABLED', False)", ok, cmod.relpath, 1, ast.unparse(sw[1]) if sw else "missing", nec)
    co = repo.cls("Computation")
    for op in ("evaluate", "validate"):
        ps = normal(run.paths(co, op))
        with_e = [p for p in ps if any(e.kind == "op" and isinstance(e.target, Child) and e.target.path == "effect" for e in p.events)]
        without = [p for p in ps if p not in with_e]
        def cond_of(p):
            for c in p.conds:
                if "_EFFECTS_DISABLED" in c[0]:
                    neg = c[2].startswith("unop:Not(")
                    return c[1] != neg  # True == switch is on (disabled)
            return None
        ok = bool(with_e) and bool(without) and all(cond_of(p) is False for p in with_e) and all(cond_of(p) is True for p in without)
        res.add(f"labrea.computation.Computation.{op}:effect skipped exactly when LABREA.EFFECTS.DISABLED", ok, cmod.relpath, co.methods[op].lineno,
                f"{len(with_e)} paths with the effect, {len(without)} without", nec)
    ds = repo.cls("Dataset")
    for nm, val in (("disable_effects", "True"), ("enable_effects", "False")):
        fn = ds.methods.get(nm)
        ok = fn is not None and [ast.unparse(s) for s in _first_stmts(fn)] == [f"self._effects_disabled = {val}"]
        res.add(f"labrea.dataset.Dataset.{nm}:sets the per-dataset toggle", ok, ds.module.relpath, fn.lineno if fn else 0, "", nec)
    df = repo.cls("DatasetFactory")
    nc = df.methods.get("nocache")
    ok = nc is not None and [ast.unparse(r.value) for r in ast.walk(nc) if isinstance(r, ast.Return)] == ["self.update(cache=NoCache())"]
    res.add("labrea.dataset.DatasetFactory.nocache:uses NoCache", ok, ds.module.relpath, nc.lineno if nc else 0, "", nec)
    return res


# ------------------------------------------------------------------ R-DH
def rule_DH(run: Run) -> RuleResult:
    res = RuleResult("R-DH")
    repo = run.repo
    nec = "with caching / logging disabled stored entries are neither read nor written and nothing is emitted (C16)"
    n = 0
    for q, fi in repo.functions.items():
        if not fi.name.startswith("_disabled_"):
            continue
        n += 1
        bad = []
        for c in astu.calls_in(fi.node):
            nm = astu.short_name(c)
            if isinstance(c.func, ast.Attribute) and nm in ("get", "set", "exists", "log", "getLogger", "run", "fingerprint"):
                bad.append(ast.unparse(c)[:50])
            if isinstance(c.func, ast.Name) and nm.endswith("_handler") and not nm.startswith("_disabled_"):
                bad.append(ast.unparse(c)[:50])
        res.add(f"{q}:touches no backend", not bad, fi.module.relpath, fi.node.lineno, "no backend call" if not bad else f"calls {bad}", nec)
    if n < 4:
        raise AnalysisError(f"only {n} _disabled_* handlers found")
    return res


# ------------------------------------------------------------------ R-L1
def rule_L1(run: Run) -> RuleResult:
    res = RuleResult("R-L1")
    repo = run.repo
    nec = "exactly one INFO-level log request per evaluation of a dataset that is not served from its cache (C16, C18)"
    lg = repo.cls("Logged")
    ps = normal(run.paths(lg, "evaluate"))
    counts = []
    ok_args = True
    for p in ps:
        runs = [e for e in p.events if e.kind == "call" and e.text == "run" and isinstance(e.target, Sym) and e.target.head == "new:LogRequest"]
        counts.append(len(runs))
        for e in runs:
            if e.target.key() != "new:LogRequest(Child(level),Child(name),Child(msg),options)":
                ok_args = False
    res.add("labrea.logging.Logged.evaluate:exactly one LogRequest(...).run() on every path", bool(ps) and all(c == 1 for c in counts), lg.module.relpath, lg.methods["evaluate"].lineno,
            f"log requests per path: {counts}", nec)
    res.add("labrea.logging.Logged.evaluate:request carries level, name, msg and the options", ok_args, lg.module.relpath, lg.methods["evaluate"].lineno, "", nec)
    for op in ("validate", "keys", "explain"):
        ps = run.paths(lg, op)
        n = sum(1 for p in ps for e in p.events if e.kind == "call" and "LogRequest" in e.text)
        res.add(f"labrea.logging.Logged.{op}:inspection does not log", n == 0, lg.module.relpath, lg.methods[op].lineno, f"{n} log requests", nec)
    # Dataset composes Logged at INFO level
    ds = repo.cls("Dataset")
    ok = False
    for p in normal(analyse_method(Ctx(repo), ds, "_composed")):
        t = p.ret
        while isinstance(t, New):
            if t.cls.name == "Logged":
                ok = t.attrs.get("level") is not None and t.attrs["level"].key() in ("ext<logging.INFO>", "attr:INFO(ext<logging>)")
                lvl = t.attrs.get("level")
            t = t.attrs.get("evaluatable")
    res.add("labrea.dataset.Dataset._composed:logs at logging.INFO", ok, ds.module.relpath, ds.methods["_composed"].lineno, "", nec)
    return res


# ------------------------------------------------------------------ R-WR
ABCS = {"Validatable": ("validate", "ValidateRequest"), "Cacheable": ("keys", "KeysRequest"),
        "Explainable": ("explain", "ExplainRequest"), "Evaluatable": ("evaluate", "EvaluateRequest")}
SAVED = {"validate": "__labrea_validate__", "keys": "__labrea_keys__", "explain": "__labrea_explain__", "evaluate": "__labrea_evaluate__"}
HANDLERS = {"_evaluate_request": ("evaluatable", "__labrea_evaluate__"), "_validate_request": ("validatable", "__labrea_validate__"),
            "_keys_request": ("cacheable", "__labrea_keys__"), "_explain_request": ("explainable", "__labrea_explain__")}


def rule_WR(run: Run) -> RuleResult:
    res = RuleResult("R-WR")
    repo = run.repo
    nec = ("every evaluate/validate/keys/explain of every built-in expression type must be issued as a request "
           "through the current runtime, else a handler cannot observe or substitute it (C18)")
    for an, (op, req) in ABCS.items():
        c = repo.cls(f"labrea.types.{an}")
        isc = c.methods.get("__init_subclass__")
        if isc is None:
            res.add(f"labrea.types.{an}.__init_subclass__:present", False, c.module.relpath, c.node.lineno, "missing", nec)
            continue
        t = ast.unparse(isc)
        inner = [n for n in isc.body[1].body if isinstance(n, ast.FunctionDef)] if len(isc.body) > 1 and isinstance(isc.body[1], ast.If) else []
        ok_super = any(ast.unparse(s).startswith("super().__init_subclass__(") for s in isc.body)
        guard = len(isc.body) > 1 and isinstance(isc.body[1], ast.If) and ast.unparse(isc.body[1].test) == f"not hasattr(cls.{op}, '__labrea_wrapper__')"
        ok_inner = False
        if inner:
            w = inner[0]
            ps_ = [a.arg for a in w.args.args]
            rets = [ast.unparse(r.value) for r in ast.walk(w) if isinstance(r, ast.Return)]
            want = f"{req}({ps_[0]}, {ps_[1]}).run()" if len(ps_) > 1 else ""
            want2 = f"{req}({ps_[0]}, {ps_[1]} or {{}}).run()" if len(ps_) > 1 else ""
            ok_inner = w.name == op and rets in ([want], [want2])
        ok_install = f"cls.{SAVED[op]} = cls.{op}" in t and f"cls.{op} = {op}" in t and f"setattr({op}, '__labrea_wrapper__', True)" in t
        order_ok = t.find(f"cls.{SAVED[op]} = cls.{op}") < t.find(f"cls.{op} = {op}")
        res.add(f"labrea.types.{an}.__init_subclass__:replaces {op} by a wrapper issuing {req}(self, options).run()", ok_super and guard and ok_inner and ok_install and order_ok,
                c.module.relpath, isc.lineno, f"super={ok_super} guard={guard} wrapper={ok_inner} install={ok_install} saved-before-replaced={order_ok}", nec)
    # default handlers call the saved implementation of the matching field
    for hn, (field, saved) in HANDLERS.items():
        fi = repo.func(f"labrea.types.{hn}")
        calls = [c for c in astu.calls_in(fi.node) if astu.short_name(c) == saved]
        ok = len(calls) == 1 and ast.unparse(calls[0]) == f"request.{field}.{saved}(request.options)"
        res.add(f"labrea.types.{hn}:calls request.{field}.{saved}(request.options)", ok, fi.module.relpath, fi.node.lineno, f"{[ast.unparse(c) for c in calls]}", nec)
        if hn != "_evaluate_request":
            rets = [ast.unparse(r.value) for r in ast.walk(fi.node) if isinstance(r, ast.Return) and r.value is not None]
            res.add(f"labrea.types.{hn}:returns the implementation's result unchanged", rets == [f"request.{field}.{saved}(request.options)"], fi.module.relpath, fi.node.lineno, f"{rets}", nec)
    # the saved implementations are called from nowhere else; the marker is set nowhere else
    for m, cls, fn, q in iter_functions(repo):
        for c in astu.calls_in(fn):
            nm = astu.short_name(c)
            if nm in SAVED.values():
                ok = q in {f"labrea.types.{h}" for h in HANDLERS}
                if not ok:
                    res.add(f"{q}:calls {nm} directly", False, m.relpath, c.lineno, ast.unparse(c)[:80] + " bypasses the request", nec)
        for n in astu.walk_no_nested(fn):
            if isinstance(n, ast.Constant) and n.value == "__labrea_wrapper__" and not q.endswith("__init_subclass__") and "__init_subclass__.<locals>" not in q:
                res.add(f"{q}:touches the wrapper marker", False, m.relpath, n.lineno, "'__labrea_wrapper__' used outside the four __init_subclass__ hooks", nec)
    # every concrete node class defines the ops as plain defs; no other __init_subclass__ drops super()
    n_cls = 0
    for c in list(run.node_classes()) + [k for k in repo.subclasses_of("Effect")]:
        n_cls += 1
        bad = []
        for op in ("evaluate", "validate", "keys", "explain"):
            if op in c.class_assigns:
                bad.append(f"{op} assigned in the class body")
            if op in c.methods:
                decos = [ast.unparse(d) for d in c.methods[op].decorator_list]
                if any(d in ("staticmethod", "classmethod", "property") for d in decos):
                    bad.append(f"{op} decorated {decos}")
        for nm in SAVED.values():
            if nm in c.methods or nm in c.class_assigns:
                bad.append(f"defines {nm} itself")
        if "__init_subclass__" in c.methods and c.name not in ABCS:
            t = ast.unparse(c.methods["__init_subclass__"])
            if "super().__init_subclass__(" not in t:
                bad.append("__init_subclass__ without super()")
        res.add(f"{c.qualname}:operations are plain methods wrapped by the ABC hooks", not bad, c.module.relpath, c.node.lineno, "ok" if not bad else "; ".join(bad), nec)
    res.count("classes", n_cls)
    return res


# ------------------------------------------------------------------ R-RQ
def rule_RQ(run: Run) -> RuleResult:
    res = RuleResult("R-RQ")
    repo = run.repo
    nec = ("cache lookups/stores, log emission and option type checks must go through requests: a direct "
           "backend call is invisible to handlers and ignores the disabling switches (C18, C16)")
    backend_ok = {"labrea.cache._set_cache_handler", "labrea.cache._get_cache_handler", "labrea.cache._exists_cache_handler", "labrea.cache.Cache.exists"}
    handler_names = set()
    for q, fi in repo.functions.items():
        if any(isinstance(d, ast.Attribute) and d.attr == "handle" for d in fi.node.decorator_list):
            handler_names.add(fi.name)
    n = 0
    for m, cls, fn, q in iter_functions(repo):
        if m.name.startswith("labrea.mypy"):
            continue
        for c in astu.calls_in(fn):
            f0 = c.func
            nm = astu.short_name(c)
            if isinstance(f0, ast.Attribute) and nm in ("get", "set", "exists"):
                recv = ast.unparse(f0.value)
                is_cache = recv.endswith("cache") or recv == "self" and cls is not None and any(k.name == cls.name and k.is_subclass_of("Cache") for k in repo.classes.values())
                if is_cache and recv not in ("self._cache",):
                    n += 1
                    ok = q in backend_ok or (cls is not None and any(k.name == cls.name and k.is_subclass_of("Cache") for k in repo.classes.values()))
                    res.add(f"{q}:direct backend call {recv}.{nm}", ok, m.relpath, c.lineno,
                            ast.unparse(c)[:70] + (" (cache handler / Cache itself)" if ok else " bypasses the cache request"), nec)
            if nm == "getLogger":
                n += 1
                ok = q == "labrea.logging._builtin_logging_handler"
                res.add(f"{q}:logging.getLogger", ok, m.relpath, c.lineno, ast.unparse(c)[:70], nec)
            if isinstance(f0, ast.Name) and f0.id in handler_names and not q.split(".")[-1].endswith("_handler"):
                n += 1
                res.add(f"{q}:calls default handler {f0.id} directly", False, m.relpath, c.lineno, ast.unparse(c)[:70], nec)
    # request sites in node classes
    for cn, meth, reqs in (("Cached", "evaluate", {"CacheExistsRequest", "CacheGetRequest", "CacheSetRequest"}), ("Cached", "validate", {"CacheExistsRequest"}),
                           ("Logged", "evaluate", {"LogRequest"}), ("Option", "evaluate", {"TypeValidationRequest"}), ("LogEffect", "transform", {"LogRequest"})):
        c = repo.cls(cn)
        found = set()
        for p_ in analyse_method(Ctx(repo), c, meth):
            for e in p_.events:
                if e.kind == "call" and e.text == "run" and isinstance(e.target, Sym) and e.target.head.startswith("new:"):
                    found.add(e.target.head[4:])
        n += 1
        res.add(f"{c.qualname}.{meth}:issues {sorted(reqs)} via .run()", reqs <= found, c.module.relpath, c.methods[meth].lineno, f"found {sorted(found)}", nec)
    res.count("sites", n)
    return res


# ------------------------------------------------------------------ R-HD
def rule_HD(run: Run) -> RuleResult:
    res = RuleResult("R-HD")
    repo = run.repo
    nec = "a request type without a default handler fails with TypeError in every runtime (C18, C14)"
    reqs = repo.subclasses_of("Request")
    if len(reqs) < 9:
        raise AnalysisError(f"only {len(reqs)} Request subclasses found (9 confirmed)")
    for r in reqs:
        hs = []
        for q, fi in repo.functions.items():
            for d in fi.node.decorator_list:
                if isinstance(d, ast.Attribute) and d.attr == "handle" and repo.resolve_class(fi.module, d.value) is r:
                    hs.append(q)
        res.add(f"{r.qualname}:has a module-level default handler", len(hs) >= 1, r.module.relpath, r.node.lineno, f"{hs}", nec)
    rq = repo.cls("Request")
    h = rq.methods.get("handle")
    ok = h is not None and any(ast.unparse(c) == "handle_by_default(cls, handler)" for c in astu.calls_in(h)) and [ast.unparse(r.value) for r in ast.walk(h) if isinstance(r, ast.Return)] == ["handler"]
    res.add("labrea.runtime.Request.handle:registers the default and returns the handler", ok, rq.module.relpath, h.lineno if h else 0, "", nec)
    return res


# ------------------------------------------------------------------ R-MF
def _member_filters(fn: ast.AST, selfname: str):
    """(source, formula) of every loop over dir(...) in fn; the formula is the
    boolean expression (AST over normalised atoms MEMBER / NAME) under which a
    member is processed, whatever the loop's shape (comprehension filter, `if
    cond: work`, guard clause `if not cond: continue`)."""
    out = []
    for x in ast.walk(fn):
        gens = []
        if isinstance(x, ast.For):
            gens.append((x.target, x.iter, None, x))
        elif isinstance(x, ast.comprehension):
            gens.append((x.target, x.iter, x.ifs, x))
        for tgt, it, ifs, node in gens:
            if not (isinstance(it, ast.Call) and astu.short_name(it) == "dir"):
                continue
            var = tgt.id if isinstance(tgt, ast.Name) else "?"
            src = ast.unparse(it.args[0]) if it.args else "?"
            parts: List[ast.expr] = []
            if ifs is not None:
                parts = list(ifs)
            else:
                amap = astu.single_assign_map(node)
                for st in node.body:
                    if isinstance(st, ast.If) and not st.orelse and all(isinstance(b, ast.Continue) for b in st.body):
                        parts.append(ast.UnaryOp(op=ast.Not(), operand=astu.expand_locals(st.test, amap)))
                    elif isinstance(st, ast.If) and not st.orelse:
                        parts.append(astu.expand_locals(st.test, amap))
                        break
                    elif isinstance(st, (ast.Assign, ast.AnnAssign)):
                        continue
                    else:
                        break
            formula = ast.BoolOp(op=ast.And(), values=parts) if len(parts) > 1 else (parts[0] if parts else ast.Constant(value=True))
            t = ast.unparse(ast.fix_missing_locations(formula))
            for a in (f"getattr({src}, {var}, None)", f"getattr({src}, {var})", f"getattr({selfname}, {var}, None)", f"getattr({selfname}, {var})"):
                t = t.replace(a, "MEMBER")
            import re as _re
            t = _re.sub(r"(?<![A-Za-z0-9_])" + _re.escape(var) + r"(?![A-Za-z0-9_])", "NAME", t)
            out.append((src, ast.parse(t, mode="eval").body))
    return out


def _truth_table(formula: ast.expr, atoms: List[str]):
    import itertools as _it
    rows = []

    def ev(e, env):
        if isinstance(e, ast.UnaryOp) and isinstance(e.op, ast.Not):
            return not ev(e.operand, env)
        if isinstance(e, ast.BoolOp):
            vals = [ev(v, env) for v in e.values]
            return all(vals) if isinstance(e.op, ast.And) else any(vals)
        if isinstance(e, ast.Constant):
            return bool(e.value)
        return env[ast.unparse(e)]

    for combo in _it.product([False, True], repeat=len(atoms)):
        rows.append(ev(formula, dict(zip(atoms, combo))))
    return tuple(rows)


def _formula_atoms(e: ast.expr, out: List[str]):
    if isinstance(e, ast.UnaryOp) and isinstance(e.op, ast.Not):
        _formula_atoms(e.operand, out)
    elif isinstance(e, ast.BoolOp):
        for v in e.values:
            _formula_atoms(v, out)
    elif not isinstance(e, ast.Constant):
        t = ast.unparse(e)
        if t not in out:
            out.append(t)


def rule_MF(run: Run) -> RuleResult:
    res = RuleResult("R-MF")
    repo = run.repo
    nec = ("validate, keys, explain and instantiation of a dataset class must enumerate the same members: a "
           "member evaluated but not keyed/validated breaks union-over-members and instance equality (C19)")
    meta = repo.cls("_DatasetClassMeta")
    mix = repo.cls("_DatasetClassMixin")
    f = meta.module.relpath
    forms = {}
    for op in ("validate", "keys", "explain"):
        fn = meta.methods.get(op)
        if fn is None:
            raise AnalysisError(f"_DatasetClassMeta.{op} not found")
        forms[f"_DatasetClassMeta.{op}"] = (_member_filters(fn, astu.first_param(fn)), fn.lineno, astu.first_param(fn))
    init = mix.methods.get("__init__")
    if init is None:
        raise AnalysisError("_DatasetClassMixin.__init__ not found")
    forms["_DatasetClassMixin.__init__"] = (_member_filters(init, "self"), init.lineno, "self")
    atoms: List[str] = []
    for k, (flt, ln, sn) in forms.items():
        for src, formula in flt:
            _formula_atoms(formula, atoms)
    ref = None
    for k, (flt, ln, sn) in forms.items():
        if len(flt) != 1:
            res.add(f"labrea.datasetclass.{k}:one member enumeration over dir(...)", False, f, ln, f"{len(flt)} enumerations", nec)
            continue
        src, formula = flt[0]
        src_n = "CLASS" if src in (sn, f"{sn}.__class__", "self.__class__", "cls") else src
        key = (src_n, _truth_table(formula, atoms))
        if ref is None:
            ref = key
        res.add(f"labrea.datasetclass.{k}:same member source and predicate as its siblings", key == ref, f, ln,
                f"source {src}; member processed iff {ast.unparse(formula)} (compared as a truth table over {atoms})", nec)
    want_atoms = {"isinstance(MEMBER, Evaluatable)", "NAME.startswith('__')"}
    res.add("labrea.datasetclass:members are the Evaluatable attributes that are not dunder names", set(atoms) == want_atoms, f, 1,
            f"predicate atoms {sorted(atoms)}", nec)
    eq = mix.methods.get("__eq__")
    rp = mix.methods.get("__repr__")
    ok = eq is not None and rp is not None and "self._repr_options == other._repr_options" in ast.unparse(eq) and "isinstance(other, self.__class__)" in ast.unparse(eq) and "self._repr_options" in ast.unparse(rp)
    res.add("labrea.datasetclass._DatasetClassMixin:__eq__ and __repr__ read the recorded relevant options", ok, f, eq.lineno if eq else 0, "", nec)
    t = ast.unparse(init)
    ok = "self.__class__.keys(options)" in t and "set_dotted_key(key, value, self._repr_options)" in t
    res.add("labrea.datasetclass._DatasetClassMixin.__init__:records options restricted to the class's keys", ok, f, init.lineno, "", nec)
    ev = meta.methods.get("evaluate")
    ok = ev is not None and [ast.unparse(r.value) for r in ast.walk(ev) if isinstance(r, ast.Return)] == [f"{astu.first_param(ev)}({astu.param_names(ev)[0]})"]
    res.add("labrea.datasetclass._DatasetClassMeta.evaluate:instantiates with the options", ok, f, ev.lineno if ev else 0, "", nec)
    sets = [c for c in astu.calls_in(init) if astu.short_name(c) == "setattr"]
    ok = len(sets) == 1 and ast.unparse(sets[0]) == "setattr(self, key, val.evaluate(options))"
    res.add("labrea.datasetclass._DatasetClassMixin.__init__:every evaluatable member set to its evaluation", ok, f, init.lineno, f"{[ast.unparse(c) for c in sets]}", nec)
    mi = meta.methods.get("__init__")
    ok = mi is not None and "setattr(cls, key, Value(val))" in ast.unparse(mi) and "if not isinstance(val, Evaluatable):" in ast.unparse(mi)
    res.add("labrea.datasetclass._DatasetClassMeta.__init__:plain annotated members wrapped as constants", ok, f, mi.lineno if mi else 0, "", nec)
    return res


# ------------------------------------------------------------------ R-PL
def _lock_attrs(repo, c) -> Set[str]:
    out = set()
    for fn in c.methods.values():
        for s in ast.walk(fn):
            if isinstance(s, ast.Assign):
                for t in s.targets:
                    if isinstance(t, ast.Attribute) and isinstance(t.value, ast.Name) and t.value.id == "self":
                        v = s.value
                        txt = ast.unparse(v)
                        is_lock = "Lock(" in txt or "RLock(" in txt or "Condition(" in txt or "Semaphore(" in txt or "Event(" in txt
                        if isinstance(v, ast.Call) and isinstance(v.func, ast.Name):
                            r = repo.resolve_name(c.module, v.func.id)
                            if r and r[0] == "func" and r[1].node.returns is not None and "Lock" in ast.unparse(r[1].node.returns):
                                is_lock = True
                        if is_lock:
                            out.add(t.attr)
    for a, ann in c.annotations.items():
        if "Lock" in ast.unparse(ann):
            out.add(a)
    return out


def rule_PL(run: Run) -> RuleResult:
    res = RuleResult("R-PL")
    repo = run.repo
    nec = "a lock stored on an instance cannot be pickled: the class must drop it in __getstate__ and re-create it in __setstate__ (C20)"
    n = 0
    for c in repo.classes.values():
        if c.module.name.startswith("labrea.mypy"):
            continue
        locks = _lock_attrs(repo, c)
        gs, ss = c.methods.get("__getstate__"), c.methods.get("__setstate__")
        if locks:
            n += 1
            ok_g = gs is not None and all(f"'{a}'" in ast.unparse(gs) for a in locks) and "self.__dict__" in ast.unparse(gs)
            ok_s = ss is not None and all(any(isinstance(s, ast.Assign) and ast.unparse(s.targets[0]) == f"self.{a}" and isinstance(s.value, ast.Call)
                                              and ("Lock" in ast.unparse(s.value.func) or "_get_lock" in ast.unparse(s.value.func)) for s in ss.body) for a in locks) \
                and ("self.__dict__.update(" in ast.unparse(ss))
            res.add(f"{c.qualname}:lock attribute(s) {sorted(locks)} replaced in __getstate__", ok_g, c.module.relpath, gs.lineno if gs else c.node.lineno, "", nec)
            res.add(f"{c.qualname}:lock attribute(s) {sorted(locks)} re-created in __setstate__, other state restored", ok_s, c.module.relpath, ss.lineno if ss else c.node.lineno,
                    "unconditional `self.<lock> = <new or registered lock>` at the top level of __setstate__" if ok_s else
                    "__setstate__ does not unconditionally assign a lock: an object unpickled in a fresh process has no lock and register() fails", nec)
        elif gs is not None or ss is not None:
            ok = gs is not None and ss is not None
            res.add(f"{c.qualname}:__getstate__ and __setstate__ come in pairs", ok, c.module.relpath, c.node.lineno, "", nec)
    if n < 1:
        raise AnalysisError("no class with a lock attribute found (Overloaded expected)")
    # node classes rely on default instance pickling: no __slots__, no __reduce__ surprises
    for c in run.node_classes():
        bad = [a for a in ("__slots__",) if a in c.class_assigns]
        res.add(f"{c.qualname}:default instance pickling applies", not bad, c.module.relpath, c.node.lineno, "no __slots__" if not bad else f"defines {bad}", nec)
    return res


# ------------------------------------------------------------------ R-PF
def rule_PF(run: Run) -> RuleResult:
    res = RuleResult("R-PF")
    repo = run.repo
    nec = ("pickle stores functions by reference (module + qualified name): an object that replaces the decorated "
           "function under its own name while still holding the raw function cannot be pickled — the name now "
           "resolves to the object, not the function")
    n = 0
    for m, cls, fn, q in iter_functions(repo):
        amap = astu.single_assign_map(fn)
        for c in astu.calls_in(fn):
            if ast.unparse(c.func) in ("functools.update_wrapper", "update_wrapper") and len(c.args) >= 2:
                tgt = astu.expand_locals(c.args[0], amap)
                if isinstance(tgt, ast.Call):
                    ci = repo.resolve_class(m, tgt.func) if isinstance(tgt.func, (ast.Name, ast.Attribute)) else None
                    if ci is not None:
                        n += 1
                        has_reduce = any(k.find_method(x) for k in [ci] for x in ("__reduce__", "__reduce_ex__"))
                        # is the raw function retained by the wrapper's fields?
                        res.add(f"{q}:{ci.name} instance takes the decorated function's name while retaining it", bool(has_reduce), m.relpath, c.lineno,
                                f"functools.update_wrapper({ast.unparse(c.args[0])}, {ast.unparse(c.args[1])}) copies __module__/__qualname__/__wrapped__ onto a {ci.name}; "
                                + ("class customises pickling" if has_reduce else f"{ci.name} defines no __reduce__/__reduce_ex__"), nec)
    if n == 0:
        res.add("labrea:no wrapper object impersonates a function", True, "", 0, "no update_wrapper on instances", nec, trivial=True)
    return res


# ------------------------------------------------------------------ R-GA
def rule_GA(run: Run) -> RuleResult:
    res = RuleResult("R-GA")
    repo = run.repo
    nec = ("pickle probes __setstate__/__reduce_ex__ on an instance whose __dict__ is still empty: a __getattr__ "
           "that reads an instance attribute without first rejecting private/dunder names recurses without bound")
    n = 0
    for c in repo.classes.values():
        ga = c.methods.get("__getattr__")
        if ga is None or c.module.name.startswith("labrea.mypy"):
            continue
        n += 1
        name = astu.param_names(ga)[0]
        stmts = [s for s in ga.body if not (isinstance(s, ast.Expr) and isinstance(s.value, ast.Constant))]
        guarded = False
        for s in stmts:
            if isinstance(s, ast.If) and any(isinstance(x, ast.Raise) for x in s.body):
                t = ast.unparse(s.test)
                if f"{name}.startswith('_" in t or f"{name}.startswith(\"_" in t:
                    guarded = True
                    break
            # any self access before the guard?
            if any((isinstance(x, ast.Attribute) and isinstance(x.value, ast.Name) and x.value.id == "self") or
                   (isinstance(x, ast.Subscript) and isinstance(x.value, ast.Name) and x.value.id == "self") for x in ast.walk(s)):
                break
        res.add(f"{c.qualname}.__getattr__:rejects private names before touching instance state", guarded, c.module.relpath, ga.lineno,
                "guarded" if guarded else f"reads instance state (`{ast.unparse(stmts[0])[:50]}`…) for any name, including __setstate__", nec)
    if n == 0:
        res.add("labrea:no class defines __getattr__", True, "", 0, "", nec, trivial=True)
    return res


# ------------------------------------------------------------------ R-GS
SHARED_TABLES = {
    "labrea.runtime._RUNTIMES": "thread -> runtime table, guarded by runtime.lock (R-LS, R-TI)",
    "labrea.runtime._DEFAULT_HANDLERS": "default handler registry, written under runtime.lock (R-LS)",
    "labrea.overload._LOCKS": "per-object lock registry, guarded by _MODULE_LOCK (R-LS)",
}
_MUTATORS = {"add", "discard", "remove", "append", "extend", "insert", "pop", "popitem", "clear", "update", "setdefault", "__setitem__", "__delitem__", "sort"}


def rule_GS(run: Run) -> RuleResult:
    """No hidden module-level mutable state: outcomes depend on options only."""
    res = RuleResult("R-GS")
    repo = run.repo
    nec = ("an operation that records something in module-level state makes later outcomes depend on what was evaluated "
           "(or failed) earlier: a failed keys() that leaves an entry behind changes the keys reported afterwards")
    n = 0
    for m, cls, fn, q in iter_functions(repo):
        if m.name.startswith("labrea.mypy"):
            continue
        glob_decl = {n2 for x in ast.walk(fn) if isinstance(x, (ast.Global, ast.Nonlocal)) for n2 in x.names}
        local_names = {a.arg for a in fn.args.posonlyargs + fn.args.args + fn.args.kwonlyargs}
        if fn.args.vararg:
            local_names.add(fn.args.vararg.arg)
        if fn.args.kwarg:
            local_names.add(fn.args.kwarg.arg)
        for x in astu.walk_no_nested(fn):
            if isinstance(x, (ast.Assign, ast.AnnAssign, ast.AugAssign, ast.For, ast.comprehension, ast.With)):
                tg = []
                if isinstance(x, ast.Assign):
                    tg = x.targets
                elif isinstance(x, (ast.AnnAssign, ast.AugAssign)):
                    tg = [x.target]
                elif isinstance(x, (ast.For, ast.comprehension)):
                    tg = [x.target]
                for t in tg:
                    for y in ast.walk(t):
                        if isinstance(y, ast.Name) and isinstance(y.ctx, ast.Store) and y.id not in glob_decl:
                            local_names.add(y.id)
        def is_module_var(name: str) -> bool:
            if name in local_names and name not in glob_decl:
                return False
            r = m.names.get(name)
            return r is not None and r[0] == "var"
        for x in astu.walk_no_nested(fn):
            hit = None
            if isinstance(x, ast.Call) and isinstance(x.func, ast.Attribute) and x.func.attr in _MUTATORS and isinstance(x.func.value, ast.Name) and is_module_var(x.func.value.id):
                hit = (x.func.value.id, f"{x.func.value.id}.{x.func.attr}(…)")
            if isinstance(x, (ast.Assign, ast.AugAssign, ast.Delete)):
                tgts = x.targets if isinstance(x, (ast.Assign, ast.Delete)) else [x.target]
                for t in tgts:
                    if isinstance(t, ast.Subscript) and isinstance(t.value, ast.Name) and is_module_var(t.value.id):
                        hit = (t.value.id, f"{t.value.id}[…] = …")
                    if isinstance(t, ast.Name) and t.id in glob_decl:
                        hit = (t.id, f"global {t.id} = …")
            if hit:
                n += 1
                full = f"{m.name}.{hit[0]}"
                ok = full in SHARED_TABLES
                res.add(f"{q}:mutates module-level {hit[0]}", ok, m.relpath, x.lineno,
                        f"{hit[1]}" + (f" — registered shared table: {SHARED_TABLES[full]}" if ok else " — module-level mutable state that is not one of the guarded shared tables"), nec)
    if n < 3:
        raise AnalysisError(f"R-GS found only {n} writes to module-level state (the three guarded tables expected)")
    dirty = {o.file for o in res.obligations if not o.ok}
    for m in repo.modules.values():
        if m.name.startswith("labrea.mypy"):
            continue
        res.add(f"{m.name}:no unregistered module-level mutable state", m.relpath not in dirty, m.relpath, 1,
                "no function of this module mutates module-level state outside the guarded shared tables", nec)
    return res


# ------------------------------------------------------------------ R-SK
def rule_SK(run: Run) -> RuleResult:
    """Switch options are never part of a key set."""
    res = RuleResult("R-SK")
    repo = run.repo
    nec = ("feature switches must not split cache entries: a switch option reported by keys() changes the fingerprint, so the same "
           "evaluation with the switch present recomputes, logs and stores again (C16, C02)")
    for cls in run.node_classes():
        for op in ("keys",):
            owner, fn = cls.find_method(op)
            bad = []
            for p in run.paths(cls, op):
                for e in p.events:
                    tgt = e.target
                    if e.kind in ("op", "call") and (e.op in ("keys", "explain") or e.text in ("keys", "explain", "fingerprint")) and isinstance(tgt, Sym) and tgt.head == "global":
                        bad.append((e.line, tgt.text))
                    if e.kind in ("op", "unfold") and e.op in ("keys",) and isinstance(tgt, New) and tgt.cls.name == "Option":
                        k = tgt.attrs.get("key")
                        if isinstance(k, Const) and isinstance(k.v, str) and k.v.startswith("LABREA."):
                            bad.append((e.line, k.v))
            res.add(f"{cls.qualname}.{op}:no feature-switch option in the key set", not bad, owner.module.relpath, fn.lineno,
                    "no switch keyed" if not bad else f"line {bad[0][0]}: keys of switch {bad[0][1]} are reported", nec)
    return res
