"""Option discipline (DESIGN 3.4) and present-only keys (R-PO)."""
from __future__ import annotations

import ast
import itertools
from typing import Dict, List, Optional, Set

from . import astu
from .facts import Run, cond_pol, normal
from .interp import Ctx, analyse_method
from .model import AnalysisError, iter_functions
from .report import RuleResult
from .interp import Coll  # noqa: E402
from .terms import Child, Const, Sym, Val


def _bool_contexts(fn: ast.AST):
    """Yield leaf expressions evaluated for truthiness."""
    def leaves(e):
        if isinstance(e, ast.UnaryOp) and isinstance(e.op, ast.Not):
            yield from leaves(e.operand)
        elif isinstance(e, ast.BoolOp):
            for v in e.values:
                yield from leaves(v)
        else:
            yield e

    for n in astu.walk_no_nested(fn):
        if isinstance(n, (ast.If, ast.While, ast.IfExp, ast.Assert)):
            yield from leaves(n.test)
        elif isinstance(n, ast.BoolOp):
            # value context: every operand but the last is tested for truth
            for v in n.values[:-1]:
                yield from leaves(v)
        elif isinstance(n, ast.comprehension):
            for c in n.ifs:
                yield from leaves(c)
        elif isinstance(n, ast.UnaryOp) and isinstance(n.op, ast.Not):
            yield from leaves(n.operand)
        elif isinstance(n, ast.Call) and isinstance(n.func, ast.Name) and n.func.id == "bool" and n.args:
            yield from leaves(n.args[0])


def _mentions_missing(ann: Optional[ast.expr]) -> bool:
    if ann is None:
        return False
    t = ast.unparse(ann)
    return "MaybeMissing" in t or "Missing" in t.replace("MaybeMissing", "")


# ------------------------------------------------------------------ R-MS
def rule_MS(run: Run) -> RuleResult:
    res = RuleResult("R-MS")
    repo = run.repo
    nec = ("the MISSING sentinel must be compared with `is`; a truthiness test (`elif default:`) drops "
           "falsy defaults 0, False, '' (and bool(MISSING) is True anyway)")
    n_ctx = 0
    n_cmp = 0
    for m, cls, fn, q in iter_functions(repo):
        if m.name.startswith("labrea.mypy"):
            continue
        missing_names: Set[str] = set()
        for a in fn.args.posonlyargs + fn.args.args + fn.args.kwonlyargs:
            if _mentions_missing(a.annotation):
                missing_names.add(a.arg)
        missing_attrs: Set[str] = set()
        if cls is not None:
            ci = repo.classes.get(f"{m.name}.{cls.name}")
            if ci is not None:
                for kc in ci.mro():
                    for a, ann in kc.annotations.items():
                        if _mentions_missing(ann):
                            missing_attrs.add(a)
        # locals assigned straight from a missing-typed name/attribute
        for n in astu.walk_no_nested(fn):
            if isinstance(n, ast.Assign) and len(n.targets) == 1 and isinstance(n.targets[0], ast.Name):
                v = n.value
                if (isinstance(v, ast.Name) and v.id in missing_names) or (isinstance(v, ast.Attribute) and v.attr in missing_attrs and isinstance(v.value, ast.Name) and v.value.id == "self"):
                    missing_names.add(n.targets[0].id)
        for e in _bool_contexts(fn):
            n_ctx += 1
            bad = None
            if isinstance(e, ast.Name) and e.id in missing_names:
                bad = e.id
            elif isinstance(e, ast.Attribute) and e.attr in missing_attrs and isinstance(e.value, ast.Name) and e.value.id in ("self", "option", "value", "member"):
                bad = ast.unparse(e)
            elif isinstance(e, (ast.Name, ast.Attribute)) and ast.unparse(e).split(".")[-1] == "MISSING":
                bad = "MISSING"
            if bad:
                res.add(f"{q}:{bad} in boolean context", False, m.relpath, e.lineno,
                        f"'{bad}' may be the MISSING sentinel and is tested for truthiness", nec)
        for n in astu.walk_no_nested(fn):
            if isinstance(n, ast.Compare) and any(isinstance(c, ast.Name) and c.id == "MISSING" for c in [n.left] + n.comparators):
                n_cmp += 1
                ok = all(isinstance(o, (ast.Is, ast.IsNot)) for o in n.ops)
                # `x == Value(MISSING)` is a comparison of wrappers, not of the sentinel
                res.add(f"{q}:{ast.unparse(n)[:50]} sentinel-compared-by-identity", ok, m.relpath, n.lineno,
                        ast.unparse(n)[:80], nec)
    # "not given" has one spelling per parameter: a parameter whose own marker for "not given" is None must not be handed on, as it
    # is, to a parameter whose marker is MISSING (``def f(key, default=None): return Option(key, default)`` gives every Option the
    # default None: the key is never reported missing any more, C04 / C12) — unless the call sits behind a test of that parameter
    n_flow = 0
    for m, cls, fn, q in iter_functions(repo):
        if m.name.startswith("labrea.mypy"):
            continue
        pos_params = fn.args.posonlyargs + fn.args.args
        defaults = dict(zip([a.arg for a in pos_params][len(pos_params) - len(fn.args.defaults):], fn.args.defaults))
        defaults.update({a.arg: d for a, d in zip(fn.args.kwonlyargs, fn.args.kw_defaults) if d is not None})
        none_params = {a for a, d in defaults.items() if isinstance(d, ast.Constant) and d.value is None}
        if not none_params:
            continue
        pm = astu.parent_map(fn)
        for c in astu.calls_in(fn):
            r_ = astu.resolve_in_function(repo, m, fn, c.func) if isinstance(c.func, (ast.Name, ast.Attribute)) else None
            target = None
            if r_ and r_[0] == "class":
                im_ = r_[1].find_method("__init__")
                target = (im_[1], 1) if im_ else None
            elif r_ and r_[0] == "func":
                target = (r_[1].node, 0)
            if target is None:
                continue
            tfn, skip = target
            tpos = (tfn.args.posonlyargs + tfn.args.args)[skip:]
            tdef = dict(zip([a.arg for a in (tfn.args.posonlyargs + tfn.args.args)][len(tfn.args.posonlyargs + tfn.args.args) - len(tfn.args.defaults):], tfn.args.defaults))
            tdef.update({a.arg: d for a, d in zip(tfn.args.kwonlyargs, tfn.args.kw_defaults) if d is not None})
            pairs = [(tpos[i].arg, a) for i, a in enumerate(c.args) if i < len(tpos) and not isinstance(a, ast.Starred)] + [(k.arg, k.value) for k in c.keywords if k.arg]
            for pname, a in pairs:
                d_ = tdef.get(pname)
                if not (isinstance(a, ast.Name) and a.id in none_params and isinstance(d_, ast.Name) and d_.id == "MISSING"):
                    continue
                n_flow += 1
                # guarded: some enclosing if / conditional expression tests the parameter (``if default is not None``, ``if default is None … else``)
                guarded, cur = False, c
                while id(cur) in pm:
                    up = pm[id(cur)]
                    if isinstance(up, (ast.If, ast.IfExp)) and any(isinstance(x, ast.Name) and x.id == a.id for x in ast.walk(up.test)):
                        guarded = True
                    cur = up
                res.add(f"{q}:{a.id} (None when not given) handed to {ast.unparse(c.func)[:30]}({pname}=…, MISSING when not given) only behind a test", guarded, m.relpath, c.lineno,
                        "behind a test of the parameter" if guarded else
                        f"{ast.unparse(c)[:60]}: when `{a.id}` is not given the callee receives None — a value — where it expects MISSING: an absent key yields None instead of the missing-key error", nec)
    res.add("labrea:a None-marked optional parameter reaches a MISSING-marked one only behind a test", True, "labrea/_missing.py", 1, f"{n_flow} such hand-overs", nec, trivial=True)
    res.count("boolean_contexts", n_ctx)
    res.count("sentinel_comparisons", n_cmp)
    if n_ctx < 100:
        raise AnalysisError(f"R-MS examined only {n_ctx} boolean contexts")
    return res


# ------------------------------------------------------------------ R-FV
def rule_FV(run: Run) -> RuleResult:
    res = RuleResult("R-FV")
    repo = run.repo
    opt = repo.cls("Option")
    nec = ("presence must be decided by KeyError / dotted_key_exists only: a truthiness test or "
           "`or`-default on the looked-up value treats 0, False, '', [] and None as absent (C04)")
    reach_all = astu.reachable_self_methods(opt, ["evaluate", "validate", "keys", "explain"])
    names = ["evaluate", "validate", "keys", "explain"] + sorted(n for n in reach_all if n not in ("evaluate", "validate", "keys", "explain"))
    for name in names:
        fn = opt.methods.get(name)
        if fn is None:
            if name not in ("evaluate", "validate", "keys", "explain"):
                continue
            raise AnalysisError(f"Option.{name} not found")
        vals: Set[str] = set()
        for n in astu.walk_no_nested(fn):
            if isinstance(n, ast.Assign):
                srcs = [astu.short_name(c) for c in astu.calls_in(n.value)]
                if any(s in ("get_dotted_key", "resolve") for s in srcs) or (isinstance(n.value, ast.Call) and astu.short_name(n.value) == "evaluate"):
                    for t in n.targets:
                        if isinstance(t, ast.Name):
                            vals.add(t.id)
        if name == "_enforce_domain" or (name not in ("evaluate", "validate", "keys", "explain") and astu.param_names(fn) and astu.param_names(fn)[0] == "value"):
            vals.add(astu.param_names(fn)[0])
        bad = []
        for e in _bool_contexts(fn):
            if isinstance(e, ast.Name) and e.id in vals:
                bad.append(e)
            # direct `get_dotted_key(...) or x`
            if isinstance(e, ast.Call) and astu.short_name(e) in ("get_dotted_key", "resolve"):
                bad.append(e)
            if isinstance(e, ast.Call) and astu.short_name(e) == "get" and isinstance(e.func, ast.Attribute) and "options" in ast.unparse(e.func.value):
                bad.append(e)
        res.add(f"labrea.option.Option.{name}:looked-up value never tested for truthiness", not bad, opt.module.relpath, fn.lineno,
                f"value names {sorted(vals)}" + (f"; truthiness use at line {bad[0].lineno}: {ast.unparse(bad[0])[:60]}" if bad else ""), nec)
        # presence decided by KeyError or dotted_key_exists
        if name in ("evaluate", "validate", "keys", "explain"):
            bodies = list(astu.reachable_self_methods(opt, [name]).values())
            uses_exists = any(astu.short_name(c) == "dotted_key_exists" for b in bodies for c in astu.calls_in(b))
            catches = any(isinstance(h, ast.ExceptHandler) and h.type is not None and "KeyError" in ast.unparse(h.type) for b in bodies for h in ast.walk(b))
            gets = [c for b in bodies for c in astu.calls_in(b) if astu.short_name(c) == "get" and isinstance(c.func, ast.Attribute) and "options" in ast.unparse(c.func.value)]
            ok = (uses_exists or catches) and not gets
            res.add(f"labrea.option.Option.{name}:presence decided by KeyError/dotted_key_exists", ok, opt.module.relpath, fn.lineno,
                    f"dotted_key_exists={uses_exists} except-KeyError={catches} options.get calls={len(gets)}", nec)
    return res


# ------------------------------------------------------------------ R-AB
def rule_AB(run: Run) -> RuleResult:
    res = RuleResult("R-AB")
    repo = run.repo
    opt = repo.cls("Option")
    nec = ("the default may be consulted only when the key is absent (and a default exists): an eager "
           "default runs a dataset body that is not needed (C06) and may fail although the key is present (C04)")
    for name in ("evaluate", "validate", "keys", "explain"):
        fn = opt.method(name)
        ps = run.paths(opt, name)
        n = 0
        ok = True
        detail = ""
        for p in ps:
            for e in p.events:
                if e.kind != "op" or not isinstance(e.target, Child) or e.target.path != "default":
                    continue
                if any(v.startswith("<self>.") for v in e.via) and name != "evaluate":
                    continue  # judged on Option.evaluate itself
                n += 1
                conds = p.conds[: e.ncond]
                absent = any(c[0].startswith("except KeyError") or c[0].startswith("except (KeyError") for c in conds) or \
                    cond_pol(conds, "call:confectioner.templating.dotted_key_exists(Child(key),options)") is False
                has_default = cond_pol(conds, "cmp:Is(Child(default),Const(MISSING))") is False
                # the absent branch must be entered by the failed lookup of the
                # option's own key only (not by a failed resolution of its value)
                idx = p.events.index(e)
                trig = [x for x in p.events[:idx] if x.failed]
                if name == "evaluate" and trig and not (trig[-1].kind == "call" and trig[-1].text.endswith("get_dotted_key")
                                                        and [a.key() for a in trig[-1].args[:2]] == ["Child(key)", "options"]):
                    ok = False
                    detail = (f"line {e.line}: the default is reached after a failure of `{trig[-1].text}` — only a failed "
                              f"get_dotted_key(self.key, options) means the key is absent")
                if not absent:
                    ok = False
                    detail = f"line {e.line}: {e.op} of the default is not confined to the key-absent branch"
                elif not has_default:
                    ok = False
                    detail = f"line {e.line}: {e.op} of the default is not guarded by `self.default is not MISSING`"
        res.count("default_ops", n)
        res.add(f"labrea.option.Option.{name}:default consulted only when absent and not MISSING", ok and n > 0, opt.module.relpath, fn.lineno,
                detail or f"{n} op events on self.default, all inside the absent branch behind the MISSING test", nec)
    return res


# ------------------------------------------------------------------ R-MP
def rule_MP(run: Run) -> RuleResult:
    res = RuleResult("R-MP")
    repo = run.repo
    opt = repo.cls("Option")
    f = opt.module.relpath
    fn = opt.method("evaluate")
    nec = ("every value an Option returns — provided or default — must pass the type request and the "
           "domain check; a value outside the declared domain is never returned (C04, C18)")
    ps = run.paths(opt, "evaluate")
    rets = normal(ps)
    if not rets:
        raise AnalysisError("Option.evaluate has no returning path")
    ok_t = ok_d = ok_v = True
    d_t = d_d = d_v = ""
    from .interp import Frame
    D_ = "Val(evaluate,Child(domain))"
    returned: Set[str] = set()
    for p in rets:
        r = p.ret
        tv = [e for e in p.events if e.kind == "call" and e.text == "new TypeValidationRequest"]
        run_tv = [e for e in p.events if e.kind == "call" and e.text == "run" and isinstance(e.target, Sym) and e.target.head == "new:TypeValidationRequest"]
        if not tv or not run_tv:
            ok_t = False
            d_t = "a returning path issues no TypeValidationRequest(...).run()"
        elif not any(e.args and e.args[0] == r and len(e.args) >= 3 and e.args[1] == Child("type") for e in tv):
            ok_t = False
            d_t = f"type request checks {tv[0].args[0].key()[:60]} but the path returns {r.key()[:60]}"
        # the domain, when there is one, is evaluated and consulted before the value is handed out
        dom_missing = cond_pol(p.conds, "cmp:Is(Child(domain),Const(MISSING))")
        dom_ops = [e for e in p.events if e.kind == "op" and e.op == "evaluate" and isinstance(e.target, Child) and e.target.path == "domain"]
        at = Frame.atoms(p.conds)
        if dom_missing is not True and not dom_ops:
            ok_d = False
            d_d = f"a returning path never evaluates the domain (conditions {[c[0] for c in p.conds][:4]})"
        elif dom_ops and not any(D_ in k_ for k_ in at):
            ok_d = False
            d_d = "a returning path evaluates the domain but never tests the value against it"
        if at.get(f"valuecall({D_},{r.key()})") is False or at.get(f"cmp:In({r.key()},{D_})") is False:
            ok_d = False
            d_d = "a path returns although the domain rejected the value"
        returned.add(r.key())
        # what is returned is the provided or the default value
        rk = r.key()
        if not (rk.startswith("call:confectioner.templating.resolve(call:confectioner.templating.get_dotted_key(Child(key),options),options)")
                or rk == "Val(evaluate,Child(default))"):
            ok_v = False
            d_v = f"a path returns {rk[:90]}"
    res.count("paths", len(ps))
    res.add("labrea.option.Option.evaluate:type request on the returned value", ok_t, f, fn.lineno, d_t or f"all {len(rets)} returning paths", nec)
    res.add("labrea.option.Option.evaluate:domain enforced on the returned value", ok_d, f, fn.lineno, d_d or f"all {len(rets)} returning paths", nec)
    res.add("labrea.option.Option.evaluate:returns resolve(get_dotted_key(self.key, options), options) or the default's value", ok_v, f, fn.lineno,
            d_v or "provided value resolved against the same options, else the evaluated default", nec)
    # a rejecting domain never lets a value out: for every form of returned value there is a failing path
    # for the callable kind of domain and one for the container kind
    saw_call, saw_in = set(), set()
    for p in ps:
        if p.status != "raise":
            continue
        at = Frame.atoms(p.conds)
        for rk in returned:
            if at.get(f"valuecall({D_},{rk})") is False and at.get(f"call:callable({D_})") is not False:
                saw_call.add(rk)
            if at.get(f"cmp:In({rk},{D_})") is False:
                saw_in.add(rk)
    res.add("labrea.option.Option._enforce_domain:callable domain consulted", bool(returned) and saw_call == returned, f, fn.lineno,
            "a value the predicate rejects makes evaluate() fail, for the provided and the default value" if saw_call == returned else f"no failing path for a rejected {sorted(returned - saw_call)[0][:60]}", nec)
    res.add("labrea.option.Option._enforce_domain:container domain consulted", bool(returned) and saw_in == returned, f, fn.lineno,
            "a value outside the container makes evaluate() fail, for the provided and the default value" if saw_in == returned else f"no failing path for {sorted(returned - saw_in)[0][:60]} outside the container", nec)
    # default normalisation: every path of __init__ assigns self.default exactly once
    init = opt.methods.get("__init__")
    if init is not None:
        ips = analyse_method(Ctx(repo), opt, "__init__")
        ok_i = True
        d_i = ""
        kinds = set()
        for p in ips:
            if p.status != "ret":
                continue
            stores = [e for e in p.events if e.kind == "store" and e.text == "self.default"]
            if len(stores) != 1:
                ok_i = False
                d_i = f"a path assigns self.default {len(stores)} times"
            else:
                kinds.add(stores[0].target.key().split(";")[0].split("(")[0] + ":" + (stores[0].target.cls.name if hasattr(stores[0].target, "cls") else stores[0].target.key()[:30]))
        want = {"New:Template", "New:FunctionApplication"}
        have = {k for k in kinds}
        ok_k = want <= have and any("MISSING" in k for k in have)
        res.add("labrea.option.Option.__init__:self.default assigned exactly once on every path", ok_i, f, init.lineno, d_i or f"forms: {sorted(kinds)}", nec)
        res.add("labrea.option.Option.__init__:default normalised to Template / ensure / FunctionApplication / MISSING", ok_k, f, init.lineno, f"forms: {sorted(kinds)}", nec)
    return res


def _picked_element(handler: ast.ExceptHandler, key: ast.expr, exc: str):
    """How the reported key is picked from the caught exception's arguments: (ok, why) when the expression is an element of
    a tuple display built around ``*exc.args`` (directly, or through ``first, *_ = (…)``), None for any other form."""
    def is_args(x):
        return isinstance(x, ast.Attribute) and x.attr == "args" and isinstance(x.value, ast.Name) and x.value.id == exc
    tup, idx = None, None
    if isinstance(key, ast.Subscript):
        try:
            iv = ast.literal_eval(key.slice)
        except Exception:
            iv = None
        if isinstance(iv, int):
            tup, idx = key.value, iv
    elif isinstance(key, ast.Name):
        for s_ in ast.walk(handler):
            if isinstance(s_, ast.Assign) and len(s_.targets) == 1 and isinstance(s_.targets[0], (ast.Tuple, ast.List)):
                elts = s_.targets[0].elts
                for i_, t_ in enumerate(elts):
                    if isinstance(t_, ast.Name) and t_.id == key.id:
                        if any(isinstance(x, ast.Starred) for x in elts[:i_]):
                            tup, idx = s_.value, i_ - len(elts)     # counted from the end
                        else:
                            tup, idx = s_.value, i_
            elif isinstance(s_, ast.Assign) and len(s_.targets) == 1 and isinstance(s_.targets[0], ast.Name) and s_.targets[0].id == key.id:
                return _picked_element(handler, s_.value, exc)
    if isinstance(key, ast.Subscript) and tup is None:
        return None
    if tup is None:
        return None
    if is_args(tup):
        return (idx == 0, f"element {idx} of {exc}.args")
    if isinstance(tup, ast.Tuple) and any(isinstance(x, ast.Starred) and is_args(x.value) for x in tup.elts):
        first_is_args = isinstance(tup.elts[0], ast.Starred) and is_args(tup.elts[0].value)
        if idx != 0:
            return (False, f"element {idx} of {ast.unparse(tup)} is not the missing key (the fall-back is picked even when the KeyError names the key)")
        if not first_is_args:
            return (False, f"{ast.unparse(tup)}[0] is the fall-back, never the key the KeyError names")
        return (True, "")
    return None


def _derived_from(block: ast.AST, seed: str) -> set:
    """Names of the block whose value is computed from ``seed`` (plain, tuple and starred assignment targets,
    walrus), to a fixed point."""
    derived = {seed}
    changed = True
    while changed:
        changed = False
        for s_ in ast.walk(block):
            tgts, val = [], None
            if isinstance(s_, ast.Assign):
                tgts, val = s_.targets, s_.value
            elif isinstance(s_, (ast.AnnAssign, ast.NamedExpr)) and s_.value is not None:
                tgts, val = [s_.target], s_.value
            if val is None or not any(astu.contains_name(val, d_) for d_ in derived):
                continue
            for t_ in tgts:
                for n_ in ast.walk(t_):
                    if isinstance(n_, ast.Name) and n_.id not in derived:
                        derived.add(n_.id)
                        changed = True
    return derived


# ------------------------------------------------------------------ R-KN
def rule_KN(run: Run) -> RuleResult:
    res = RuleResult("R-KN")
    repo = run.repo
    nec = "a missing option must be reported with its key and the object that needed it (C04, C12)"
    n = 0
    # every KeyNotFoundError the library builds — raised on the spot or returned by a private helper for the caller to raise —
    # names (a) the object that needed the option: `self` in an expression class, elsewhere a parameter / attribute declared as
    # an expression; (b) the key: the option's own key, or the key of the exception being translated (element 0 of its args)
    def _node_typed(e: ast.expr, fn_, cls_, mod_) -> bool:
        ann = None
        if isinstance(e, ast.Name):
            for a_ in fn_.args.posonlyargs + fn_.args.args + fn_.args.kwonlyargs:
                if a_.arg == e.id:
                    ann = a_.annotation
        elif isinstance(e, ast.Attribute) and isinstance(e.value, ast.Name) and e.value.id == "self" and cls_ is not None:
            for st in cls_.body if hasattr(cls_, "body") else []:
                if isinstance(st, ast.AnnAssign) and isinstance(st.target, ast.Name) and st.target.id == e.attr:
                    ann = st.annotation
                # … or the attribute is what __init__ stores from a parameter that is declared so (``self.source = source``)
                if ann is None and isinstance(st, ast.FunctionDef) and st.name == "__init__":
                    for as_ in ast.walk(st):
                        if isinstance(as_, ast.Assign) and len(as_.targets) == 1 and isinstance(as_.targets[0], ast.Attribute) and as_.targets[0].attr == e.attr \
                                and isinstance(as_.targets[0].value, ast.Name) and as_.targets[0].value.id == "self" and isinstance(as_.value, ast.Name):
                            for a_ in st.args.posonlyargs + st.args.args + st.args.kwonlyargs:
                                if a_.arg == as_.value.id and a_.annotation is not None:
                                    ann = a_.annotation
        if ann is None:
            return False
        txt = ann.value if isinstance(ann, ast.Constant) and isinstance(ann.value, str) else ast.unparse(ann)
        base = txt.split("[")[0].split(".")[-1]
        if base in ("Evaluatable", "Cacheable", "Validatable", "Explainable"):
            return True
        ci_ = next((c__ for c__ in repo.classes.values() if c__.name == base and not c__.module.name.startswith("labrea.mypy")), None)
        return ci_ is not None and ci_.is_subclass_of("Evaluatable")        # declared as one of the library's expression classes

    for m, cls, fn, q in iter_functions(repo):
        if m.name.startswith("labrea.mypy"):
            continue
        cls_info = repo.classes.get(f"{m.name}.{cls.name}") if cls is not None else None
        in_node_class = cls_info is not None and cls_info.is_subclass_of("Evaluatable")
        cls_node = cls if cls is None or hasattr(cls, "body") else getattr(cls, "node", None)
        pm_ = None
        for c_ in astu.walk_no_nested(fn):
            if not (isinstance(c_, ast.Call) and astu.short_name(c_) == "KeyNotFoundError"):
                continue
            if cls is not None and cls.name == "KeyNotFoundError":
                continue
            n += 1
            if pm_ is None:
                pm_ = astu.parent_map(fn)
            stmt = c_
            while id(stmt) in pm_ and not isinstance(stmt, ast.stmt):
                stmt = pm_[id(stmt)]
            a = c_.args
            detail_kn = ""
            ok = len(a) == 2 and ((ast.unparse(a[1]) == "self" and in_node_class) or (not in_node_class and _node_typed(a[1], fn, cls_node, m)))
            if not ok:
                detail_kn = "the source is not the expression that needed the option"
            h = _enclosing_handler(fn, c_)
            seeds = [h.name] if h is not None and h.name else []
            if not seeds:
                for a_ in fn.args.posonlyargs + fn.args.args + fn.args.kwonlyargs:
                    txt = ast.unparse(a_.annotation) if a_.annotation is not None else ""
                    if isinstance(a_.annotation, ast.Constant) and isinstance(a_.annotation.value, str):
                        txt = a_.annotation.value
                    if any(w in txt for w in ("KeyError", "KeyNotFoundError", "BaseException", "Exception")):
                        seeds.append(a_.arg)
            if not seeds and fn.name == "__exit__" and len(fn.args.posonlyargs + fn.args.args) >= 3:
                seeds.append((fn.args.posonlyargs + fn.args.args)[2].arg)        # the exception a context manager is leaving with
            if ok and cls is not None and cls.name == "Option" and not seeds:
                ok = ast.unparse(a[0]) == "self.key"
            elif ok:
                # translated from an exception (caught here, or handed in): key taken from it
                scope = h if h is not None else fn
                ok = bool(seeds) and any(astu.contains_name(a[0], d_) for s_ in seeds for d_ in _derived_from(scope, s_))
                if ok and isinstance(stmt, ast.Raise) and stmt.cause is None:
                    ok = False
                    detail_kn = "the translation is not chained to the exception it translates"
                if ok:
                    # the exception's own key when it has one, a fall-back otherwise: element 0 of (*e.args, fallback)
                    for s_ in seeds:
                        pick = _picked_element(scope, a[0], s_)
                        if pick is not None and not pick[0]:
                            ok = False
                            detail_kn = pick[1]
            res.add(f"{q}:raise KeyNotFoundError names key and source", ok, m.relpath, c_.lineno, (detail_kn + ": " if not ok and detail_kn else "") + ast.unparse(stmt)[:100], nec)
    if n < 4:
        raise AnalysisError(f"only {n} KeyNotFoundError raise sites found")
    # every construction of one of the library's error records (a raise of an EvaluationError / CacheFailure subclass, and the
    # super().__init__(…) inside their constructors) hands each parameter a value of its declared kind: an expression where
    # the source / evaluatable is expected, text where the message is, the options dictionary where the options are — swapped
    # arguments put the message into `.source`, the options into `.evaluatable`
    from .interp import annotation_kind, exc_is_subclass
    n_sites = 0

    def ann_kind(mod, ann) -> str:
        if ann is None:
            return "?"
        if isinstance(ann, ast.Constant) and isinstance(ann.value, str):
            try:
                ann = ast.parse(ann.value, mode="eval").body
            except SyntaxError:
                return "?"
        txt = ast.unparse(ann)
        if "Maybe" in txt or "Union" in txt or "Optional" in txt or txt in ("Any", "typing.Any", "object"):
            return "?"
        if annotation_kind(repo, mod, ann) == "node" or txt.split("[")[0].split(".")[-1] in ("Evaluatable", "Cacheable", "Validatable", "Explainable"):
            return "node"
        if any(w in txt for w in ("Evaluatable", "Cacheable", "Validatable", "Explainable")):
            return "?"          # a container of expressions
        if txt == "str":
            return "text"
        if txt.split(".")[-1] == "Options":
            return "options"
        if txt.split("[")[0].split(".")[-1] == "Cache":
            return "cache"
        if txt.split("[")[0].split(".")[-1] in ("Hashable", "int", "float", "bool", "Mapping", "Dict", "Sequence", "List", "Tuple"):
            return "plain"
        return "?"

    def error_class(ci) -> bool:
        return ci is not None and any(c.name in ("EvaluationError", "CacheFailure", "Request") or any(b.split(".")[-1] in ("Exception", "BaseException") for b in c.external_bases()) for c in ci.mro())

    ACCEPTS = {"node": {"node"}, "text": {"text"}, "options": {"options"}, "cache": {"cache"}, "plain": {"plain", "text"}}
    for m, cls, fn, q in iter_functions(repo):
        if m.name.startswith("labrea.mypy"):
            continue
        pann = {a.arg: a.annotation for a in fn.args.posonlyargs + fn.args.args + fn.args.kwonlyargs if a.annotation is not None}
        if cls is not None and not hasattr(cls, "mro"):
            cls = repo.classes.get(f"{m.name}.{cls.name}")

        def kind_of(e: ast.expr) -> str:
            if isinstance(e, (ast.JoinedStr,)) or (isinstance(e, ast.Constant) and isinstance(e.value, str)):
                return "text"
            if isinstance(e, ast.Call) and astu.short_name(e) in ("str", "repr", "format", "join"):
                return "text"
            if isinstance(e, ast.Name) and e.id in ("self", "cls") and cls is not None:
                if cls.is_subclass_of("Evaluatable"):
                    return "node"
                if cls.is_subclass_of("Cache"):
                    return "cache"
                return "?"
            if isinstance(e, ast.Name) and e.id in pann:
                return ann_kind(m, pann[e.id])
            if isinstance(e, ast.Attribute) and isinstance(e.value, ast.Name) and e.value.id == "self" and cls is not None:
                for kc in cls.mro():
                    if e.attr in kc.annotations:
                        return ann_kind(kc.module, kc.annotations[e.attr])
            if isinstance(e, ast.Attribute) and isinstance(e.value, ast.Name) and e.value.id in pann:
                # an attribute of a parameter whose annotation names a class of the repository (request.options, request.evaluatable)
                base = pann[e.value.id]
                while isinstance(base, ast.Subscript):
                    base = base.value
                oc = repo.resolve_class(m, base) if isinstance(base, (ast.Name, ast.Attribute)) else None
                if oc is not None:
                    for kc in oc.mro():
                        if e.attr in kc.annotations:
                            return ann_kind(kc.module, kc.annotations[e.attr])
            if isinstance(e, ast.Attribute) and e.attr in ("evaluatable", "validatable", "cacheable", "explainable"):
                return "node"
            return "?"

        for c_ in astu.walk_no_nested(fn):
            if not isinstance(c_, ast.Call):
                continue
            ec = None
            label = ""
            if isinstance(c_.func, ast.Attribute) and c_.func.attr == "__init__" and isinstance(c_.func.value, ast.Call) and astu.short_name(c_.func.value) == "super" \
                    and cls is not None and fn.name == "__init__" and error_class(cls):
                for kc in cls.mro()[1:]:
                    if "__init__" in kc.methods:
                        ec = kc
                        break
                label = f"super().__init__ of {cls.name}"
            elif isinstance(c_.func, (ast.Name, ast.Attribute)):
                ec0 = repo.resolve_class(m, c_.func)
                if error_class(ec0):
                    ec = ec0
                    label = f"{ec.name}(…)"
            if ec is None:
                continue
            init_r = ec.find_method("__init__")
            if init_r is None:
                continue
            iparams = (init_r[1].args.posonlyargs + init_r[1].args.args)[1:]
            bad = []
            # positional arguments line up with the parameters only up to the first *spread
            plain_args = []
            for a_ in c_.args:
                if isinstance(a_, ast.Starred):
                    break
                plain_args.append(a_)
            pairs = list(zip(plain_args, iparams)) + [(k.value, p_) for k in c_.keywords for p_ in iparams + init_r[1].args.kwonlyargs if k.arg == p_.arg]
            for a_, p_ in pairs:
                if isinstance(a_, ast.Starred) or p_.annotation is None:
                    continue
                want = ann_kind(init_r[0].module, p_.annotation)
                got = kind_of(a_)
                if want != "?" and got != "?" and got not in ACCEPTS[want]:
                    bad.append(f"parameter {p_.arg} ({ast.unparse(p_.annotation)}) receives {ast.unparse(a_)[:40]} (a {got})")
            n_sites += 1
            shown = ec.name if label.endswith("(…)") else label
            res.add(f"{q}:{'raise ' if not ec.is_subclass_of('Request') else ''}{shown} arguments match the constructor (source is a node, message is text)" if label.endswith("(…)") else
                    f"{q}:{label} arguments match the base constructor", not bad, m.relpath, c_.lineno,
                    "; ".join(bad) or ast.unparse(c_)[:80], nec)
    res.count("evaluation_error_raise_sites", n_sites)
    if n_sites < 15:
        raise AnalysisError(f"R-KN: only {n_sites} constructions of error records found")
    return res


def _enclosing_handler(fn, node):
    for h in ast.walk(fn):
        if isinstance(h, ast.ExceptHandler) and any(x is node for x in ast.walk(h)):
            return h
    return None


# ------------------------------------------------------------------ R-PU
MUTATORS = {"update", "setdefault", "pop", "popitem", "clear", "append", "extend", "insert", "remove", "sort", "__setitem__", "__delitem__"}
OPTION_ATTRS = {"options", "default_options"}


VALUE_MUTATORS = {"append", "extend", "insert", "sort", "reverse", "update", "add", "discard", "remove", "pop", "popitem", "clear", "setdefault",
                  "appendleft", "extendleft", "__setitem__", "__delitem__", "__iadd__", "__ior__"}
FRESH_MAKERS = {"list", "dict", "set", "tuple", "frozenset", "sorted", "copy", "deepcopy", "copy.copy", "copy.deepcopy", "OrderedDict", "defaultdict", "deque"}


def _own_store(fn, selfname: str, attr: str) -> bool:
    """A private attribute (one underscore) of the object: state of its own that no caller handed in and no result hands out."""
    return attr.startswith("_") and not attr.startswith("__")


def value_mutations(fn: ast.AST, is_method: bool) -> list:
    """(node, what) for every in-place change of an object the function did not create: a parameter, or the result of
    evaluating / transforming / retrieving something.  ``x += y`` counts: for a list it extends x in place."""
    a = fn.args
    params = [x.arg for x in a.posonlyargs + a.args + a.kwonlyargs] + ([a.vararg.arg] if a.vararg else []) + ([a.kwarg.arg] if a.kwarg else [])
    selfname = params[0] if is_method and params else "self"
    if is_method and params:
        params = params[1:]
    foreign = {p: 0 for p in params}       # name -> line from which it denotes a foreign object
    fresh_at = {}
    for n in astu.walk_no_nested(fn):
        if isinstance(n, (ast.Assign, ast.AnnAssign)) and n.value is not None:
            tg = n.targets[0] if isinstance(n, ast.Assign) and len(n.targets) == 1 else getattr(n, "target", None)
            if not isinstance(tg, ast.Name):
                continue
            v = n.value
            if isinstance(v, ast.Call) and isinstance(v.func, ast.Attribute) and v.func.attr in ("evaluate", "transform", "get") and (v.args or v.keywords):
                foreign.setdefault(tg.id, n.lineno)
            elif is_method and isinstance(v, ast.Attribute) and isinstance(v.value, ast.Name) and v.value.id == selfname and fn.name not in ("__init__", "__setstate__") \
                    and not _own_store(fn, selfname, v.attr):
                # a plain alias of one of the object's own collections: changing it in place changes the object (unless the attribute is the
                # object's private store, which nothing but its own methods ever sees: ``store = self._cache; store[key] = value``)
                foreign.setdefault(tg.id, n.lineno)
            elif isinstance(v, (ast.List, ast.Dict, ast.Set, ast.ListComp, ast.DictComp, ast.SetComp, ast.Tuple)) or (
                    isinstance(v, ast.Call) and astu.callee_name(v) in FRESH_MAKERS):
                fresh_at[tg.id] = min(fresh_at.get(tg.id, 10 ** 9), n.lineno)
    out = []

    def is_foreign(name: str, line: int) -> bool:
        return name in foreign and line >= foreign[name] and not (name in fresh_at and fresh_at[name] <= line)
    for n in astu.walk_no_nested(fn):
        if isinstance(n, ast.AugAssign) and isinstance(n.target, ast.Name) and is_foreign(n.target.id, n.lineno) \
                and isinstance(n.op, (ast.Add, ast.BitOr, ast.BitAnd, ast.Sub, ast.BitXor, ast.Mult)):
            out.append((n, f"`{n.target.id} {ast.unparse(n)[len(n.target.id):].strip()[:20]}` changes {n.target.id} in place when it is a list, set or dict"))
        if isinstance(n, (ast.Assign, ast.AugAssign, ast.Delete)):
            for t in (n.targets if isinstance(n, (ast.Assign, ast.Delete)) else [n.target]):
                if isinstance(t, ast.Subscript) and isinstance(t.value, ast.Name) and is_foreign(t.value.id, n.lineno):
                    out.append((n, f"item store/delete on {t.value.id}"))
        if isinstance(n, ast.Call) and isinstance(n.func, ast.Attribute) and n.func.attr in VALUE_MUTATORS and isinstance(n.func.value, ast.Name) \
                and is_foreign(n.func.value.id, n.lineno):
            out.append((n, f"{ast.unparse(n.func)}(…) changes {n.func.value.id} in place"))
    return out


def rule_VM(run: Run) -> RuleResult:
    """Values are handed on, never changed in place."""
    res = RuleResult("R-VM")
    repo = run.repo
    nec = ("a value that reaches a function as an argument, or comes out of evaluate()/transform()/a cache, may be the very object a cache "
           "holds or a caller still uses: changing it in place (x += …, x.append(…), x[k] = …) changes what later evaluations return "
           "(C01, C13) and what the caller sees (C08)")
    probe = ast.parse("def f(x, i):\n    if isinstance(x, list):\n        x += i\n        return x\n    return x\n").body[0]
    if not value_mutations(probe, False):
        raise AnalysisError("R-VM: the in-place-mutation detector no longer sees its positive example")
    EXEMPT = {"__new__": "the class namespace a metaclass receives is its to fill", "__prepare__": "builds the class namespace",
              "__setstate__": "restores the object's own state", "__init_subclass__": "class construction"}
    n = 0
    for m, cls, fn, q in iter_functions(repo):
        if m.name.startswith("labrea.mypy") or isinstance(fn, ast.Lambda):
            continue
        n += 1
        is_method = cls is not None and not any(ast.unparse(d) == "staticmethod" for d in fn.decorator_list)
        hits = value_mutations(fn, is_method)
        if fn.name in EXEMPT:
            hits = []
        # option dictionaries are R-PU's business (it knows which ones the function allocated)
        hits = [(x, why) for x, why in hits if not any(w in why for w in (" options", "default_options"))]
        if hits:
            for x, why in hits:
                res.add(f"{q}:changes a value it did not create", False, m.relpath, x.lineno, why, nec)
    for m in repo.modules.values():
        if m.name.startswith("labrea.mypy"):
            continue
        bad = [o for o in res.obligations if not o.ok and o.file == m.relpath]
        res.add(f"{m.name}:no function changes a foreign value in place", not bad, m.relpath, 1,
                "parameters and evaluated values are only read, copied or re-bound" if not bad else f"{len(bad)} in-place change(s)", nec)
    res.count("functions", n)
    return res


def rule_PU(run: Run) -> RuleResult:
    res = RuleResult("R-PU")
    repo = run.repo
    nec = "evaluation, validation and key inspection never modify the caller's or the pre-set dictionaries (C08, C04 Option.set)"
    n_funcs = 0
    for m, cls, fn, q in iter_functions(repo):
        if m.name.startswith("labrea.mypy"):
            continue
        tainted: Set[str] = set()
        for a in fn.args.posonlyargs + fn.args.args + fn.args.kwonlyargs:
            ann = ast.unparse(a.annotation) if a.annotation is not None else ""
            if a.arg in ("options", "default_options") or "Options" in ann:
                tainted.add(a.arg)
        # aliases: x = options / options or {} / self.options
        fresh: Set[str] = set()
        for n in astu.walk_no_nested(fn):
            if isinstance(n, (ast.Assign, ast.AnnAssign)) and n.value is not None:
                tg = n.targets[0] if isinstance(n, ast.Assign) else n.target
                if not isinstance(tg, ast.Name):
                    continue
                v = n.value
                base = v.values[0] if isinstance(v, ast.BoolOp) and isinstance(v.op, ast.Or) else v
                if (isinstance(base, ast.Name) and base.id in tainted) or (isinstance(base, ast.Attribute) and base.attr in OPTION_ATTRS):
                    tainted.add(tg.id)
                elif isinstance(v, (ast.Dict, ast.DictComp)) or (isinstance(v, ast.Call) and astu.short_name(v) in ("dict", "mix", "deepcopy", "copy")):
                    if tg.id in tainted and not any(isinstance(a2, ast.arg) and a2.arg == tg.id for a2 in fn.args.args):
                        tainted.discard(tg.id)
                    fresh.add(tg.id)
        params = {a.arg for a in fn.args.posonlyargs + fn.args.args + fn.args.kwonlyargs}
        tainted = {t for t in tainted if not (t in fresh and t not in params)}
        # a shallow copy of an options dictionary (dict(o), o.copy(), {**o}) still shares every nested section with it:
        # writing a dotted key into the copy, or storing below its first level, writes into the original
        shallow: Set[str] = set()
        for n in astu.walk_no_nested(fn):
            if isinstance(n, (ast.Assign, ast.AnnAssign)) and n.value is not None:
                tg = n.targets[0] if isinstance(n, ast.Assign) else n.target
                v = n.value
                src = None
                if isinstance(v, ast.Call) and astu.short_name(v) == "dict" and len(v.args) == 1 and not v.keywords:
                    src = v.args[0]
                elif isinstance(v, ast.Call) and isinstance(v.func, ast.Attribute) and v.func.attr == "copy" and not v.args:
                    src = v.func.value
                elif isinstance(v, ast.Dict) and len(v.keys) >= 1 and v.keys[0] is None:
                    src = v.values[0]
                if isinstance(tg, ast.Name) and src is not None and ((isinstance(src, ast.Name) and (src.id in tainted or src.id in params and "option" in src.id.lower()))
                                                                     or (isinstance(src, ast.Attribute) and src.attr in OPTION_ATTRS)
                                                                     or (isinstance(src, ast.Name) and src.id in params and any(
                                                                         a2.arg == src.id and a2.annotation is not None and "Options" in ast.unparse(a2.annotation)
                                                                         for a2 in fn.args.posonlyargs + fn.args.args + fn.args.kwonlyargs))):
                    shallow.add(tg.id)
        shallow_bad = []
        for n in astu.walk_no_nested(fn):
            if isinstance(n, ast.Call) and astu.short_name(n) == "set_dotted_key" and len(n.args) >= 3 and isinstance(n.args[2], ast.Name) and n.args[2].id in shallow:
                shallow_bad.append((n, f"set_dotted_key writes a dotted key into {n.args[2].id}, a shallow copy: the nested sections it descends into are the original's"))
            if isinstance(n, (ast.Assign, ast.AugAssign)):
                for t in (n.targets if isinstance(n, ast.Assign) else [n.target]):
                    if isinstance(t, ast.Subscript) and isinstance(t.value, ast.Subscript) and isinstance(t.value.value, ast.Name) and t.value.value.id in shallow:
                        shallow_bad.append((n, f"nested item store into {t.value.value.id}, a shallow copy: the section stored into is the original's"))
        for n, why in shallow_bad:
            res.add(f"{q}:{why.split(',')[0]}", False, m.relpath, n.lineno, why, nec)

        def is_opt(e) -> bool:
            if isinstance(e, ast.Name):
                return e.id in tainted
            if isinstance(e, ast.Attribute) and e.attr in OPTION_ATTRS:
                return True
            if isinstance(e, ast.Subscript):
                return is_opt(e.value)
            return False

        if not tainted and not any(isinstance(x, ast.Attribute) and x.attr in OPTION_ATTRS for x in ast.walk(fn)):
            continue
        n_funcs += 1
        bad = []
        for n in astu.walk_no_nested(fn):
            if isinstance(n, (ast.Assign, ast.AugAssign, ast.Delete)):
                tgts = n.targets if isinstance(n, (ast.Assign, ast.Delete)) else [n.target]
                for t in tgts:
                    if isinstance(t, ast.Subscript) and is_opt(t.value):
                        bad.append((n, f"item store into {ast.unparse(t.value)}"))
                    if isinstance(n, ast.AugAssign) and is_opt(t):
                        bad.append((n, f"augmented assignment to {ast.unparse(t)}"))
            if isinstance(n, ast.Call):
                if isinstance(n.func, ast.Attribute) and n.func.attr in MUTATORS and is_opt(n.func.value):
                    bad.append((n, f"{ast.unparse(n.func)} mutates an options dictionary"))
                if astu.short_name(n) == "set_dotted_key" and len(n.args) >= 3 and is_opt(n.args[2]):
                    bad.append((n, f"set_dotted_key writes into {ast.unparse(n.args[2])}"))
        if bad:
            for n, why in bad:
                res.add(f"{q}:{why}", False, m.relpath, n.lineno, ast.unparse(n)[:100], nec)
        else:
            res.add(f"{q}:options never mutated", True, m.relpath, fn.lineno, f"options-typed names {sorted(tainted)}", nec)
    res.count("functions", n_funcs)
    # Option.set: writes only into a dictionary allocated in the function and returns mix(options, new)
    opt = repo.cls("Option")
    st = opt.methods.get("set")
    if st is None:
        raise AnalysisError("Option.set not found")
    # read off the returned term (whatever private helper builds the one-entry dictionary): mix(<caller's options>, <a dictionary of the
    # function's own holding exactly the entry key -> value, set by dotted key>)
    from .interp import analyse_function as _af
    sps = [p for p in _af(Ctx(repo), opt.module, st, cls=opt) if p.status == "ret"]
    pn_ = astu.param_names(st)
    want_ = f"call:confectioner.mix({pn_[0]},dict(dotted-item(attr:key(self),{pn_[1]})))" if len(pn_) >= 2 else ""
    ok = bool(sps) and bool(want_) and all(p.ret is not None and p.ret.key() == want_ for p in sps)
    detail = "; ".join(sorted({p.ret.key()[:120] if p.ret is not None else "None" for p in sps}))
    res.add("labrea.option.Option.set:returns mix(options, {key: value}) built in a fresh dictionary", ok, opt.module.relpath, st.lineno, detail, nec)
    return res


# ------------------------------------------------------------------ R-DK
def rule_DK(run: Run) -> RuleResult:
    res = RuleResult("R-DK")
    repo = run.repo
    nec = ("option keys are dotted paths: looking one up with Mapping.get / [] / `in` silently misses "
           "nested keys (dataset class equality ignores nested options)")
    n = 0
    for m, cls, fn, q in iter_functions(repo):
        if m.name.startswith("labrea.mypy"):
            continue
        optnames: Set[str] = set()
        for a in fn.args.posonlyargs + fn.args.args + fn.args.kwonlyargs:
            ann = ast.unparse(a.annotation) if a.annotation is not None else ""
            if a.arg in ("options",) or "Options" in ann:
                optnames.add(a.arg)
        if not optnames:
            continue
        keyvars: Set[str] = set()

        def is_key_source(e) -> bool:
            for c in astu.calls_in(e):
                nm = astu.short_name(c)
                if nm in ("keys", "explain") and isinstance(c.func, ast.Attribute) and len(c.args) + len(c.keywords) >= 1:
                    return True
                if nm == "find_template_keys":
                    return True
            return False

        for x in astu.walk_no_nested(fn):
            if isinstance(x, (ast.For, ast.comprehension)) and is_key_source(x.iter):
                for t in ast.walk(x.target):
                    if isinstance(t, ast.Name):
                        keyvars.add(t.id)
        def is_key(e) -> bool:
            if isinstance(e, ast.Name) and e.id in keyvars:
                return True
            if isinstance(e, ast.Attribute) and e.attr in ("key", "_key") and isinstance(e.value, ast.Name) and e.value.id == "self":
                return True
            return False

        sites = []
        for x in astu.walk_no_nested(fn):
            if isinstance(x, ast.Call) and isinstance(x.func, ast.Attribute) and x.func.attr in ("get", "__getitem__", "__contains__", "pop") \
                    and isinstance(x.func.value, ast.Name) and x.func.value.id in optnames and x.args and is_key(x.args[0]):
                sites.append((x, f"{ast.unparse(x.func)}({ast.unparse(x.args[0])})"))
            if isinstance(x, ast.Subscript) and isinstance(x.value, ast.Name) and x.value.id in optnames and is_key(x.slice):
                sites.append((x, ast.unparse(x)))
            if isinstance(x, ast.Compare) and len(x.ops) == 1 and isinstance(x.ops[0], (ast.In, ast.NotIn)) and isinstance(x.comparators[0], ast.Name) \
                    and x.comparators[0].id in optnames and is_key(x.left):
                sites.append((x, ast.unparse(x)))
        dotted = [c for c in astu.calls_in(fn) if astu.short_name(c) in ("get_dotted_key", "dotted_key_exists") and c.args and is_key(c.args[0])]
        if keyvars or sites or dotted:
            n += 1
            if sites:
                for x, why in sites:
                    res.add(f"{q}:dotted key looked up with {why.split('(')[0].split('[')[0]}", False, m.relpath, x.lineno, why, nec)
            else:
                res.add(f"{q}:dotted keys only through dotted accessors", True, m.relpath, fn.lineno,
                        f"key variables {sorted(keyvars)}; {len(dotted)} dotted accessor calls", nec)
    res.count("functions", n)
    if n < 5:
        raise AnalysisError(f"R-DK found only {n} functions handling option keys")
    return res


# ------------------------------------------------------------------ R-PO
def _eval_formula(e: ast.expr, env: Dict[str, bool]) -> bool:
    if isinstance(e, ast.UnaryOp) and isinstance(e.op, ast.Not):
        return not _eval_formula(e.operand, env)
    if isinstance(e, ast.BoolOp):
        vals = [_eval_formula(v, env) for v in e.values]
        return all(vals) if isinstance(e.op, ast.And) else any(vals)
    return env[ast.unparse(e)]


def _atoms(e: ast.expr, out: List[str]):
    if isinstance(e, ast.UnaryOp) and isinstance(e.op, ast.Not):
        _atoms(e.operand, out)
    elif isinstance(e, ast.BoolOp):
        for v in e.values:
            _atoms(v, out)
    else:
        t = ast.unparse(e)
        if t not in out:
            out.append(t)


def rule_PO(run: Run) -> RuleResult:
    res = RuleResult("R-PO")
    repo = run.repo
    nec = ("keys() must report only keys present in the caller's options: fingerprint() looks each one up "
           "and raises KeyError for a reported-but-absent key (C03)")
    # (1) no keys() path returns None; literal key sets are guarded by presence
    for cls in run.node_classes():
        owner, fn = cls.find_method("keys")
        ps = normal(run.paths(cls, "keys"))
        none_ret = [p for p in ps if isinstance(p.ret, Const) and p.ret.v is None]
        res.add(f"{cls.qualname}.keys:every returning path returns a set", not none_ret, owner.module.relpath, fn.lineno,
                f"{len(ps)} returning paths" if not none_ret else "a path falls off the end (returns None)", nec)
        if owner is not cls:
            continue
        # literal keys (a set/list display holding an attribute or a constant) are reported only on paths that
        # established their presence in the caller's options
        from .interp import Frame as _Frame
        from .terms import Seq as _Seq
        optp_ = astu.param_names(fn)[0]

        def literal_keys(t, out):
            if isinstance(t, _Seq):
                for it in t.items:
                    if isinstance(it, Child) or (isinstance(it, Const) and isinstance(it.v, str)):
                        out.append(it)
                    else:
                        literal_keys(it, out)
            elif isinstance(t, Sym):
                for a_ in t.args:
                    literal_keys(a_, out)
            elif isinstance(t, Coll):
                literal_keys(t.elem, out)
            return out

        seen_lit = {}
        for p in ps:
            at_ = _Frame.atoms(p.conds)
            for lk in literal_keys(p.ret, []):
                guarded = at_.get(f"call:confectioner.templating.dotted_key_exists({lk.key()},{optp_})") is True
                k_ = lk.key()
                seen_lit[k_] = seen_lit.get(k_, True) and guarded
        for k_, guarded in sorted(seen_lit.items()):
            shown_ = k_.replace("Child(", "self.").rstrip(")") if k_.startswith("Child(") else k_
            res.add(f"{cls.qualname}.keys:literal key {shown_} reported only when present", guarded, owner.module.relpath, fn.lineno,
                    f"{{{shown_}}} " + ("only on paths that established" if guarded else "also on a path that did not establish") + f" dotted_key_exists({shown_}, options)", nec)
        # explain() names the keys a part would read whether they are there or not: what it answers is no part of keys(), unless each key
        # was tested for presence in the caller's options
        from_explain = []
        for p in ps:
            rk_ = p.ret.key() if p.ret is not None else ""
            if "Val(explain," not in rk_:
                continue
            tested = rk_.count("Val(explain,") == rk_.count("elem(Val(explain,") and any(
                e.kind == "filter" and e.target is not None and "dotted_key_exists(elem(Val(explain," in e.target.key() and e.target.key().rstrip(")").endswith("," + optp_) for e in p.events)
            if not tested:
                from_explain.append(rk_[:100])
        if from_explain or any("Val(explain," in (p.ret.key() if p.ret is not None else "") for p in ps):
            res.add(f"{cls.qualname}.keys:reports nothing taken from explain() untested", not from_explain, owner.module.relpath, fn.lineno,
                    f"returns {from_explain[0]}: explain() also lists keys that are absent from the options" if from_explain else "every key taken from explain() is tested with dotted_key_exists", nec)
        for n in astu.walk_no_nested(fn):
            if isinstance(n, ast.Call) and astu.short_name(n) == "set" and n.args:
                a = ast.unparse(n.args[0])
                ok = a == f"{astu.param_names(fn)[0]}.keys()"
                # set(part.keys(options)): a copy of what a part reports (a set of present keys by the same rule)
                a0_ = n.args[0]
                if not ok and isinstance(a0_, ast.Call) and isinstance(a0_.func, ast.Attribute) and a0_.func.attr == "keys" and len(a0_.args) == 1 \
                        and astu.norm_opts(a0_.args[0]) == astu.param_names(fn)[0] and astu.is_self_attr(a0_.func.value):
                    ok = True
                res.add(f"{cls.qualname}.keys:set({a}) is a set of present keys", ok, owner.module.relpath, n.lineno, a, nec)
    # (2) WithOptions filter, on all assignments of its atoms:
    #       kept and (P or C) => C                            (only keys present in the caller's options are reported)
    #       C and not (P and F and not merged) => kept        (a key whose value the caller decides is reported)
    # with P = in the pre-set options, C = in the caller's options, F = force, and merged = "both the pre-set and the caller's value
    # under the key are sections (dict)": confectioner.mix() does not replace a section by a forced section, it merges the two entry by
    # entry, so the caller's entries stay visible to whatever reads the section.  The filter is read off the interpreter's paths (the
    # test under which an inner key is kept), so helpers and local names are already substituted and the path's own decisions
    # (self.force) are known.
    from .facts import bool_atoms, eval_bool
    from .interp import Frame
    wo = repo.cls("WithOptions")
    for op in ("keys", "explain"):
        fn = wo.find_method(op)[1]
        optp = astu.param_names(fn)[0]
        EL = f"elem(Val({op},Child(evaluatable)))"
        P = f"call:confectioner.templating.dotted_key_exists({EL},Child(options))"
        C = f"call:confectioner.templating.dotted_key_exists({EL},{optp})"
        F = "Child(force)"
        GP = f"call:confectioner.templating.get_dotted_key({EL},Child(options))"
        GC = f"call:confectioner.templating.get_dotted_key({EL},{optp})"
        GM = f"call:confectioner.templating.get_dotted_key({EL},call:confectioner.mix({optp},Child(options)))"

        def role(atom: str) -> str:
            """P / C / F, MP / MC (the pre-set / the caller's value is a section) or EQ (what the wrapped object finds under the key is the
            pre-set value: nothing of the caller's shows through), '' for anything else."""
            if atom in (P, C, F):
                return {P: "P", C: "C", F: "F"}[atom]
            for g_, r_ in ((GP, "MP"), (GC, "MC")):
                if atom.startswith(f"call:isinstance({g_},") and "dict" in atom[len(f"call:isinstance({g_},"):]:
                    return r_
            if atom in (f"cmp:Eq({GM},{GP})", f"cmp:Eq({GP},{GM})"):
                return "EQ"
            return ""

        def merged(asg) -> Optional[bool]:
            """True / False / None (undecided) — whether the caller's entries merge into the pre-set section under this assignment."""
            if asg.get("EQ") is not None:
                return not asg["EQ"]
            if asg.get("MP") is False or asg.get("MC") is False or asg.get("C") is False or asg.get("P") is False:
                return False
            if asg.get("MP") is True and asg.get("MC") is True:
                return True
            return None

        def consistent(asg) -> bool:
            if asg.get("MP") and asg.get("P") is False:
                return False        # a value that is a section is there
            if asg.get("MC") and asg.get("C") is False:
                return False
            if asg.get("EQ") is False and (asg.get("C") is False or asg.get("P") is False or asg.get("F") is False):
                return False        # without the caller's entry (or without forcing) the pre-set value is what is found
            return True

        bad: List[str] = []
        n_filters = 0
        shown = ""
        for p_ in normal(run.paths(wo, op)):
            flt = [e for e in p_.events if e.kind == "filter" and e.args and e.args[0].key() == EL]
            known = {}
            for k_, v_ in Frame.atoms(p_.conds).items():
                if role(k_):
                    known[role(k_)] = v_
            if not flt:
                if "P" not in known and "C" not in known:
                    if isinstance(p_.ret, Coll) or EL in p_.ret.key():
                        bad.append("a path returns the inner keys without filtering the pre-set ones")
                    elif f"Val({op},Child(evaluatable))" in p_.ret.key() and Frame.atoms(p_.conds).get("Child(options)") is not False:
                        # what the wrapped object reported is handed back as it is: right only when nothing is pre-set at all
                        bad.append("a path returns what the wrapped object reported unfiltered although something may be pre-set "
                                   f"(conditions {[c_[0][:40] for c_ in p_.conds]})")
                    continue
                # an explicit loop: the path's own decisions say whether this key was kept
                n_filters += 1
                kept = EL in p_.ret.key()
                shown = shown or "explicit loop over the inner keys"
                for pv, cv, fv in itertools.product([False, True], repeat=3):
                    asg = dict(known)
                    asg.update({"P": pv, "C": cv, "F": fv})
                    if any(asg[k] != v for k, v in known.items()) or not consistent(asg):
                        continue
                    mg = merged(asg)
                    # the path must have decided everything the verdict depends on
                    if kept and (pv or cv) and not cv and ("C" in known or "P" not in known or known.get("P")):
                        bad.append(f"kept although absent from the caller's options (pre-set={pv}, caller={cv}, force={fv})")
                    if cv and not (pv and fv) and not kept and "C" in known and ("P" in known) and (not pv or "F" in known):
                        bad.append(f"dropped although the caller's value decides it (pre-set={pv}, caller={cv}, force={fv})")
                    if cv and pv and fv and not kept and mg is not False and {"C", "P", "F"} <= set(known):
                        bad.append("dropped although the caller's entries are merged into the forced pre-set section (pre-set=True, caller=True, force=True, both sections)")
                continue
            n_filters += len(flt)
            atoms_: List[str] = []
            for e in flt:
                bool_atoms(e.target, atoms_)
            shown = " and ".join(e.text for e in flt)
            unknown = [a_ for a_ in atoms_ if not role(a_)]
            if unknown:
                bad.append(f"filter uses unrecognised atoms {[u[:80] for u in unknown]}")
                continue
            roles_used = sorted({role(a_) for a_ in atoms_} | set(known) | {"P", "C", "F"})
            by_role = {}
            for a_ in list(atoms_) + [P, C, F]:
                by_role.setdefault(role(a_), []).append(a_)
            for vals_ in itertools.product([False, True], repeat=len(roles_used)):
                asg = dict(zip(roles_used, vals_))
                if any(asg[k] != v for k, v in known.items()) or not consistent(asg):
                    continue
                term_asg = {a_: asg[r_] for r_, as_ in by_role.items() for a_ in as_}
                vals = [eval_bool(e.target, term_asg) for e in flt]
                kept = all(v is True for v in vals)
                pv, cv, fv = asg["P"], asg["C"], asg["F"]
                mg = merged(asg)
                # inner keys are present in the mixed options: P or C
                if kept and (pv or cv) and not cv:
                    bad.append(f"kept although absent from the caller's options (pre-set={pv}, caller={cv}, force={fv})")
                # a key the caller's value decides must be kept: C and not (P and F)
                if cv and not (pv and fv) and not kept:
                    bad.append(f"dropped although the caller's value decides it (pre-set={pv}, caller={cv}, force={fv})")
                # ... and so must a forced pre-set section into which the caller's section is merged
                if cv and pv and fv and not kept and mg is not False:
                    bad.append("dropped although the caller's entries are merged into the forced pre-set section (pre-set=True, caller=True, force=True, both sections)")
        if n_filters == 0 and not bad:
            bad.append("no filter over the inner keys found")
        res.add(f"labrea.option.WithOptions.{op}:pre-set keys filtered", not bad, wo.module.relpath, fn.lineno,
                f"filter `{shown}` checked on the assignments of (in pre-set, in caller, force, pre-set is a section, caller's is a section) compatible with each path"
                + (f"; failing: {sorted(set(bad))[:3]}" if bad else ""),
                nec + "; and a key whose value the caller decides must not be dropped (stale cache hit, C01) — including a forced pre-set section, which "
                "confectioner.mix() merges with the caller's section entry by entry instead of replacing it")
    # (how the two dictionaries are combined — confectioner.mix with its default, merging treatment of sections — is R-MX's obligation)
    # -- a function that asks ``dotted_key_exists(key, d)`` before it looks a key up looks it up in the dictionary it asked: every
    # ``get_dotted_key(key, d)`` of such a function is covered by a presence test of the same key in the same dictionary (an enclosing
    # ``if``, an earlier operand of the same ``and``, an early exit on absence) or sits in a ``try`` that catches KeyError
    n_lk = 0
    for m, cls, fn, q in iter_functions(repo):
        if m.name.startswith("labrea.mypy"):
            continue
        own = [x for x in astu.walk_no_nested(fn)]
        gets = [x for x in own if isinstance(x, ast.Call) and astu.callee_name(x).split(".")[-1] == "get_dotted_key" and len(x.args) >= 2]
        asks = [x for x in own if isinstance(x, ast.Call) and astu.callee_name(x).split(".")[-1] == "dotted_key_exists" and len(x.args) >= 2]
        if not gets or not asks:
            continue
        amap_ = astu.single_assign_map(fn)
        pm_ = astu.parent_map(fn)

        def sig(c_):
            return tuple(ast.unparse(astu.expand_locals(a_, amap_)) for a_ in c_.args[:2])

        def positive(test, want) -> bool:
            """The test, when true, establishes dotted_key_exists(*want)."""
            if isinstance(test, ast.Call) and test in asks:
                return sig(test) == want
            if isinstance(test, ast.BoolOp) and isinstance(test.op, ast.And):
                return any(positive(v_, want) for v_ in test.values)
            return False

        def negative(test, want) -> bool:
            """The test, when true, establishes that the key is absent (``not dotted_key_exists(...)``, possibly or-ed with more)."""
            if isinstance(test, ast.UnaryOp) and isinstance(test.op, ast.Not):
                return positive(test.operand, want) and not isinstance(test.operand, ast.BoolOp)
            return False
        def other_dict(test, want) -> bool:
            """The test, when true, establishes the presence of the same key in ANOTHER dictionary."""
            if isinstance(test, ast.Call) and test in asks:
                return sig(test)[0] == want[0] and sig(test)[1] != want[1]
            if isinstance(test, ast.BoolOp) and isinstance(test.op, ast.And):
                return any(other_dict(v_, want) for v_ in test.values)
            return False
        for g in gets:
            if not isinstance(astu.expand_locals(g.args[1], amap_), (ast.Name, ast.Attribute)):
                continue        # looked up in a dictionary computed on the spot (the mix of two): what it holds is not decided here
            want = sig(g)
            # judged are the look-ups that sit directly behind a presence test of their key in another dictionary (the earlier operand of
            # the same ``and``, the test of the enclosing ``if``): there the function shows what it means to ask, and asks the wrong one
            wrong_guard = False
            cur0 = g
            while id(cur0) in pm_:
                up0 = pm_[id(cur0)]
                if isinstance(up0, ast.BoolOp) and isinstance(up0.op, ast.And):
                    i0 = next(i for i, v_ in enumerate(up0.values) if v_ is cur0)
                    wrong_guard = wrong_guard or any(other_dict(v_, want) for v_ in up0.values[:i0])
                elif isinstance(up0, (ast.If, ast.IfExp)) and any(cur0 is b_ for b_ in (up0.body if isinstance(up0.body, list) else [up0.body])):
                    wrong_guard = wrong_guard or other_dict(up0.test, want)
                cur0 = up0
            if not wrong_guard:
                continue
            n_lk += 1
            covered = False
            cur = g
            while id(cur) in pm_ and not covered:
                up = pm_[id(cur)]
                if isinstance(up, ast.BoolOp) and isinstance(up.op, ast.And):
                    i_ = next(i for i, v_ in enumerate(up.values) if v_ is cur)
                    covered = any(positive(v_, want) for v_ in up.values[:i_])
                elif isinstance(up, ast.BoolOp) and isinstance(up.op, ast.Or):
                    # a later operand of ``or`` is evaluated only when the earlier ones were false: ``not exists(k, d) or <here>``
                    i_ = next(i for i, v_ in enumerate(up.values) if v_ is cur)
                    covered = any(negative(v_, want) for v_ in up.values[:i_])
                elif isinstance(up, (ast.If, ast.IfExp)):
                    body = up.body if isinstance(up.body, list) else [up.body]
                    orelse = up.orelse if isinstance(up.orelse, list) else [up.orelse]
                    if any(cur is b_ for b_ in body):
                        covered = positive(up.test, want)
                    elif any(cur is b_ for b_ in orelse):
                        covered = negative(up.test, want)
                elif isinstance(up, ast.Try) and any(cur is b_ for b_ in up.body):
                    covered = any(h_.type is None or any(w in ast.unparse(h_.type) for w in ("KeyError", "LookupError", "Exception")) for h_ in up.handlers)
                elif isinstance(up, ast.comprehension) or isinstance(up, (ast.ListComp, ast.SetComp, ast.GeneratorExp, ast.DictComp)):
                    gens = up.generators if not isinstance(up, ast.comprehension) else [up]
                    covered = any(positive(c_, want) for g_ in gens for c_ in g_.ifs)
                # an early exit on absence in a statement list before this one
                for fld in ("body", "orelse", "finalbody"):
                    blk = getattr(up, fld, None)
                    if isinstance(blk, list) and any(cur is b_ for b_ in blk):
                        for prev in blk[:next(i for i, b_ in enumerate(blk) if b_ is cur)]:
                            if isinstance(prev, ast.If) and negative(prev.test, want) and prev.body and isinstance(prev.body[-1], (ast.Return, ast.Raise, ast.Continue)):
                                covered = True
                cur = up
            res.add(f"{q}:get_dotted_key({', '.join(want)}) covered by a presence test of the same key in the same dictionary", covered, m.relpath, g.lineno,
                    "covered" if covered else f"line {g.lineno}: this function tests presence with dotted_key_exists (of {sorted({sig(a_) for a_ in asks})}) but looks "
                    f"{want[0]} up in {want[1]} without having asked there: a KeyError leaves keys()/explain() where a key set is due",
                    "whenever keys(o) succeeds every reported key is present in o (C03); a raw KeyError out of key inspection makes the cached graph fail where the "
                    "uncached one returns a value (C01)")
    res.count("guarded_lookups", n_lk)
    if n_lk == 0:
        res.add("labrea:no look-up behind a presence test of another dictionary", True, "", 0,
                "no get_dotted_key(k, d) sits directly behind a dotted_key_exists(k, d') with another dictionary", nec, trivial=True)
    return res


# ------------------------------------------------------------------ R-NK
def rule_NK(run: Run) -> RuleResult:
    """Namespace key construction: one prefix per re-keying site."""
    res = RuleResult("R-NK")
    repo = run.repo
    ns = repo.cls("Namespace")
    f = ns.module.relpath
    nec = ("options grouped in a namespace must behave exactly like the equivalent fully-qualified Options: every "
           "member of a (re-parented) namespace gets the same prefix, once (C04)")

    # the private members of Namespace, by role (labels keep the names they have in the pinned tree)
    roles: Dict[str, str] = {}
    cms = [n_ for n_, f_ in ns.methods.items() if any(ast.unparse(d_) == "classmethod" for d_ in f_.decorator_list)]
    if len(cms) == 1:
        roles["_from_type"] = cms[0]                 # the one alternate constructor (from a class body)
    init_ = ns.methods.get("__init__")
    if init_ is not None:
        ip_ = astu.param_names(init_)
        for st_ in ast.walk(init_):
            if isinstance(st_, ast.Assign) and isinstance(st_.targets[0], ast.Attribute) and astu.is_self_attr(st_.targets[0]) \
                    and isinstance(st_.value, ast.Name) and ip_ and st_.value.id == ip_[0]:
                roles["_key"] = st_.targets[0].attr   # where the constructor keeps its first argument, the key
    for n_, f_ in ns.methods.items():
        if n_ in cms or n_.startswith("__"):
            continue
        calls_ = [astu.short_name(c_) for c_ in astu.calls_in(f_)]
        if "Namespace" in calls_ and len(astu.param_names(f_)) == 1:
            roles.setdefault("_inherit", n_)          # re-keys this namespace under a parent
        def _calls_option(fnode, depth=0):
            for c_ in astu.calls_in(fnode):
                if isinstance(c_.func, ast.Attribute) and c_.func.attr == "option":
                    return True
                if depth < 2 and isinstance(c_.func, ast.Name):
                    r_ = repo.resolve_name(ns.module, c_.func.id)
                    if r_ and r_[0] == "func" and r_[1].module is ns.module and _calls_option(r_[1].node, depth + 1):
                        return True
            return False
        if "_build_doc" not in roles and _calls_option(f_):
            roles["_build_doc"] = n_                  # documents the members (auto members through .option(key))
    ev_ = ns.methods.get("evaluate")
    if ev_ is not None:
        for c_ in astu.calls_in(ev_):
            if isinstance(c_.func, ast.Attribute) and astu.is_self_attr(c_.func) and c_.func.attr in ns.methods and len(c_.args) == 2:
                roles["_populate"] = c_.func.attr
    for need_ in ("_from_type", "_key", "_inherit", "_build_doc", "_populate"):
        if need_ not in roles:
            raise AnalysisError(f"Namespace: no member found for the role of {need_}")
    KEYATTR = roles["_key"]

    def key_sites(fn, prefix: str, selfkey: str = None):
        out = []
        for c in astu.calls_in(fn):
            nm = astu.short_name(c)
            if nm == "Option" and c.args and not (isinstance(c.func, ast.Subscript)):
                out.append((c, c.args[0], "Option key"))
            elif nm == "Namespace" and c.args:
                out.append((c, c.args[0], "Namespace key"))
            elif nm == roles["_inherit"] and c.args:
                out.append((c, c.args[0], "prefix handed to the nested namespace"))
            elif nm == roles["_from_type"]:
                for k in c.keywords:
                    if k.arg == "parent":
                        out.append((c, k.value, "prefix handed to the nested class"))
            elif nm in ("build", "option") and c.args and isinstance(c.func, ast.Attribute):
                out.append((c, c.args[0], f"key handed to _Auto.{nm}"))
        return out

    def starts_with(e: ast.expr, prefix: str) -> bool:
        if isinstance(e, ast.Name):
            return e.id == prefix
        if isinstance(e, ast.JoinedStr) and len(e.values) >= 3:
            v0, v1 = e.values[0], e.values[1]
            return isinstance(v0, ast.FormattedValue) and ast.unparse(v0.value) == prefix and isinstance(v1, ast.Constant) and str(v1.value).startswith(".") \
                and sum(1 for v in e.values if isinstance(v, ast.FormattedValue)) == 2
        return False

    # the prefix variable of _from_type is the local computed from its `parent` parameter (whatever it is called)
    ft0 = ns.methods.get(roles["_from_type"])
    ft_pref = "key"
    if ft0 is not None:
        pn0 = [a.arg for a in ft0.args.posonlyargs + ft0.args.args + ft0.args.kwonlyargs]
        par0 = "parent" if "parent" in pn0 else None
        for st_ in ft0.body:
            if par0 and isinstance(st_, (ast.Assign, ast.AnnAssign)) and st_.value is not None and astu.contains_name(st_.value, par0):
                tg_ = st_.targets[0] if isinstance(st_, ast.Assign) else st_.target
                if isinstance(tg_, ast.Name):
                    ft_pref = tg_.id
                    break
            if par0 and isinstance(st_, ast.If) and astu.contains_name(st_.test, par0):
                tg_ = [t_.targets[0].id for t_ in ast.walk(st_) if isinstance(t_, ast.Assign) and isinstance(t_.targets[0], ast.Name)]
                if tg_:
                    ft_pref = tg_[0]
                    break
    inh_p = astu.param_names(ns.method(roles["_inherit"]))[0]
    plan = {"_from_type": ft_pref, "_inherit": inh_p, "__getitem__": f"self.{KEYATTR}", "_build_doc": f"self.{KEYATTR}"}
    n = 0

    def helper_of(c: ast.Call):
        """(function node, parameter names) of a private module-level helper / Namespace method called at c."""
        if isinstance(c.func, ast.Name):
            r = repo.resolve_name(ns.module, c.func.id)
            if r and r[0] == "func" and r[1].module is ns.module:
                return r[1].node, [a.arg for a in r[1].node.args.posonlyargs + r[1].node.args.args]
        return None

    def check(fn, prefix: str, label: str, depth: int = 0):
        nonlocal n
        amap = astu.single_assign_map(fn)
        keep = frozenset(astu.param_names(fn)) | {prefix, "self", "cls"}
        for c, e, what in key_sites(fn, prefix):
            n += 1
            e2 = astu.expand_locals(e, amap, keep=keep)
            if what.startswith("prefix handed"):
                # a nested namespace / class re-keys itself: it must receive exactly this prefix
                ok = ast.unparse(e) == prefix or ast.unparse(e2) == prefix
            else:
                ok = starts_with(e, prefix) or starts_with(e2, prefix)
            res.add(f"labrea.option.Namespace.{label}:{what} `{ast.unparse(e)[:40]}` is <{prefix}>.<own key>", ok, f, c.lineno,
                    f"{ast.unparse(c)[:90]}", nec)
        if depth >= 2:
            return
        # a helper that receives the prefix builds keys on this method's behalf
        for c in astu.calls_in(fn):
            h = helper_of(c)
            if h is None or h[0] is fn:
                continue
            hfn, params = h
            for i, a in enumerate(c.args):
                a2 = astu.expand_locals(a, amap, keep=keep)
                if i < len(params) and (starts_with(a, prefix) or starts_with(a2, prefix)):
                    check(hfn, params[i], f"{label}>{hfn.name}", depth + 1)

    for mname, prefix in plan.items():
        fn = ns.methods.get(roles.get(mname, mname))
        if fn is None:
            raise AnalysisError(f"Namespace.{mname} not found")
        check(fn, prefix, mname)
    # _from_type: the key of the namespace is parent.name (name at the root).  Read off a synthetic
    # function made of the statements up to the last assignment of the prefix variable.
    ft = ns.method(roles["_from_type"])
    ok = False
    shown = ""
    last = max((i for i, st_ in enumerate(ft.body) if any(isinstance(x, ast.Name) and x.id == ft_pref and isinstance(x.ctx, ast.Store) for x in ast.walk(st_))), default=None)
    if last is not None:
        import copy as _copy
        probe = _copy.deepcopy(ft)
        probe.decorator_list = []
        probe.body = probe.body[:last + 1] + [ast.Return(value=ast.Name(id=ft_pref, ctx=ast.Load()))]
        ast.fix_missing_locations(probe)
        from .interp import analyse_function
        outs = {}
        pn = [a.arg for a in ft.args.posonlyargs + ft.args.args + ft.args.kwonlyargs]
        par = "parent" if "parent" in pn else (pn[2] if len(pn) > 2 else "parent")
        for p in analyse_function(Ctx(repo), ns.module, probe):
            if p.status != "ret" or p.ret is None:
                continue
            pol = cond_pol(p.conds, par)
            if pol is None:
                pol = {True: False, False: True}.get(cond_pol(p.conds, f"cmp:Is({par},Const(None))"))
            outs.setdefault(pol, set()).add(p.ret.key())
        shown = f"{ {k: sorted(v) for k, v in outs.items()} }"
        name_terms = {"attr:__name__(typ)", "name", "attr:__name__(type_)", "attr:__name__(cls_)"}
        ok = bool(outs.get(True)) and bool(outs.get(False)) and all(k_.startswith(f"fstr({par},Const('.'),") for k_ in outs[True]) \
            and all(f"fstr({par},Const('.'),{k_})" in outs[True] for k_ in outs[False])
    res.add("labrea.option.Namespace._from_type:key is parent.name (or name at the root)", ok, f, ft.lineno, shown[:200], nec)
    # evaluate: the section under the namespace's own key of a dictionary populated from all members
    ev = ns.methods.get("evaluate")
    eps_ = normal(run.paths(ns, "evaluate")) if ev is not None else []
    ok = bool(eps_)
    saw_member = False
    for p in eps_:
        k = p.ret.key()
        if not k.startswith(f"call:confectioner.templating.get_dotted_key(Child({KEYATTR}),"):
            ok = False
        if "set(" in k or "_populate(" in k or any(e.kind == "op" and e.op == "evaluate" for e in p.events):
            saw_member = True
    res.add("labrea.option.Namespace.evaluate:the section under its own key of the populated dictionary", ok and saw_member, f, ev.lineno if ev else 0,
            f"{[p.ret.key()[:80] for p in eps_[:3]]}", nec)
    pp = ns.methods.get(roles["_populate"])
    ok = pp is not None
    if ok:
        from .interp import analyse_function
        rp_, op_ = astu.param_names(pp)[0], astu.param_names(pp)[1]
        kinds = set()
        for p in analyse_function(Ctx(repo), ns.module, pp, cls=ns):
            if p.status != "ret" or p.ret is None:
                ok = False
                continue
            k = p.ret.key()
            import re as _re
            mo_ = _re.search(r"getitem\(self,elem\(attr:(\w+)\(self\)\)\)", k)
            M = f"getitem(self,elem(attr:{mo_.group(1) if mo_ else '_members'}(self)))"
            if k == rp_:
                kinds.add("none")
            elif k == f"call:{roles['_populate']}({M},{rp_},{op_})":
                kinds.add("namespace")
            elif k == f"call:set({M},{rp_},callres({M},{op_}))" or k == f"call:set({M},{rp_},call:evaluate({M},{op_}))":
                kinds.add("option")
            else:
                ok = False
        ok = ok and {"namespace", "option"} <= kinds
    res.add("labrea.option.Namespace._populate:members written with Option.set under their qualified keys", ok, f, pp.lineno if pp else 0, "", nec)
    if n < 5:
        raise AnalysisError(f"R-NK found only {n} key construction sites in Namespace")
    return res
