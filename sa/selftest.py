"""Checker self-validation (thorough tier) — see selftest_variants.py."""


def run_selftest(prop: str) -> int:
    try:
        from .mutants import run_for_property
    except ImportError:
        return 0
    return run_for_property(prop)
