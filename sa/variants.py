"""Seeded variants for checker self-validation (both directions).

kind "fire": the edit breaks the named properties; the named rule must report it.
kind "silent": behaviour-preserving refactor; no rule of the properties may fire.
Anchors are exact source fragments of the *current* tree; a fragment that no
longer exists makes the variant "skipped" (listed in the evidence).
"""

V = []


def fire(id, props, rule, file, old, new, note="", also=()):
    V.append({"id": id, "kind": "fire", "props": props, "rule": rule, "file": file, "old": old, "new": new, "note": note, "also": list(also)})


def silent(id, props, file, old, new, note="", also=()):
    V.append({"id": id, "kind": "silent", "props": props, "rule": "", "file": file, "old": old, "new": new, "note": note, "also": list(also)})


T = "labrea/types.py"
O = "labrea/option.py"
C = "labrea/cache.py"
CO = "labrea/conditional.py"
D = "labrea/dataset.py"
IT = "labrea/iterable.py"
TP = "labrea/template.py"
CL = "labrea/coalesce.py"
OV = "labrea/overload.py"
RT = "labrea/runtime.py"
CP = "labrea/computation.py"
LG = "labrea/logging.py"
PL = "labrea/pipeline.py"
FN = "labrea/functions.py"
AP = "labrea/application.py"
AR = "labrea/arguments.py"
IF = "labrea/interface.py"
DCL = "labrea/datasetclass.py"

# ------------------------------------------------------------------ C01 / C03 / C10 key coverage
fire("apply-keys-drops-func", ["C01", "C03", "C10", "C13"], "R-KC", T,
     "        return self.evaluatable.keys(options) | self.func.keys(options)",
     "        return self.evaluatable.keys(options)")
fire("switch-lookup-without-dependson", ["C01", "C07"], "R-KC", CO,
     "        return _DependsOn(self.lookup[key], self.dispatch)  # type: ignore  [arg-type]",
     "        return self.lookup[key]")
fire("dependson-keys-drops-depends", ["C01", "C07"], "R-KC", CO,
     "        return self.evaluatable.keys(options).union(\n            *(d.keys(options) for d in self.depends)\n        )",
     "        return self.evaluatable.keys(options)")
fire("template-keys-skips-params", ["C01", "C09"], "R-KC", TP,
     "        keys = set().union(*(value.keys(options) for value in self.params.values()))",
     "        keys = set()")
fire("memorycache-exists-keyed-by-repr", ["C01", "C15"], "R-MC", C,
     "        return evaluatable.fingerprint(options) in self._cache",
     "        return repr(options).encode() in self._cache")
fire("cached-outside-withoptions", ["C01", "C08"], "R-DC", D,
     """        return WithDefaultOptions(
            WithOptions(
                cached(
                    Logged(
                        base,
                        level=logging.INFO,
                        name=self.__module__,
                        msg=f"Labrea: Evaluating {self!r}",
                    ),
                    self.cache,
                ),
                self.options,
            ),
            self.default_options,
        )""",
     """        return WithDefaultOptions(
            cached(
                WithOptions(
                    Logged(
                        base,
                        level=logging.INFO,
                        name=self.__module__,
                        msg=f"Labrea: Evaluating {self!r}",
                    ),
                    self.options,
                ),
                self.cache,
            ),
            self.default_options,
        )""")
fire("map-keys-without-iterables", ["C01"], "R-KC", IT,
     """        return set().union(
            self._iter(options).keys(options),
            *(iterable.keys(options) for iterable in self.iterables.values()),
        )""",
     "        return set().union(self._iter(options).keys(options))")
fire("casewhen-results-unwrapped", ["C01", "C10"], "R-KC", CO,
     "                return _DependsOn(result, *checked)", "                return result")
fire("option-keys-drops-domain", ["C01", "C04"], "R-KC", O,
     "            return self.default.keys(options) | self._domain_keys(options)",
     "            return self.default.keys(options)",
     note="domain still keyed on the present branch: per-path rule needed")
fire("option-keys-str-only", ["C01", "C03", "C09"], "R-RK", O,
     """        if isinstance(value, Mapping):
            value = list(value.values())
        if isinstance(value, list):
            return set().union(
                *(Option._template_keys(item, method, options) for item in value)
            )
        return set()""",
     "        return set()")
fire("cached-keys-other-options", ["C01"], "R-CP", C,
     "        return self.evaluatable.keys(options)\n\n    def explain(self, options: Optional[Options] = None) -> Set[str]:\n        \"\"\"Return the keys required to evaluate the evaluatable.\"\"\"",
     "        return self.evaluatable.keys({})\n\n    def explain(self, options: Optional[Options] = None) -> Set[str]:\n        \"\"\"Return the keys required to evaluate the evaluatable.\"\"\"")
fire("cached-get-other-cache", ["C01"], "R-CP", C,
     "                return CacheGetRequest(self.evaluatable, options, self.cache).run()",
     "                return CacheGetRequest(self, options, self.cache).run()")

# ------------------------------------------------------------------ C02
fire("fingerprint-hashes-whole-options", ["C02", "C03"], "R-FP", T,
     "            [{key: get_dotted_key(key, options)} for key in sorted(self.keys(options))]",
     "            [sorted(self.keys(options)), options]")
fire("computation-around-cached", ["C02", "C16"], "R-DC", D,
     """                cached(
                    Logged(
                        base,
                        level=logging.INFO,
                        name=self.__module__,
                        msg=f"Labrea: Evaluating {self!r}",
                    ),
                    self.cache,
                ),""",
     """                Computation(
                    cached(
                        Logged(
                            calculation,
                            level=logging.INFO,
                            name=self.__module__,
                            msg=f"Labrea: Evaluating {self!r}",
                        ),
                        self.cache,
                    ),
                    ChainedEffect(*self.effects),
                ),""")
fire("effect-before-evaluate", ["C02"], "R-EO", CP,
     """        value = self.evaluatable.evaluate(options)

        if not _EFFECTS_DISABLED(options):
            self.effect.transform(value, options)

        return value""",
     """        if not _EFFECTS_DISABLED(options):
            self.effect.transform(None, options)

        value = self.evaluatable.evaluate(options)

        return value""")
fire("set-handler-without-store", ["C02", "C17"], "R-CP", C,
     "    request.cache.set(request.evaluatable, request.options, request.value)\n    try:",
     "    try:")

# ------------------------------------------------------------------ C03
fire("fingerprint-unsorted", ["C03", "C01"], "R-FP", T,
     "for key in sorted(self.keys(options))]", "for key in self.keys(options)]")
fire("option-keys-reports-absent-key", ["C03"], "R-PO", O,
     "            return self.default.keys(options) | self._domain_keys(options)",
     "            return {self.key} | self.default.keys(options) | self._domain_keys(options)")
fire("withoptions-keys-unfiltered", ["C03", "C02"], "R-PO", O,
     """        return {
            key
            for key in self.evaluatable.keys(self._options(options))
            if not self._is_preset(key, options)
        }""",
     "        return set(self.evaluatable.keys(self._options(options)))")
fire("withoptions-keys-drops-caller-keys", ["C01", "C03"], "R-PO", O,
     "        if not self.force:\n            return not dotted_key_exists(key, options)\n",
     "        if not self.force:\n            return True\n",
     note="drops keys the caller overrides on a default-options wrapper -> stale hit")
fire("withoptions-forced-section-hidden", ["C01", "C03", "C08"], "R-PO", O,
     """        return not (
            isinstance(get_dotted_key(key, self.options), dict)
            and dotted_key_exists(key, options)
            and isinstance(get_dotted_key(key, options), dict)
        )""",
     "        return True",
     note="the defect repaired by 0f0b0e8: a forced pre-set section hides the caller's entries merged into it -> stale hit for a sibling inside the section")
fire("withoptions-forced-section-only-preset-side", ["C01", "C03"], "R-PO", O,
     """        return not (
            isinstance(get_dotted_key(key, self.options), dict)
            and dotted_key_exists(key, options)
            and isinstance(get_dotted_key(key, options), dict)
        )""",
     """        return not (
            isinstance(get_dotted_key(key, self.options), dict)
            and not dotted_key_exists(key, options)
        )""",
     note="reports the forced section exactly when the caller does NOT have it: absent keys reported, merged ones hidden")
silent("withoptions-forced-section-by-value-comparison", ["C01", "C02", "C03", "C08", "C11"], O,
       """        return not (
            isinstance(get_dotted_key(key, self.options), dict)
            and dotted_key_exists(key, options)
            and isinstance(get_dotted_key(key, options), dict)
        )""",
       """        return get_dotted_key(key, self._options(options)) == get_dotted_key(
            key, self.options
        )""",
       note="hidden exactly when what the wrapped object finds under the key is the pre-set value: nothing of the caller's shows through")
silent("withoptions-forced-section-inline-filter", ["C01", "C02", "C03", "C08", "C11"], O,
       """            for key in self.evaluatable.keys(self._options(options))
            if not self._is_preset(key, options)""",
       """            for key in self.evaluatable.keys(self._options(options))
            if not dotted_key_exists(key, self.options)
            or (
                dotted_key_exists(key, options)
                and (
                    not self.force
                    or (
                        isinstance(get_dotted_key(key, self.options), dict)
                        and isinstance(get_dotted_key(key, options), dict)
                    )
                )
            )""",
       note="the same truth table written inline")
fire("fingerprint-uses-hash", ["C03"], "R-FP", T,
     "        return json.dumps(\n            [{key: get_dotted_key(key, options)} for key in sorted(self.keys(options))]\n        ).encode()",
     "        return str(hash(json.dumps(\n            [{key: get_dotted_key(key, options)} for key in sorted(self.keys(options))]\n        ))).encode()")

# ------------------------------------------------------------------ C04
fire("option-default-truthiness", ["C04"], "R-MS", O,
     "        elif default is not MISSING:\n            self.default = Evaluatable.ensure(default)",
     "        elif default:\n            self.default = Evaluatable.ensure(default)")
fire("option-value-or-default", ["C04"], "R-FV", O,
     """        try:
            value = get_dotted_key(self.key, options)
        except KeyError:""",
     """        try:
            value = get_dotted_key(self.key, options) or None
            if not value:
                raise KeyError(self.key)
        except KeyError:""")
fire("option-eager-default", ["C04", "C06"], "R-AB", O,
     """        try:
            value = get_dotted_key(self.key, options)
        except KeyError:
            if self.default is MISSING:
                raise KeyNotFoundError(self.key, self)
            value = self.default.evaluate(options)""",
     """        fallback = self.default.evaluate(options) if self.default is not MISSING else MISSING
        try:
            value = get_dotted_key(self.key, options)
        except KeyError:
            if self.default is MISSING:
                raise KeyNotFoundError(self.key, self)
            value = fallback""")
fire("option-return-before-domain", ["C04"], "R-MP", O,
     "        TypeValidationRequest(value, self.type, options).run()\n        self._enforce_domain(value, options)\n\n        return value",
     "        TypeValidationRequest(value, self.type, options).run()\n        return value")
fire("option-set-mutates-input", ["C04", "C08"], "R-PU", O,
     "        new: Dict[str, JSON] = {}\n        set_dotted_key(self.key, value, new)\n        return mix(options, new)  # type: ignore",
     "        set_dotted_key(self.key, value, options)  # type: ignore\n        return options")
fire("option-resolve-failure-yields-default", ["C04"], "R-AB", O,
     """        try:
            value = get_dotted_key(self.key, options)
        except KeyError:
            if self.default is MISSING:
                raise KeyNotFoundError(self.key, self)
            value = self.default.evaluate(options)
        else:
            try:
                value = resolve(value, options)
            except KeyError as e:
                raise KeyNotFoundError((*e.args, self.key)[0], self) from e""",
     """        try:
            value = resolve(get_dotted_key(self.key, options), options)
        except KeyError:
            if self.default is MISSING:
                raise KeyNotFoundError(self.key, self)
            value = self.default.evaluate(options)""",
     note="the pre-fix code (F14)")
fire("domain-rejection-warns-only", ["C04"], "R-MP", O,
     """        if isinstance(domain, Container) and value not in domain:
            raise ValueError(
                f"Value {value!r} for option {self.key} not in domain {domain!r}"
            )""",
     """        if isinstance(domain, Container) and value not in domain:
            warnings.warn(
                f"Value {value!r} for option {self.key} not in domain {domain!r}"
            )""")
fire("namespace-drops-domain", ["C04"], "R-CC", O,
     "                    type=value.type,\n                    domain=value.domain,\n                )",
     "                    type=value.type,\n                )")
fire("option-type-check-on-raw-value", ["C04", "C18"], "R-MP", O,
     "        TypeValidationRequest(value, self.type, options).run()",
     "        TypeValidationRequest(options, self.type, options).run()")
fire("keynotfound-wrong-key", ["C04", "C12"], "R-KN", O,
     "            if self.default is MISSING:\n                raise KeyNotFoundError(self.key, self)\n            value = self.default.evaluate(options)",
     "            if self.default is MISSING:\n                raise KeyNotFoundError(\"?\", self)\n            value = self.default.evaluate(options)")

# ------------------------------------------------------------------ C05
fire("casewhen-reversed", ["C05"], "R-OP", CO,
     "        for condition, result in self.cases:\n            checked.append(condition)",
     "        for condition, result in reversed(self.cases):\n            checked.append(condition)")
fire("coalesce-last-success-wins", ["C05", "C06"], "R-SO", CL,
     """        for member in self.members:
            try:
                member.validate(options)
                return getattr(member, method)(options)
            except EvaluationError as e:
                err = e

        raise err  # type: ignore""",
     """        found = False
        result = None
        for member in self.members:
            try:
                member.validate(options)
                result = getattr(member, method)(options)
                found = True
            except EvaluationError as e:
                err = e
        if found:
            return result

        raise err  # type: ignore""")
fire("map-zip-sorted-keys", ["C05"], "R-OP", IT,
     "            tuple(zip(self.iterables.keys(), values))",
     "            tuple(zip(sorted(self.iterables.keys()), values))")
fire("switch-default-when-present", ["C05", "C07"], "R-SO", CO,
     "        if key not in self.lookup:\n            if self.default is MISSING:",
     "        if key in self.lookup:\n            if self.default is MISSING:")
fire("switch-index-by-options", ["C05", "C07"], "R-SO", CO,
     "        return _DependsOn(self.lookup[key], self.dispatch)  # type: ignore  [arg-type]",
     "        return _DependsOn(self.lookup[str(key)], self.dispatch)  # type: ignore  [arg-type]")
fire("casewhen-default-before-cases", ["C05"], "R-SO", CO,
     "        checked: List[Evaluatable[Callable[[A], bool]]] = []\n        for condition, result in self.cases:",
     "        checked: List[Evaluatable[Callable[[A], bool]]] = []\n        if self.default is not MISSING:\n            return _DependsOn(self.default)\n        for condition, result in self.cases:")
fire("iter-reversed", ["C05"], "R-OP", IT,
     "        return (evaluatable.evaluate(options) for evaluatable in self.evaluatables)",
     "        return (evaluatable.evaluate(options) for evaluatable in reversed(self.evaluatables))")
fire("apply-wrong-operand", ["C05", "C13"], "R-EO", T,
     "        value = self.evaluatable(options)\n        return self.func(options)(value)",
     "        value = self.evaluatable(options)\n        return self.func(options)(options)")

# ------------------------------------------------------------------ C06
fire("apply-func-before-source", ["C06", "C13"], "R-EO", T,
     "        value = self.evaluatable(options)\n        return self.func(options)(value)",
     "        return self.func(options)(self.evaluatable(options))")
fire("switch-validate-all-branches", ["C06", "C10"], "R-SL", CO,
     "        self._lookup(options).validate(options)",
     "        for branch in self.lookup.values():\n            branch.validate(options)\n        self._lookup(options).validate(options)")
fire("dataset-init-validates", ["C06"], "R-CL", D,
     "        self.callback = callback\n        self._effects_disabled = False",
     "        self.callback = callback\n        self._effects_disabled = False\n        self.explain({})")
fire("coalesce-evaluates-all", ["C06", "C05"], "R-SL", CL,
     "        return self._delegate(\"evaluate\", options)",
     "        values = [m.evaluate(options) for m in self.members]\n        return values[0]")
fire("apply-validate-evaluates-source", ["C06", "C10", "C11"], "R-EV", T,
     "        self.evaluatable.validate(options)\n        self.func.validate(options)",
     "        self.evaluatable(options)\n        self.func.validate(options)")
fire("overload-register-evaluates", ["C06"], "R-CL", OV,
     "        with self._lock:\n            self.lookup = {**self.lookup, key: value}",
     "        value.validate({})\n        with self._lock:\n            self.lookup = {**self.lookup, key: value}")

# ------------------------------------------------------------------ C07
fire("overloaded-switch-cached-in-init", ["C07"], "R-LB", OV,
     "        self._lock = _get_lock(id(self))\n\n    def evaluate",
     "        self._lock = _get_lock(id(self))\n        self._switch = switch(self.dispatch, self.lookup, default=self.default)\n\n    def evaluate")
fire("interface-forgets-dispatch", ["C07"], "R-ID", IF,
     "                setattr(cls, key, dataset(_dataset, dispatch=dispatch))",
     "                setattr(cls, key, dataset(_dataset))")
fire("with-options-copies-overloads", ["C07"], "R-CC", D,
     "        return Dataset(\n            self.overloads,\n            self.effects,\n            self.cache,\n            mix(self.options, options),  # type: ignore",
     "        return Dataset(\n            Overloaded(self.overloads.dispatch, self.overloads.lookup, self.overloads.default),\n            self.effects,\n            self.cache,\n            mix(self.options, options),  # type: ignore")
fire("callback-on-default-only", ["C07"], "R-DC", D,
     "        calculation: Evaluatable[A] = self.overloads.apply(self.callback)",
     "        calculation: Evaluatable[A] = Overloaded(self.overloads.dispatch, self.overloads.lookup, Evaluatable.ensure(self.overloads.default).apply(self.callback))")
fire("implementation-register-before-check", ["C07"], "R-RG", IF,
     """            for member in member_list:
                if member.is_abstract and overload is None:
                    raise TypeError(f"No implementation provided for {member}.")

        for key, member_list in members.items():
            overload = overloads.get(key)

            if overload is not None:""",
     """            for member in member_list:
                if member.is_abstract and overload is None:
                    raise TypeError(f"No implementation provided for {member}.")

            if overload is not None:""",
     note="the pre-fix code (F3)")
fire("set-dispatch-drops-overloads", ["C07"], "R-CW", D,
     "            self.overloads.lookup.copy(),\n            default=self.overloads.default,",
     "            {},\n            default=self.overloads.default,")

# ------------------------------------------------------------------ C08
fire("withoptions-mix-swapped", ["C08", "C01"], "R-MX", O,
     "            mix(options, self.options)  # type: ignore\n            if self.force",
     "            mix(self.options, options)  # type: ignore\n            if self.force")
fire("withoptions-validate-raw-options", ["C08", "C10"], "R-OA", O,
     "        self.evaluatable.validate(self._options(options))",
     "        self.evaluatable.validate(options)")
fire("with-default-options-drops-options", ["C08"], "R-MX", D,
     "            self.cache,\n            self.options,\n            mix(self.default_options, options),  # type: ignore",
     "            self.cache,\n            {},\n            mix(self.default_options, options),  # type: ignore")
fire("with-options-updates-in-place", ["C08"], "R-PU", D,
     "        return Dataset(\n            self.overloads,\n            self.effects,\n            self.cache,\n            mix(self.options, options),  # type: ignore",
     "        self.options.update(options)  # type: ignore\n        return Dataset(\n            self.overloads,\n            self.effects,\n            self.cache,\n            mix(self.options, options),  # type: ignore")
fire("with-options-drops-callback", ["C08", "C07"], "R-CC", D,
     "            mix(self.options, options),  # type: ignore\n            self.default_options,\n            self.callback,\n        )",
     "            mix(self.options, options),  # type: ignore\n            self.default_options,\n        )",
     note="the pre-fix code (F4)")
fire("with-options-old-over-new", ["C08"], "R-MX", D,
     "            mix(self.options, options),  # type: ignore\n            self.default_options,",
     "            mix(options, self.options),  # type: ignore\n            self.default_options,")
fire("map-default-instead-of-forced", ["C08", "C05"], "R-MX", IT,
     "                    WithOptions(  # type: ignore\n                        self.evaluatable, self._create_option_set(*option_tuples)\n                    ),",
     "                    WithOptions(  # type: ignore\n                        self.evaluatable, self._create_option_set(*option_tuples), force=False\n                    ),")

# ------------------------------------------------------------------ C09
fire("template-explain-other-source", ["C09", "C11"], "R-TK", TP,
     "        keys = set().union(*(value.explain(options) for value in self.params.values()))\n        for key in find_template_keys(self.template):",
     "        keys = set().union(*(value.explain(options) for value in self.params.values()))\n        for key in re.findall(r\"{([A-Z]+)}\", self.template):")
fire("template-keys-direct-key", ["C09"], "R-TK", TP,
     "                keys.update(Option(key).keys(options))",
     "                keys.add(key)",
     note="loses transitivity through templated values and reports absent keys")
fire("template-error-not-chained", ["C09", "C12"], "R-CH", TP,
     "            raise KeyNotFoundError((*e.args, \"UNKNOWN\")[0], self) from e",
     "            raise KeyNotFoundError((*e.args, \"UNKNOWN\")[0], self)")

# ------------------------------------------------------------------ C10
fire("apply-validate-skips-func", ["C10"], "R-VA", T,
     "        self.evaluatable.validate(options)\n        self.func.validate(options)",
     "        self.evaluatable.validate(options)")
fire("iter-validate-first-only", ["C10"], "R-VA", IT,
     "        for evaluatable in self.evaluatables:\n            evaluatable.validate(options)",
     "        for evaluatable in self.evaluatables:\n            evaluatable.validate(options)\n            break",
     note="loop unrolled once: needs the per-element form")
fire("cached-validate-skips-always", ["C10"], "R-VA", C,
     "        if not CacheExistsRequest(self.evaluatable, options, self.cache).run():\n            self.evaluatable.validate(options)",
     "        pass")
fire("cached-validate-inverted", ["C10"], "R-CP", C,
     "        if not CacheExistsRequest(self.evaluatable, options, self.cache).run():\n            self.evaluatable.validate(options)",
     "        if CacheExistsRequest(self.evaluatable, options, self.cache).run():\n            self.evaluatable.validate(options)")
fire("computation-validate-skips-effect", ["C10"], "R-VA", CP,
     "        self.evaluatable.validate(options)\n\n        if not _EFFECTS_DISABLED(options):\n            self.effect.validate(options)",
     "        self.evaluatable.validate(options)")

# ------------------------------------------------------------------ C11
fire("switch-explain-without-try", ["C11"], "R-EG", CO,
     """        try:
            chosen = self._lookup(options)
        except EvaluationError as e:
            raise InsufficientInformationError(
                "Could not determine the switch branch", self
            ) from e

        return chosen.explain(options)""",
     "        return self._lookup(options).explain(options)")
fire("apply-explain-drops-func", ["C11", "C13"], "R-XA", T,
     "        return self.evaluatable.explain(options) | self.func.explain(options)",
     "        return self.evaluatable.explain(options)")
fire("map-explain-fallback-drops-iterables", ["C11"], "R-XA", IT,
     """            return (
                self.evaluatable.explain(options) - self.iterables.keys()
            ) | set().union(
                *(iterable.explain(options) for iterable in self.iterables.values())
            )""",
     "            return self.evaluatable.explain(options) - self.iterables.keys()")
fire("bind-explain-keyerror", ["C11"], "R-EG", T,
     "        except EvaluationError as e:\n            raise InsufficientInformationError(f\"Cannot explain {self}\", self) from e",
     "        except KeyError as e:\n            raise InsufficientInformationError(f\"Cannot explain {self}\", self) from e")

# ------------------------------------------------------------------ C12
fire("handler-wrap-without-from", ["C12"], "R-EH", T,
     "        raise EvaluationError(\"Error during evaluation\", request.evaluatable) from e",
     "        raise EvaluationError(\"Error during evaluation\", request.evaluatable)")
fire("handler-wrong-source", ["C12"], "R-EH", T,
     "        raise EvaluationError(\n            f\"Error during evaluation of {e.source}\", request.evaluatable\n        ) from e",
     "        raise EvaluationError(\n            f\"Error during evaluation of {e.source}\", e.source\n        ) from e")
fire("coalesce-catches-exception", ["C12", "C05"], "R-CD", CL,
     "            except EvaluationError as e:\n                err = e",
     "            except Exception as e:\n                err = e  # type: ignore")
fire("cached-stores-on-failure", ["C12"], "R-CP", C,
     "        value = self.evaluatable.evaluate(options)\n\n        return CacheSetRequest",
     "        try:\n            value = self.evaluatable.evaluate(options)\n        except Exception:\n            value = None  # type: ignore\n\n        return CacheSetRequest")
fire("switch-swallows-all-errors", ["C12"], "R-CD", CO,
     "        except EvaluationError as e:\n            if self.default is MISSING:\n                raise e\n            return self.default",
     "        except BaseException as e:\n            if self.default is MISSING:\n                raise e\n            return self.default")
fire("memorycache-extra-writer", ["C12"], "R-MC", C,
     "    def exists(self, evaluatable: Evaluatable, options: Options) -> bool:\n        return evaluatable.fingerprint(options) in self._cache",
     "    def exists(self, evaluatable: Evaluatable, options: Options) -> bool:\n        self._cache.setdefault(evaluatable.fingerprint(options), None)  # type: ignore\n        return evaluatable.fingerprint(options) in self._cache")

# ------------------------------------------------------------------ C13
fire("subtract-swapped", ["C13"], "R-HO", FN,
     "        partial(lambda left, right: left - right, right=Evaluatable.ensure(__x)),",
     "        partial(lambda left, right: right - left, right=Evaluatable.ensure(__x)),")
fire("divide-into-by-keyword", ["C13"], "R-HO", FN,
     "        partial(lambda left, right: left / right, Evaluatable.ensure(__x)),\n        f\"divide_into({__x!r})\",",
     "        partial(lambda left, right: left / right, right=Evaluatable.ensure(__x)),\n        f\"divide_into({__x!r})\",")
fire("add-captures-parameter", ["C13"], "R-HF", FN,
     "        partial(lambda left, right: left + right, right=Evaluatable.ensure(__x)),",
     "        partial(lambda left: left + __x),")
fire("pipeline-iter-tail-first", ["C13"], "R-PI", PL,
     "        if self.rest is not None:\n            yield from self.rest\n        yield self.tail",
     "        yield self.tail\n        if self.rest is not None:\n            yield from self.rest")
fire("pipeline-evaluate-tail-innermost", ["C13"], "R-EO", PL,
     "        return lambda x: tail(rest(x))", "        return lambda x: rest(tail(x))")
fire("pipeline-add-prepends", ["C13"], "R-PI", PL,
     "            return (self + other.rest) + other.tail",
     "            return (self + other.tail) + other.rest")
fire("get-from-swapped", ["C13"], "R-HO", FN,
     "        partial(_get, __x, default=default),\n        f\"get_from({__x!r})\",",
     "        partial(_get, key=__x, default=default),\n        f\"get_from({__x!r})\",")
fire("contains-is-in-confused", ["C13"], "R-HO", FN,
     "        partial(lambda c, v: v in c, v=Evaluatable.ensure(value)),",
     "        partial(lambda c, v: c in v, v=Evaluatable.ensure(value)),")
fire("pipelinestep-keys-empty", ["C13"], "R-KC", PL,
     "        \"\"\"Return the option keys required by the pipeline step.\"\"\"\n        return self.step.keys(options)",
     "        \"\"\"Return the option keys required by the pipeline step.\"\"\"\n        return set()")

# ------------------------------------------------------------------ C14
fire("handle-mutates-handlers", ["C14"], "R-HI", RT,
     "        if isinstance(request, Mapping):\n            return Runtime({**self.handlers, **request})",
     "        if isinstance(request, Mapping):\n            self.handlers.update(request)  # type: ignore\n            return self")
fire("exit-returns-true", ["C14"], "R-EX", RT,
     "            if previous is None:\n                _RUNTIMES.pop(thread, None)\n            else:\n                _RUNTIMES[thread] = previous",
     "            if previous is None:\n                _RUNTIMES.pop(thread, None)\n            else:\n                _RUNTIMES[thread] = previous\n            return True")
fire("exit-restores-only-without-exception", ["C14"], "R-EX", RT,
     "            if previous is None:\n                _RUNTIMES.pop(thread, None)\n            else:\n                _RUNTIMES[thread] = previous",
     "            if exc_type is not None:\n                return\n            if previous is None:\n                _RUNTIMES.pop(thread, None)\n            else:\n                _RUNTIMES[thread] = previous")
fire("run-without-default-fallback", ["C14"], "R-DF", RT,
     """        except KeyError:
            try:
                handler = _DEFAULT_HANDLERS[type(request)]
            except KeyError as e:
                raise TypeError(
                    f"No handler for request type {type(request).__qualname__}"
                ) from e""",
     """        except KeyError as e:
            raise TypeError(
                f"No handler for request type {type(request).__qualname__}"
            ) from e""",
     note="the pre-fix code (F2)")
fire("enter-scalar-previous", ["C14", "C15"], "R-RE", RT,
     """            thread = threading.current_thread()
            self._previous.setdefault(thread, []).append(_RUNTIMES.get(thread))
            _RUNTIMES[thread] = self
            return self""",
     """            thread = threading.current_thread()
            self._last = _RUNTIMES.get(thread)
            self._previous.setdefault(thread, []).append(self._last)
            _RUNTIMES[thread] = self
            return self""")
fire("exit-stores-none", ["C14"], "R-NR", RT,
     "            if previous is None:\n                _RUNTIMES.pop(thread, None)\n            else:\n                _RUNTIMES[thread] = previous",
     "            _RUNTIMES[thread] = previous")
fire("enter-keyed-by-main-thread", ["C14", "C15"], "R-TI", RT,
     "            _RUNTIMES[thread] = self\n            return self",
     "            _RUNTIMES[threading.main_thread()] = self\n            return self")

# ------------------------------------------------------------------ C15
fire("register-in-place", ["C15", "C07"], "R-CW", OV,
     "            self.lookup = {**self.lookup, key: value}", "            self.lookup[key] = value")
fire("register-without-lock", ["C15"], "R-LS", OV,
     "        with self._lock:\n            self.lookup = {**self.lookup, key: value}",
     "        self.lookup = {**self.lookup, key: value}")
fire("inherit-without-lock", ["C15"], "R-LS", RT,
     "    with lock:\n        _RUNTIMES[threading.current_thread()] = _RUNTIMES.get(parent, Runtime())",
     "    _RUNTIMES[threading.current_thread()] = _RUNTIMES.get(parent, Runtime())")
fire("previous-stack-not-per-thread", ["C15", "C14"], "R-RE", RT,
     "            self._previous.setdefault(thread, []).append(_RUNTIMES.get(thread))",
     "            self._previous.setdefault(None, []).append(_RUNTIMES.get(thread))  # type: ignore")

# ------------------------------------------------------------------ C16
fire("exists-handler-ignores-switch", ["C16"], "R-SH", C,
     "    if _cache_disabled(request):\n        return _disabled_exists_cache_handler(request)\n\n    return request.cache.exists",
     "    return request.cache.exists")
fire("disabled-omits-exists", ["C16"], "R-SH", C,
     "            CacheGetRequest: _disabled_get_cache_handler,\n            CacheExistsRequest: _disabled_exists_cache_handler,",
     "            CacheGetRequest: _disabled_get_cache_handler,")
fire("computation-returns-none-when-disabled", ["C16"], "R-VP", CP,
     "        if not _EFFECTS_DISABLED(options):\n            self.effect.transform(value, options)\n\n        return value",
     "        if not _EFFECTS_DISABLED(options):\n            self.effect.transform(value, options)\n            return value\n\n        return None  # type: ignore")
fire("logged-outside-cached", ["C16", "C02"], "R-DC", D,
     """                cached(
                    Logged(
                        base,
                        level=logging.INFO,
                        name=self.__module__,
                        msg=f"Labrea: Evaluating {self!r}",
                    ),
                    self.cache,
                ),""",
     """                Logged(
                    cached(base, self.cache),
                    level=logging.INFO,
                    name=self.__module__,
                    msg=f"Labrea: Evaluating {self!r}",
                ),""")
fire("cache-disabled-one-spelling", ["C16"], "R-SH", C,
     "    return Option(\"LABREA.CACHE.DISABLED\", Option(\"LABREA.CACHE.DISABLE\", False))(",
     "    return Option(\"LABREA.CACHE.DISABLED\", False)(")
fire("logged-logs-twice", ["C16", "C18"], "R-L1", LG,
     "            self._request(options).run()\n            return self.evaluatable.evaluate(options)",
     "            self._request(options).run()\n            value = self.evaluatable.evaluate(options)\n            self._request(options).run()\n            return value")
fire("disabled-set-writes-backend", ["C16"], "R-DH", C,
     "def _disabled_set_cache_handler(request: CacheSetRequest[A]) -> A:\n    return request.value",
     "def _disabled_set_cache_handler(request: CacheSetRequest[A]) -> A:\n    request.cache.set(request.evaluatable, request.options, request.value)\n    return request.value")
fire("effects-switch-inverted", ["C16"], "R-SH", CP,
     "        value = self.evaluatable.evaluate(options)\n\n        if not _EFFECTS_DISABLED(options):",
     "        value = self.evaluatable.evaluate(options)\n\n        if _EFFECTS_DISABLED(options):")

# ------------------------------------------------------------------ C17
fire("cached-get-unguarded", ["C17"], "R-CP", C,
     """            try:
                return CacheGetRequest(self.evaluatable, options, self.cache).run()
            except CacheGetFailure:
                pass""",
     "            return CacheGetRequest(self.evaluatable, options, self.cache).run()")
fire("set-handler-readback-unguarded", ["C17"], "R-CE", C,
     """    try:
        return request.cache.get(request.evaluatable, request.options)
    except CacheGetFailure:
        return request.value""",
     "    return request.cache.get(request.evaluatable, request.options)")
fire("cache-exists-catches-nothing", ["C17"], "R-CE", C,
     "        try:\n            self.get(evaluatable, options)\n            return True\n        except CacheGetFailure:\n            return False",
     "        self.get(evaluatable, options)\n        return True")
fire("cached-get-failure-reraised", ["C17"], "R-CE", C,
     "            except CacheGetFailure:\n                pass", "            except CacheGetFailure:\n                raise")
fire("cached-returns-exists-flag", ["C17"], "R-CP", C,
     "        value = self.evaluatable.evaluate(options)\n\n        return CacheSetRequest(self.evaluatable, options, value, self.cache).run()",
     "        value = self.evaluatable.evaluate(options)\n\n        CacheSetRequest(self.evaluatable, options, value, self.cache).run()\n        return CacheGetRequest(self.evaluatable, options, self.cache).run()",
     note="read-back after store without guard: a forgetful backend now fails the evaluation")

# ------------------------------------------------------------------ C18
fire("cached-calls-backend-directly", ["C18", "C16"], "R-RQ", C,
     "        if CacheExistsRequest(self.evaluatable, options, self.cache).run():\n            try:",
     "        if self.cache.exists(self.evaluatable, options):\n            try:")
fire("node-calls-saved-implementation", ["C18", "C12"], "R-WR", T,
     "        value = self.evaluatable(options)\n        return self.func(options)(value)",
     "        value = self.evaluatable.__labrea_evaluate__(options)\n        return self.func(options)(value)")
fire("logged-uses-logging-directly", ["C18", "C16"], "R-RQ", LG,
     "            self._request(options).run()\n            return self.evaluatable.evaluate(options)",
     "            logging.getLogger(self.name).log(self.level, self.msg)\n            return self.evaluatable.evaluate(options)")
fire("request-without-default", ["C18"], "R-HD", "labrea/type_validation.py",
     "@TypeValidationRequest.handle\ndef _empty_handler", "def _empty_handler")
fire("subclass-hook-without-super", ["C18"], "R-WR", CO,
     "class Switch(Evaluatable[V]):\n",
     "class Switch(Evaluatable[V]):\n    def __init_subclass__(cls, **kwargs):\n        pass\n\n")
fire("keys-wrapper-skips-request", ["C18"], "R-WR", T,
     "                return KeysRequest(self, options).run()",
     "                return cls.__labrea_keys__(self, options)")

# ------------------------------------------------------------------ C19
fire("datasetclass-filters-differ", ["C19"], "R-MF", DCL,
     "            if isinstance(dependency, Evaluatable) and not key.startswith(\"__\"):\n                dependency.validate(options)",
     "            if isinstance(dependency, Evaluatable) and not key.startswith(\"_\"):\n                dependency.validate(options)")
fire("datasetclass-eq-compares-dict", ["C19"], "R-MF", DCL,
     "            and self._repr_options == other._repr_options",
     "            and self.__dict__ == other.__dict__")
fire("datasetclass-get-not-dotted", ["C19", "C03"], "R-DK", DCL,
     "            value = get_dotted_key(key, options)", "            value = options.get(key)",
     note="the pre-fix code (F5)")

# ------------------------------------------------------------------ C20
fire("setstate-keeps-pickled-lock-id", ["C20"], "R-PL", OV,
     "        self.__dict__.update(state)\n        self._lock = _get_lock(state[\"_lock\"])",
     "        self.__dict__.update(state)")
fire("memorycache-gets-a-lock", ["C20"], "R-PL", C,
     "    def __init__(self) -> None:\n        self._cache = {}",
     "    def __init__(self) -> None:\n        import threading\n\n        self._cache = {}\n        self._guard = threading.RLock()")
fire("namespace-getattr-unguarded", ["C20"], "R-GA", O,
     "        if key.startswith(\"_\") and key not in self.__dict__.get(\"_members\", {}):\n            raise AttributeError(f\"Namespace has no attribute {key!r}\")\n",
     "", note="the pre-fix code (F11)")
fire("node-class-with-slots", ["C20"], "R-PL", T,
     "    value: A\n\n    def __init__(self, value: A) -> None:\n        self.value = value",
     "    value: A\n    __slots__ = (\"value\",)\n\n    def __init__(self, value: A) -> None:\n        self.value = value")

# ================================================================== behaviour-preserving refactors
silent("apply-local-alias", ["C01", "C03", "C06", "C10", "C11", "C13", "C05"], T,
       "        return self.evaluatable.keys(options) | self.func.keys(options)",
       "        source = self.evaluatable\n        func_keys = self.func.keys(options)\n        return source.keys(options) | func_keys")
silent("apply-union-call", ["C01", "C10", "C13"], T,
       "        return self.evaluatable.keys(options) | self.func.keys(options)",
       "        return set().union(self.evaluatable.keys(options), self.func.keys(options))")
silent("apply-validate-reordered", ["C10", "C06"], T,
       "        self.evaluatable.validate(options)\n        self.func.validate(options)",
       "        self.func.validate(options)\n        self.evaluatable.validate(options)")
silent("fingerprint-local-variable", ["C01", "C02", "C03"], T,
       "        return json.dumps(\n            [{key: get_dotted_key(key, options)} for key in sorted(self.keys(options))]\n        ).encode()",
       "        present = self.keys(options)\n        pairs = [{key: get_dotted_key(key, options)} for key in sorted(present)]\n        return json.dumps(pairs).encode()")
silent("iter-validate-comprehension", ["C10", "C05"], IT,
       "        for evaluatable in self.evaluatables:\n            evaluatable.validate(options)",
       "        [evaluatable.validate(options) for evaluatable in self.evaluatables]")
silent("cached-evaluate-local-requests", ["C01", "C12", "C17", "C18", "C10"], C,
       "        value = self.evaluatable.evaluate(options)\n\n        return CacheSetRequest(self.evaluatable, options, value, self.cache).run()",
       "        inner = self.evaluatable\n        value = inner.evaluate(options)\n        request = CacheSetRequest(inner, options, value, self.cache)\n        return request.run()")
silent("switch-lookup-positive-membership", ["C05", "C07", "C01", "C06"], CO,
       """        if key not in self.lookup:
            if self.default is MISSING:
                raise SwitchError(self.dispatch, key, self.lookup)  # type: ignore  [arg-type]
            return _DependsOn(self.default, self.dispatch)  # type: ignore  [arg-type]

        return _DependsOn(self.lookup[key], self.dispatch)  # type: ignore  [arg-type]""",
       """        if key in self.lookup:
            return _DependsOn(self.lookup[key], self.dispatch)  # type: ignore  [arg-type]
        if self.default is MISSING:
            raise SwitchError(self.dispatch, key, self.lookup)  # type: ignore  [arg-type]
        return _DependsOn(self.default, self.dispatch)  # type: ignore  [arg-type]""")
silent("option-evaluate-renamed-local", ["C04", "C06", "C01", "C18"], O,
       """            try:
                value = resolve(value, options)
            except KeyError as e:
                raise KeyNotFoundError((*e.args, self.key)[0], self) from e

        TypeValidationRequest(value, self.type, options).run()
        self._enforce_domain(value, options)

        return value""",
       """            try:
                value = resolve(value, options)
            except KeyError as err:
                raise KeyNotFoundError((*err.args, self.key)[0], self) from err

        result = value
        TypeValidationRequest(result, self.type, options).run()
        self._enforce_domain(result, options)

        return result""")
silent("withoptions-keyword-args", ["C08", "C01", "C02", "C03"], O,
       "    return WithOptions(evaluatable, options, force=False)",
       "    return WithOptions(evaluatable=evaluatable, options=options, force=False)")
silent("dataset-composed-locals", ["C01", "C02", "C07", "C08", "C16"], D,
       """        return WithDefaultOptions(
            WithOptions(
                cached(
                    Logged(
                        base,
                        level=logging.INFO,
                        name=self.__module__,
                        msg=f"Labrea: Evaluating {self!r}",
                    ),
                    self.cache,
                ),
                self.options,
            ),
            self.default_options,
        )""",
       """        logged = Logged(
            base,
            level=logging.INFO,
            name=self.__module__,
            msg=f"Labrea: Evaluating {self!r}",
        )
        memo = cached(logged, self.cache)
        preset = WithOptions(memo, self.options)
        return WithDefaultOptions(preset, self.default_options)""")
silent("with-options-keyword-call", ["C07", "C08"], D,
       """        return Dataset(
            self.overloads,
            self.effects,
            self.cache,
            mix(self.options, options),  # type: ignore
            self.default_options,
            self.callback,
        )""",
       """        return Dataset(
            overloads=self.overloads,
            effects=self.effects,
            cache=self.cache,
            options=mix(self.options, options),  # type: ignore
            default_options=self.default_options,
            callback=self.callback,
        )""")
silent("runtime-exit-early-return-form", ["C14", "C15"], RT,
       """            if previous is None:
                _RUNTIMES.pop(thread, None)
            else:
                _RUNTIMES[thread] = previous""",
       """            if previous is not None:
                _RUNTIMES[thread] = previous
            else:
                _RUNTIMES.pop(thread, None)""")
silent("register-two-steps", ["C15", "C07"], OV,
       "        with self._lock:\n            self.lookup = {**self.lookup, key: value}",
       "        with self._lock:\n            table = {**self.lookup, key: value}\n            self.lookup = table")
silent("subtract-operator-module", ["C13"], FN,
       "        partial(lambda left, right: left - right, right=Evaluatable.ensure(__x)),",
       "        partial(lambda a, b: a - b, b=Evaluatable.ensure(__x)),")
silent("computation-evaluate-guard-clause", ["C02", "C16", "C10"], CP,
       """        value = self.evaluatable.evaluate(options)

        if not _EFFECTS_DISABLED(options):
            self.effect.transform(value, options)

        return value""",
       """        value = self.evaluatable.evaluate(options)

        if _EFFECTS_DISABLED(options):
            return value

        self.effect.transform(value, options)
        return value""")
silent("coalesce-delegate-else-clause", ["C05", "C06", "C12", "C10", "C11"], CL,
       """            try:
                member.validate(options)
                return getattr(member, method)(options)
            except EvaluationError as e:
                err = e""",
       """            try:
                member.validate(options)
                bound = getattr(member, method)
                return bound(options)
            except EvaluationError as e:
                err = e""")
silent("set-handler-else-form", ["C02", "C17", "C16"], C,
       """    request.cache.set(request.evaluatable, request.options, request.value)
    try:
        return request.cache.get(request.evaluatable, request.options)
    except CacheGetFailure:
        return request.value""",
       """    cache = request.cache
    cache.set(request.evaluatable, request.options, request.value)
    try:
        stored = cache.get(request.evaluatable, request.options)
    except CacheGetFailure:
        return request.value
    return stored""")
silent("template-keys-comprehension-order", ["C09", "C01"], TP,
       "        keys = set().union(*(value.keys(options) for value in self.params.values()))",
       "        keys = set()\n        for value in self.params.values():\n            keys |= value.keys(options)")
silent("datasetclass-validate-comprehension", ["C19"], DCL,
       """        for key in dir(cls):
            dependency = getattr(cls, key, None)
            if isinstance(dependency, Evaluatable) and not key.startswith("__"):
                dependency.validate(options)""",
       """        for name in dir(cls):
            member = getattr(cls, name, None)
            if not name.startswith("__") and isinstance(member, Evaluatable):
                member.validate(options)""")
silent("evaluate-request-handler-reordered-test", ["C12", "C18"], T,
       "        if e.source is request.evaluatable:\n            raise e",
       "        if e.source is request.evaluatable:\n            raise")

# ------------------------------------------------------------------ round-2 strengthening (rules added after the second seeded corpus)
fire("memorycache-get-none-check", ["C02", "C17"], "R-MC", C,
     """        try:
            return self._cache[evaluatable.fingerprint(options)]
        except KeyError as e:
            raise CacheGetFailure(evaluatable, options, self) from e""",
     """        value = self._cache.get(evaluatable.fingerprint(options))
        if value is None:
            raise CacheGetFailure(evaluatable, options, self)
        return value""")
silent("memorycache-get-membership-form", ["C01", "C02", "C15", "C17", "C12"], C,
       """        try:
            return self._cache[evaluatable.fingerprint(options)]
        except KeyError as e:
            raise CacheGetFailure(evaluatable, options, self) from e""",
       """        key = evaluatable.fingerprint(options)
        if key not in self._cache:
            raise CacheGetFailure(evaluatable, options, self)
        return self._cache[key]""")
fire("map-validate-first-combination", ["C10"], "R-WI", IT,
     "        self._iter(options).validate(options)",
     """        combinations = self._iterate_over_options(options)
        if combinations:
            WithOptions(self.evaluatable, self._create_option_set(*combinations[0])).validate(options)""")
fire("iter-keys-first-element-only", ["C01", "C03"], "R-WI", IT,
     """        return {
            key
            for evaluatable in self.evaluatables
            for key in evaluatable.keys(options)
        }""",
     """        return {
            key
            for evaluatable in self.evaluatables[:1]
            for key in evaluatable.keys(options)
        }""")
fire("value-evaluate-callable-fastpath", ["C13", "C19"], "R-EO", T,
     """        try:
            return deepcopy(self.value)
        except Exception:  # noqa: E722
            return self.value""",
     """        if callable(self.value):
            return self.value
        try:
            return deepcopy(self.value)
        except Exception:  # noqa: E722
            return self.value""")
silent("value-evaluate-atomic-fastpath", ["C13", "C19", "C05", "C06"], T,
       """        try:
            return deepcopy(self.value)
        except Exception:  # noqa: E722
            return self.value""",
       """        if isinstance(self.value, (int, str, bytes)):
            return self.value
        try:
            return deepcopy(self.value)
        except Exception:  # noqa: E722
            return self.value""")
fire("switch-evaluate-swallows-branch-error", ["C12", "C05"], "R-CD", CO,
     "        return self._lookup(options).evaluate(options)",
     """        try:
            return self._lookup(options).evaluate(options)
        except EvaluationError:
            if self.default is MISSING:
                raise
            return self.default.evaluate(options)""")
fire("cache-disabled-generator-without-finally", ["C12", "C14", "C16"], "R-HI", C,
     """def disabled() -> runtime.Runtime:
    return runtime.handle(
        {
            CacheSetRequest: _disabled_set_cache_handler,
            CacheGetRequest: _disabled_get_cache_handler,
            CacheExistsRequest: _disabled_exists_cache_handler,
        }
    )""",
     """def disabled():
    uncached = runtime.handle(
        {
            CacheSetRequest: _disabled_set_cache_handler,
            CacheGetRequest: _disabled_get_cache_handler,
            CacheExistsRequest: _disabled_exists_cache_handler,
        }
    )
    uncached.__enter__()
    yield uncached
    uncached.__exit__(None, None, None)""")
fire("dataset-overload-identity-against-instance", ["C20"], "R-PK", D,
     "        if self.overloads.dispatch == Value(MISSING):",
     "        if self.overloads.dispatch is _NO_DISPATCH:",
     also=[("class Dataset(Evaluatable[A]):", "_NO_DISPATCH = Value(MISSING)\n\n\nclass Dataset(Evaluatable[A]):"),
           ("            self.dispatch = Value(MISSING)", "            self.dispatch = _NO_DISPATCH")])
fire("option-memoises-evaluated-domain", ["C04", "C01"], "R-IS", O,
     "        domain = self.domain.evaluate(options)\n        if not callable(domain)",
     "        if not hasattr(self, \"_dom\"):\n            self._dom = self.domain.evaluate(options)\n        domain = self._dom\n        if not callable(domain)")
fire("pipeline-memoises-composed-function", ["C13", "C20"], "R-IS", PL,
     "        return lambda x: tail(rest(x))",
     "        self._composed = lambda x: tail(rest(x))\n        return self._composed")
fire("datasetclass-memo-inherited", ["C19"], "R-MF", DCL,
     """        for key in dir(cls):
            dependency = getattr(cls, key, None)
            if isinstance(dependency, Evaluatable) and not key.startswith("__"):
                dependency.validate(options)""",
     """        if not hasattr(cls, "_names"):
            cls._names = [k for k in dir(cls) if isinstance(getattr(cls, k, None), Evaluatable) and not k.startswith("__")]
        for key in dir(cls):
            dependency = getattr(cls, key, None)
            if isinstance(dependency, Evaluatable) and not key.startswith("__"):
                dependency.validate(options)""")
silent("runtime-exit-restore-helper", ["C14", "C15"], RT,
       """            if previous is None:
                _RUNTIMES.pop(thread, None)
            else:
                _RUNTIMES[thread] = previous""",
       """            self._restore(thread, previous)""",
       also=[("    def __exit__(self, exc_type, exc_value, traceback):",
              "    def _restore(self, thread, previous):\n        if previous is None:\n            _RUNTIMES.pop(thread, None)\n            return\n        _RUNTIMES[thread] = previous\n\n    def __exit__(self, exc_type, exc_value, traceback):")])

# ------------------------------------------------------------------ from the automatic-mutant survey (test-suite survivors the checks missed)
fire("option-keys-present-branch-drops-domain", ["C01", "C03"], "R-KC", O,
     """                {self.key}
                | self._template_keys(value, "keys", options)
                | self._domain_keys(options)""",
     """                {self.key}
                | self._template_keys(value, "keys", options)""")

# ------------------------------------------------------------------ round-4 strengthening (rules and engine features added after the fourth corpus)
_TK_OLD = """        if isinstance(value, str):
            return getattr(Template(value), method)(options)
        if isinstance(value, Mapping):
            value = list(value.values())
        if isinstance(value, list):
            return set().union(
                *(Option._template_keys(item, method, options) for item in value)
            )
        return set()"""
fire("template-keys-worklist-pushes-mapping-keys", ["C01", "C03", "C09", "C10"], "R-RK", O, _TK_OLD,
     """        found: Set[str] = set()
        pending = [value]
        while pending:
            item = pending.pop()
            if isinstance(item, str):
                found |= getattr(Template(item), method)(options)
            elif isinstance(item, (Mapping, list)):
                pending.extend(item)
        return found""")
silent("template-keys-worklist", ["C01", "C03", "C09", "C10", "C11"], O, _TK_OLD,
       """        found: Set[str] = set()
        pending = [value]
        while pending:
            item = pending.pop()
            if isinstance(item, str):
                found |= getattr(Template(item), method)(options)
                continue
            if isinstance(item, Mapping):
                item = list(item.values())
            if isinstance(item, list):
                pending.extend(reversed(item))
        return found""")
fire("template-keys-worklist-rebound", ["C01", "C03", "C09"], "R-RK", O, _TK_OLD,
     """        found: Set[str] = set()
        pending = [value]
        while pending:
            item = pending.pop()
            if isinstance(item, str):
                found |= getattr(Template(item), method)(options)
            elif isinstance(item, Mapping):
                pending = list(item.values())
            elif isinstance(item, list):
                pending.extend(item)
        return found""")
fire("template-keys-recursion-forgets-method", ["C09", "C11"], "R-RK", O,
     "                *(Option._template_keys(item, method, options) for item in value)",
     "                *(Option._template_keys(item, options=options) for item in value)",
     also=[("    def _template_keys(value: Any, method: str, options: Options) -> Set[str]:",
            "    def _template_keys(value: Any, method: str = \"keys\", options: Options = None) -> Set[str]:")])
silent("template-keys-collector-callable", ["C01", "C03", "C09", "C10", "C11"], O, _TK_OLD,
       """        ask = operator.methodcaller(method, options)
        if isinstance(value, str):
            return ask(Template(value))
        if isinstance(value, Mapping):
            value = list(value.values())
        if isinstance(value, list):
            return set().union(*map(lambda item: Option._template_keys(item, method, options), value))
        return set()""",
       also=[("import functools\n", "import functools\nimport operator\n")])
fire("fingerprint-prunes-prefixed-keys", ["C01", "C03"], "R-FP", T,
     """        return json.dumps(
            [{key: get_dotted_key(key, options)} for key in sorted(self.keys(options))]
        ).encode()""",
     """        kept = []
        for key in sorted(self.keys(options)):
            if not key.startswith(tuple(kept)):
                kept.append(key)
        return json.dumps([{key: get_dotted_key(key, options)} for key in kept]).encode()""")
silent("fingerprint-explicit-loop", ["C01", "C02", "C03"], T,
       """        return json.dumps(
            [{key: get_dotted_key(key, options)} for key in sorted(self.keys(options))]
        ).encode()""",
       """        entries = []
        for key in sorted(self.keys(options)):
            entries.append({key: get_dotted_key(key, options)})
        return json.dumps(entries).encode()""")
fire("memorycache-evicts", ["C02"], "R-MC", C,
     "        self._cache[evaluatable.fingerprint(options)] = value",
     "        self._cache[evaluatable.fingerprint(options)] = value\n        if len(self._cache) > 128:\n            self._cache.pop(next(iter(self._cache)))")
fire("get-handler-logs-before-passing-on", ["C17"], "R-CE", C,
     "    return request.cache.get(request.evaluatable, request.options)\n\n\n@CacheExistsRequest.handle",
     "    try:\n        return request.cache.get(request.evaluatable, request.options)\n    except CacheGetFailure:\n"
     "        runtime.current_runtime().run(request)\n        raise\n\n\n@CacheExistsRequest.handle")
fire("coalesce-mutable-default-accumulator", ["C12"], "R-GS", CL,
     "        err: Optional[EvaluationError] = None\n\n        for member in self.members:",
     "        err: Optional[EvaluationError] = None\n        seen.append(method)\n\n        for member in self.members:",
     also=[("    def _delegate(self, method: str, options: Optional[Options] = None) -> Any:", "    def _delegate(self, method: str, options: Optional[Options] = None, seen=[]) -> Any:")])
fire("overloaded-repr-sorts-aliases", ["C12", "C17"], "R-OH", OV,
     "            return f\"Overloaded({self.dispatch!r}, {self.lookup!r})\"",
     "            return f\"Overloaded({self.dispatch!r}, {dict(sorted(self.lookup.items()))!r})\"")
silent("overloaded-repr-sorts-by-repr", ["C12", "C17", "C20"], OV,
       "            return f\"Overloaded({self.dispatch!r}, {self.lookup!r})\"",
       "            return f\"Overloaded({self.dispatch!r}, {dict(sorted(self.lookup.items(), key=repr))!r})\"")
fire("template-keys-reads-environment", ["C01", "C03", "C16"], "R-AI", TP,
     "import re\n", "import os\nimport re\n\n_ENV = dict(os.environ)\n")
fire("pipeline-rest-applied-lazily", ["C18", "C13"], "R-EO", PL,
     "        rest = self.rest.evaluate(options) if self.rest else lambda x: x\n        return lambda x: tail(rest(x))",
     "        if not self.rest:\n            return lambda x: tail(x)\n        return lambda x: tail(self.rest.transform(x, options))")
fire("computation-validate-ignores-flag", ["C10", "C16"], "R-VO", CP,
     "        if not _EFFECTS_DISABLED(options):\n            self.effect.transform(value, options)",
     "        if self.enabled and not _EFFECTS_DISABLED(options):\n            self.effect.transform(value, options)",
     also=[("        return (\n            self.evaluatable.explain(options)\n            if _EFFECTS_DISABLED(options)",
            "        return (\n            self.evaluatable.explain(options)\n            if not self.enabled or _EFFECTS_DISABLED(options)"),
           ("    def __repr__(self) -> str:\n        return f\"Computation({self.evaluatable!r}, {self.effect!r})\"",
            "    enabled = True\n\n    def __repr__(self) -> str:\n        return f\"Computation({self.evaluatable!r}, {self.effect!r})\"")])
fire("computation-explain-ignores-flag", ["C11", "C16"], "R-VO", CP,
     "        if not _EFFECTS_DISABLED(options):\n            self.effect.transform(value, options)",
     "        if self.enabled and not _EFFECTS_DISABLED(options):\n            self.effect.transform(value, options)",
     also=[("        if not _EFFECTS_DISABLED(options):\n            self.effect.validate(options)",
            "        if self.enabled and not _EFFECTS_DISABLED(options):\n            self.effect.validate(options)"),
           ("    def __repr__(self) -> str:\n        return f\"Computation({self.evaluatable!r}, {self.effect!r})\"",
            "    enabled = True\n\n    def __repr__(self) -> str:\n        return f\"Computation({self.evaluatable!r}, {self.effect!r})\"")])
silent("computation-flag-in-all-siblings", ["C10", "C11", "C16", "C02"], CP,
       "        if not _EFFECTS_DISABLED(options):\n            self.effect.transform(value, options)",
       "        if self.enabled and not _EFFECTS_DISABLED(options):\n            self.effect.transform(value, options)",
       also=[("        if not _EFFECTS_DISABLED(options):\n            self.effect.validate(options)",
              "        if self.enabled and not _EFFECTS_DISABLED(options):\n            self.effect.validate(options)"),
             ("        return (\n            self.evaluatable.explain(options)\n            if _EFFECTS_DISABLED(options)",
              "        return (\n            self.evaluatable.explain(options)\n            if not self.enabled or _EFFECTS_DISABLED(options)"),
             ("    def __repr__(self) -> str:\n        return f\"Computation({self.evaluatable!r}, {self.effect!r})\"",
              "    enabled = True\n\n    def __repr__(self) -> str:\n        return f\"Computation({self.evaluatable!r}, {self.effect!r})\"")])
silent("runtime-lock-acquire-release", ["C14", "C15"], RT,
       "    with lock:\n        return _RUNTIMES.setdefault(threading.current_thread(), Runtime())",
       "    lock.acquire()\n    try:\n        return _RUNTIMES.setdefault(threading.current_thread(), Runtime())\n    finally:\n        lock.release()")
fire("runtime-lock-released-too-early", ["C15"], "R-LS", RT,
     "    with lock:\n        return _RUNTIMES.setdefault(threading.current_thread(), Runtime())",
     "    lock.acquire()\n    lock.release()\n    return _RUNTIMES.setdefault(threading.current_thread(), Runtime())")
silent("apply-keys-through-methodcaller", ["C01", "C03", "C10", "C13"], T,
       "        return self.evaluatable.keys(options) | self.func.keys(options)",
       "        import functools, operator\n        return functools.reduce(operator.or_, map(operator.methodcaller(\"keys\", options), (self.evaluatable, self.func)))")
fire("apply-keys-methodcaller-drops-func", ["C01", "C03", "C10", "C13"], "R-KC", T,
     "        return self.evaluatable.keys(options) | self.func.keys(options)",
     "        import functools, operator\n        return functools.reduce(operator.or_, map(operator.methodcaller(\"keys\", options), (self.evaluatable,)))")

# match statements (Python 3.10+) for isinstance chains
silent("template-keys-match-statement", ["C01", "C03", "C09", "C10", "C11"], O, _TK_OLD,
       """        match value:
            case str():
                return getattr(Template(value), method)(options)
            case Mapping():
                items = list(value.values())
            case list():
                items = value
            case _:
                return set()
        return set().union(*(Option._template_keys(item, method, options) for item in items))""")
fire("template-keys-match-statement-mapping-keys", ["C01", "C03", "C09"], "R-RK", O, _TK_OLD,
     """        match value:
            case str():
                return getattr(Template(value), method)(options)
            case Mapping() | list():
                items = list(value)
            case _:
                return set()
        return set().union(*(Option._template_keys(item, method, options) for item in items))""")
silent("pipeline-add-match-statement", ["C13"], PL,
       """        if isinstance(other, PipelineStep):
            return Pipeline(other, self)
        elif isinstance(other, Pipeline):
            if other.empty:
                return cast(Pipeline[A, C], self)
            elif other.rest is None:
                return Pipeline(other.tail, self)
            return (self + other.rest) + other.tail
        else:
            return Pipeline(PipelineStep(Evaluatable.ensure(other)), self)""",
       """        match other:
            case PipelineStep():
                return Pipeline(other, self)
            case Pipeline() if other.empty:
                return cast(Pipeline[A, C], self)
            case Pipeline() if other.rest is None:
                return Pipeline(other.tail, self)
            case Pipeline():
                return (self + other.rest) + other.tail
            case _:
                return Pipeline(PipelineStep(Evaluatable.ensure(other)), self)""")
fire("pipeline-add-match-statement-swapped", ["C13"], "R-PI", PL,
     """        if isinstance(other, PipelineStep):
            return Pipeline(other, self)
        elif isinstance(other, Pipeline):
            if other.empty:
                return cast(Pipeline[A, C], self)
            elif other.rest is None:
                return Pipeline(other.tail, self)
            return (self + other.rest) + other.tail
        else:
            return Pipeline(PipelineStep(Evaluatable.ensure(other)), self)""",
     """        match other:
            case PipelineStep():
                return Pipeline(other, self)
            case Pipeline() if other.empty:
                return cast(Pipeline[A, C], self)
            case Pipeline() if other.rest is None:
                return Pipeline(other.tail, self)
            case Pipeline():
                return (self + other.tail) + other.rest
            case _:
                return Pipeline(PipelineStep(Evaluatable.ensure(other)), self)""")

# ------------------------------------------------------------------ round-5 strengthening
TV = "labrea/type_validation.py"
COL = "labrea/collections.py"
fire("concat-extends-input-in-place", ["C01", "C13"], "R-VM", FN,
     "        partial(lambda x, i: itertools.chain(x, i), i=Evaluatable.ensure(iterable)),\n        f\"append({iterable!r})\",",
     "        partial(_concat_in_place, i=Evaluatable.ensure(iterable)),\n        f\"append({iterable!r})\",",
     also=[("def append(", "def _concat_in_place(x, i):\n    if isinstance(x, list):\n        x += i\n        return x\n    return itertools.chain(x, i)\n\n\ndef append(")])
fire("casewhen-when-extends-receiver", ["C05"], "R-VM", CO,
     "        return CaseWhen(\n            self.dispatch,\n            [*self.cases, (Evaluatable.ensure(condition), Evaluatable.ensure(result))],\n            self.default,\n        )",
     "        cases = self.cases\n        cases += [(Evaluatable.ensure(condition), Evaluatable.ensure(result))]\n        return CaseWhen(self.dispatch, cases, self.default)")
silent("casewhen-when-copies-first", ["C05", "C08"], CO,
       "        return CaseWhen(\n            self.dispatch,\n            [*self.cases, (Evaluatable.ensure(condition), Evaluatable.ensure(result))],\n            self.default,\n        )",
       "        cases = list(self.cases)\n        cases += [(Evaluatable.ensure(condition), Evaluatable.ensure(result))]\n        return CaseWhen(self.dispatch, cases, self.default)")
fire("factory-creates-cache-once", ["C01", "C17"], "R-OC", D,
     "        cache: Cache\n        if self.cache is None:\n            cache = MemoryCache()\n        elif callable(self.cache):\n            cache = self.cache()\n        elif isinstance(self.cache, Cache):",
     "        cache: Cache\n        if self.cache is None:\n            cache = MemoryCache()\n        elif callable(self.cache):\n            self.cache = self.cache()\n            cache = self.cache\n        elif isinstance(self.cache, Cache):")
silent("factory-cache-chain-reordered", ["C01", "C02", "C17"], D,
       "        cache: Cache\n        if self.cache is None:\n            cache = MemoryCache()\n        elif callable(self.cache):\n            cache = self.cache()\n        elif isinstance(self.cache, Cache):\n            cache = self.cache\n        else:\n            raise TypeError(f\"Invalid cache: {self.cache}\")",
       "        cache: Cache\n        configured = self.cache\n        if configured is None:\n            cache = MemoryCache()\n        elif callable(configured):\n            cache = configured()\n        elif isinstance(configured, Cache):\n            cache = configured\n        else:\n            raise TypeError(f\"Invalid cache: {configured}\")")
fire("computation-resolves-options-first", ["C04", "C08", "C10"], "R-OF", CP,
     "        value = self.evaluatable.evaluate(options)\n\n        if not _EFFECTS_DISABLED(options):\n            self.effect.transform(value, options)",
     "        options = dict(options)\n        value = self.evaluatable.evaluate(options)\n\n        if not _EFFECTS_DISABLED(options):\n            self.effect.transform(value, options)")
fire("type-handler-strict-flag", ["C03", "C16"], "R-HK", TV,
     "def _empty_handler(request: TypeValidationRequest):\n    return",
     "def _empty_handler(request: TypeValidationRequest):\n    if request.options.get(\"LABREA.TYPES.STRICT\") and not isinstance(request.value, request.type):\n        raise TypeError(request.value)\n    return")
fire("type-handler-rejects", ["C04", "C13"], "R-HD", TV,
     "def _empty_handler(request: TypeValidationRequest):\n    return",
     "def _empty_handler(request: TypeValidationRequest):\n    if isinstance(request.type, type) and not isinstance(request.value, request.type):\n        raise TypeError(request.value)\n    return")
silent("type-handler-explicit-none", ["C03", "C04", "C13", "C18"], TV,
       "def _empty_handler(request: TypeValidationRequest):\n    return",
       "def _empty_handler(request: TypeValidationRequest) -> None:\n    \"\"\"Types are documentation unless a third-party handler enforces them.\"\"\"\n    return None")
fire("wrap-copies-dict", ["C07", "C08", "C16"], "R-UW", D,
     "        functools.update_wrapper(_dataset, definition, updated=())",
     "        functools.update_wrapper(_dataset, definition)")
silent("wrap-explicit-assigned", ["C07", "C08", "C16", "C20"], D,
       "        functools.update_wrapper(_dataset, definition, updated=())",
       "        functools.update_wrapper(_dataset, definition, assigned=functools.WRAPPER_ASSIGNMENTS, updated=())")
fire("implements-splits-tuples", ["C05", "C07"], "R-RG", IF,
     "    aliases = tuple(alias) if isinstance(alias, list) else (alias,)",
     "    aliases = tuple(alias) if isinstance(alias, (list, tuple)) else (alias,)")
silent("implements-list-test-inverted", ["C05", "C07"], IF,
       "    aliases = tuple(alias) if isinstance(alias, list) else (alias,)",
       "    aliases = (alias,) if not isinstance(alias, list) else tuple(alias)")
fire("log-handler-resolves-options", ["C01", "C16"], "R-SH", LG,
     "    logging.getLogger(request.name).log(request.level, request.msg)\n",
     "    logging.getLogger(request.name).log(request.level, request.msg)\n    logging.getLogger(request.name).debug(\"%r\", Option(\"LABREA\", {})(request.options))\n")
fire("inherit-keeps-existing-entry", ["C14", "C15", "C19"], "R-TI", RT,
     "    with lock:\n        _RUNTIMES[threading.current_thread()] = _RUNTIMES.get(parent, Runtime())",
     "    with lock:\n        if threading.current_thread() not in _RUNTIMES:\n            _RUNTIMES[threading.current_thread()] = _RUNTIMES.get(parent, Runtime())")
silent("inherit-thread-local-first", ["C14", "C15", "C19"], RT,
       "    with lock:\n        _RUNTIMES[threading.current_thread()] = _RUNTIMES.get(parent, Runtime())",
       "    with lock:\n        me = threading.current_thread()\n        inherited = _RUNTIMES.get(parent, Runtime())\n        _RUNTIMES[me] = inherited")
fire("overloaded-keys-under-logging-disabled", ["C18", "C14"], "R-HI", OV,
     "        return self.switch.keys(options)",
     "        from . import logging as _logging\n        with _logging.disabled():\n            return self.switch.keys(options)")
fire("fingerprint-prefix-test", ["C01", "C03"], "R-KB", T,
     """        return json.dumps(
            [{key: get_dotted_key(key, options)} for key in sorted(self.keys(options))]
        ).encode()""",
     """        keys = sorted(self.keys(options))
        keys = [k for k in keys if not any(k != other and k.startswith(other) for other in keys)]
        return json.dumps([{key: get_dotted_key(key, options)} for key in keys]).encode()""")
fire("evaluatable-dict-deepcopies", ["C18", "C05"], "R-ON", COL,
     "    pairs = (Iter[Union[K, V]](Value(key), val) for key, val in contents.items())",
     "    import copy\n    contents = copy.deepcopy(contents)\n    pairs = (Iter[Union[K, V]](Value(key), val) for key, val in contents.items())")

# ------------------------------------------------------------------ round 6: R-KU, R-CF, R-JS, R-TV and the obligations added to R-RE / R-SO / R-MX / R-ID / R-KN / R-RG / R-OA
fire("pipeline-explain-symmetric-difference", ["C11", "C16"], "R-KU", PL,
     "        return self.tail.explain(options) | (\n            self.rest.explain(options) if self.rest else set()\n        )",
     "        return self.tail.explain(options) ^ (\n            self.rest.explain(options) if self.rest else set()\n        )")
fire("partial-keys-intersection", ["C01", "C03"], "R-KU", AP,
     "    def keys(self, options: Options) -> Set[str]:\n        return self.func.keys(options) | self.arguments.keys(options)\n\n    def explain(self, options: Optional[Options] = None) -> Set[str]:\n        return self.func.explain(options) | self.arguments.explain(options)\n\n    def __repr__(self) -> str:\n        return self._repr\n\n    @overload\n    @classmethod\n    def lift(\n        cls,\n        __func: Callable[P, A],\n        /,\n        **kwargs: \"MaybeEvaluatable[P.kwargs]\",\n    ) -> \"PartialApplication[P, A]\": ...",
     "    def keys(self, options: Options) -> Set[str]:\n        return self.func.keys(options) & self.arguments.keys(options)\n\n    def explain(self, options: Optional[Options] = None) -> Set[str]:\n        return self.func.explain(options) | self.arguments.explain(options)\n\n    def __repr__(self) -> str:\n        return self._repr\n\n    @overload\n    @classmethod\n    def lift(\n        cls,\n        __func: Callable[P, A],\n        /,\n        **kwargs: \"MaybeEvaluatable[P.kwargs]\",\n    ) -> \"PartialApplication[P, A]\": ...")
fire("arguments-explain-or", ["C11"], "R-KU", AR,
     "        return self.args.explain(options) | self.kwargs.explain(options)",
     "        return self.args.explain(options) or self.kwargs.explain(options)")
fire("apply-explain-difference", ["C01", "C11"], "R-KU", T,
     "        return self.evaluatable.explain(options) | self.func.explain(options)",
     "        return self.evaluatable.explain(options) - self.func.explain(options)")
silent("arguments-keys-augmented-union", ["C01", "C03", "C16"], AR,
       "        return self.args.keys(options).union(self.kwargs.keys(options))",
       "        found = set(self.args.keys(options))\n        found |= self.kwargs.keys(options)\n        return found")
silent("pipeline-keys-set-union-call", ["C01", "C03", "C16", "C13"], PL,
       "        return self.tail.keys(options) | (\n            self.rest.keys(options) if self.rest else set()\n        )",
       "        earlier = self.rest.keys(options) if self.rest else set()\n        return set().union(earlier, self.tail.keys(options))",
       note="set union is commutative; the order in which the two key sets are computed is not observable (keys() has no side effects on options)")
fire("logrequest-options-holds-message", ["C18"], "R-CF", LG,
     "        self.options = options\n        self.level = level",
     "        self.options = msg\n        self.level = level")
fire("switcherror-joins-sorted-hashables", ["C12"], "R-JS", CO,
     "            f\"but must be one of {', '.join(map(str, lookup.keys()))}.\",",
     "            f\"but must be one of {', '.join(sorted(lookup))}.\",")
silent("switcherror-joins-str-genexp", ["C12"], CO,
       "            f\"but must be one of {', '.join(map(str, lookup.keys()))}.\",",
       "            f\"but must be one of {', '.join(str(key) for key in lookup.keys())}.\",")
fire("types-typevar-misnamed", ["C20"], "R-TV", T,
     "B = TypeVar(\"B\", covariant=True)",
     "B = TypeVar(\"A\", covariant=True)")
fire("runtime-exit-pops-front", ["C14", "C13", "C02"], "R-RE", RT,
     "            previous = stack.pop()",
     "            previous = stack.pop(0)")
fire("runtime-enter-inserts-front", ["C14"], "R-RE", RT,
     "            self._previous.setdefault(thread, []).append(_RUNTIMES.get(thread))",
     "            self._previous.setdefault(thread, []).insert(0, _RUNTIMES.get(thread))")
fire("runtime-enter-saves-fresh-runtime", ["C14"], "R-RE", RT,
     "            self._previous.setdefault(thread, []).append(_RUNTIMES.get(thread))",
     "            self._previous.setdefault(thread, []).append(_RUNTIMES.get(thread, Runtime()))")
silent("runtime-stack-is-a-deque", ["C14", "C15"], RT,
       "            self._previous.setdefault(thread, []).append(_RUNTIMES.get(thread))",
       "            self._previous.setdefault(thread, []).insert(0, _RUNTIMES.get(thread))",
       also=[("            previous = stack.pop()", "            previous = stack.pop(0)")],
       note="filled and emptied at the same (front) end: still last-in first-out")
fire("casewhen-when-concatenates-in-front", ["C05"], "R-SO", CO,
     "            [*self.cases, (Evaluatable.ensure(condition), Evaluatable.ensure(result))],",
     "            [(Evaluatable.ensure(condition), Evaluatable.ensure(result))] + [*self.cases],")
silent("casewhen-when-concatenates-behind", ["C05", "C06"], CO,
       "            [*self.cases, (Evaluatable.ensure(condition), Evaluatable.ensure(result))],",
       "            [*self.cases] + [(Evaluatable.ensure(condition), Evaluatable.ensure(result))],")
fire("factory-update-keeps-old-default-options", ["C08"], "R-MX", D,
     "            default_options=default_options or self.default_options,",
     "            default_options=self.default_options or default_options,")
fire("factory-update-old-defaults-win", ["C08"], "R-MX", D,
     "            defaults={**self.defaults, **(defaults or {})},",
     "            defaults={**(defaults or {}), **self.defaults},")
silent("factory-update-conditional-expression", ["C08", "C19"], D,
       "            options=options or self.options,",
       "            options=options if options else self.options,")
fire("interface-abstract-over-valued-annotation", ["C07", "C09"], "R-ID", IF,
     "            if name.startswith(\"_\") or name in dct:\n                continue",
     "            if name.startswith(\"_\"):\n                continue")
silent("interface-annotation-guard-demorgan", ["C07", "C09"], IF,
       "            if name.startswith(\"_\") or name in dct:\n                continue\n\n            def _abstractdataset():\n                pass  # pragma: no cover\n\n            _abstractdataset.__qualname__ = f\"{cls.__name__}.{name}\"\n            _abstractdataset.__name__ = name\n            setattr(cls, name, abstractdataset(_abstractdataset, dispatch=dispatch))",
       "            if not (name in dct or name.startswith(\"_\")):\n\n                def _abstractdataset():\n                    pass  # pragma: no cover\n\n                _abstractdataset.__qualname__ = f\"{cls.__name__}.{name}\"\n                _abstractdataset.__name__ = name\n                setattr(cls, name, abstractdataset(_abstractdataset, dispatch=dispatch))")
fire("option-keynotfound-picks-second-element", ["C12", "C04"], "R-KN", O,
     "                raise KeyNotFoundError((*e.args, self.key)[0], self) from e",
     "                raise KeyNotFoundError((*e.args, self.key)[1], self) from e")
silent("template-keynotfound-unpacks-first", ["C12", "C04"], TP,
       "            raise KeyNotFoundError((*e.args, \"UNKNOWN\")[0], self) from e",
       "            missing, *_ = (*e.args, \"UNKNOWN\")\n            raise KeyNotFoundError(missing, self) from e")
fire("implements-aliases-generator", ["C07", "C19"], "R-RG", IF,
     "    aliases = tuple(alias) if isinstance(alias, list) else (alias,)",
     "    aliases = (a for a in alias) if isinstance(alias, list) else (alias,)")
silent("implements-aliases-list", ["C07", "C19"], IF,
       "    aliases = tuple(alias) if isinstance(alias, list) else (alias,)",
       "    aliases = list(alias) if isinstance(alias, list) else [alias]")
fire("apply-explain-without-options", ["C13", "C11"], "R-OA", T,
     "        return self.evaluatable.explain(options) | self.func.explain(options)",
     "        return self.evaluatable.explain() | self.func.explain(options)")
silent("pipeline-explain-keyword-options", ["C13", "C11"], PL,
       "        return self.tail.explain(options) | (\n            self.rest.explain(options) if self.rest else set()\n        )",
       "        return self.tail.explain(options=options) | (\n            self.rest.explain(options=options) if self.rest else set()\n        )")
silent("runtime-exit-reads-then-deletes-last", ["C14", "C15", "C13"], RT,
       "            previous = stack.pop()",
       "            previous = stack[-1]\n            del stack[-1]")
fire("switcherror-arguments-swapped", ["C12"], "R-KN", CO,
     "                raise SwitchError(self.dispatch, key, self.lookup)",
     "                raise SwitchError(key, self.dispatch, self.lookup)")
fire("switcherror-source-is-the-value", ["C12"], "R-KN", CO,
     "            f\"Evaluated to {value}, \"\n            f\"but must be one of {', '.join(map(str, lookup.keys()))}.\",\n            dispatch,\n        )",
     "            dispatch,\n            f\"Evaluated to {value}, \"\n            f\"but must be one of {', '.join(map(str, lookup.keys()))}.\",\n        )",
     note="message and source swapped in the call of EvaluationError.__init__")
fire("cachegetfailure-arguments-swapped", ["C12"], "R-KN", C,
     "    raise CacheGetFailure(request.evaluatable, request.options, request.cache)",
     "    raise CacheGetFailure(request.options, request.evaluatable, request.cache)")
fire("add-effects-drops-callables", ["C02"], "R-DC", D,
     "            else:\n                self.effects.append(CallbackEffect(effect))",
     "            elif isinstance(effect, CallbackEffect):\n                self.effects.append(CallbackEffect(effect))")
silent("add-effects-builds-then-appends", ["C02"], D,
       "        for effect in effects:\n            if isinstance(effect, Effect):\n                self.effects.append(effect)\n            else:\n                self.effects.append(CallbackEffect(effect))",
       "        for effect in effects:\n            wrapped = effect if isinstance(effect, Effect) else CallbackEffect(effect)\n            self.effects.append(wrapped)")

# ------------------------------------------------------------------ round 7 (second half): obligations added for the regression PRs
fire("kwargs-shared-readonly-empty-mapping", ["C20"], "R-PL", AR,
     "    def __init__(self, **kwargs: Evaluatable[\"P.kwargs\"]):\n        self.kwargs = kwargs\n",
     "    def __init__(self, **kwargs: Evaluatable[\"P.kwargs\"]):\n        self.kwargs = kwargs or _NO_KWARGS\n",
     also=[("from .types import Evaluatable, MaybeEvaluatable, Options\n", "from .types import Evaluatable, MaybeEvaluatable, Options\nfrom types import MappingProxyType\n\n_NO_KWARGS = MappingProxyType({})\n")],
     note="pickle refuses mappingproxy objects: every graph with an argument-less application stops pickling")
silent("kwargs-plain-dict-copy", ["C20", "C13", "C01"], AR,
       "    def __init__(self, **kwargs: Evaluatable[\"P.kwargs\"]):\n        self.kwargs = kwargs\n",
       "    def __init__(self, **kwargs: Evaluatable[\"P.kwargs\"]):\n        self.kwargs = dict(kwargs)\n")
fire("memorycache-get-fails-on-uncopyable", ["C02", "C17"], "R-MC", C,
     "        try:\n            return self._cache[evaluatable.fingerprint(options)]\n        except KeyError as e:\n            raise CacheGetFailure(evaluatable, options, self) from e\n",
     "        try:\n            value = self._cache[evaluatable.fingerprint(options)]\n        except KeyError as e:\n            raise CacheGetFailure(evaluatable, options, self) from e\n        try:\n            return copy.deepcopy(value)\n        except Exception as e:\n            raise CacheGetFailure(evaluatable, options, self) from e\n",
     also=[("from abc import ABC, abstractmethod\n", "import copy\nfrom abc import ABC, abstractmethod\n")],
     note="a value that cannot be deep-copied is stored but can never be read: every request recomputes")
silent("memorycache-get-copies-with-fallback", ["C02", "C17", "C01"], C,
       "        try:\n            return self._cache[evaluatable.fingerprint(options)]\n        except KeyError as e:\n            raise CacheGetFailure(evaluatable, options, self) from e\n",
       "        try:\n            value = self._cache[evaluatable.fingerprint(options)]\n        except KeyError as e:\n            raise CacheGetFailure(evaluatable, options, self) from e\n        try:\n            return copy.deepcopy(value)\n        except Exception:\n            return value\n",
       also=[("from abc import ABC, abstractmethod\n", "import copy\nfrom abc import ABC, abstractmethod\n")])
fire("args-evaluate-memo-by-repr", ["C16", "C05"], "R-LM", AR,
     "        return tuple(arg.evaluate(options) for arg in self.args)  # type: ignore\n",
     "        seen = {}\n        out = []\n        for arg in self.args:\n            token = repr(arg)\n            if token not in seen:\n                seen[token] = arg.evaluate(options)\n            out.append(seen[token])\n        return tuple(out)  # type: ignore\n",
     note="results handed out again for arguments that print alike: with caching disabled a repeated dataset argument no longer recomputes")
fire("args-keys-dedupe-by-repr", ["C01", "C03", "C17", "C18"], "R-LM", AR,
     "        return set().union(*(arg.keys(options) for arg in self.args))\n",
     "        distinct = {}\n        for arg in self.args:\n            distinct.setdefault(repr(arg), arg)\n        return set().union(*(arg.keys(options) for arg in distinct.values()))\n",
     note="Option('L') and Option('L', domain=…) print alike; the second one's keys are dropped")
silent("args-keys-dedupe-by-identity", ["C01", "C03", "C17", "C18", "C16"], AR,
       "        return set().union(*(arg.keys(options) for arg in self.args))\n",
       "        distinct = {}\n        for arg in self.args:\n            distinct.setdefault(id(arg), arg)\n        return set().union(*(arg.keys(options) for arg in distinct.values()))\n")
fire("type-handler-evaluates-configurable-type", ["C11", "C01", "C16"], "R-SH", "labrea/type_validation.py",
     "def _empty_handler(request: TypeValidationRequest):\n    return\n",
     "def _empty_handler(request: TypeValidationRequest):\n    expected = request.type\n    if hasattr(expected, \"evaluate\"):\n        expected = expected.evaluate(request.options)\n    return\n")
fire("switch-depends-on-failed-dispatch", ["C10", "C01", "C03"], "R-KC", CO,
     "            if self.default is MISSING:\n                raise e\n            return self.default\n",
     "            if self.default is MISSING:\n                raise e\n            return _DependsOn(self.default, self.dispatch)  # type: ignore\n",
     note="keys() asks the dispatch for its keys right after evaluating it failed: keys(o) fails where validate(o)/evaluate(o) take the default")
fire("fingerprint-sorts-sequence-values", ["C08", "C01", "C03"], "R-FP", T,
     "            [{key: get_dotted_key(key, options)} for key in sorted(self.keys(options))]\n",
     "            [{key: _canonical(get_dotted_key(key, options))} for key in sorted(self.keys(options))]\n",
     also=[("class Value(Evaluatable[A]):", "def _canonical(value):\n    if isinstance(value, (set, frozenset, list, tuple)):\n        return sorted(value, key=repr)\n    return value\n\n\nclass Value(Evaluatable[A]):")])
fire("apply-keys-from-explain", ["C03", "C01"], "R-PO", T,
     "        return self.evaluatable.keys(options) | self.func.keys(options)",
     "        return self.evaluatable.keys(options) | self.func.explain(options)",
     note="explain() lists keys whether present or not: keys() then reports absent keys and fingerprint() raises KeyError")
fire("value-subclass-overrides-evaluate-only", ["C10"], "R-VA", T,
     "class Apply(Generic[A, B], Evaluatable[B]):",
     "class _Resolved(Value[A]):\n    def evaluate(self, options: Options) -> A:\n        return get_dotted_key(self.value, options)  # type: ignore\n\n\nclass Apply(Generic[A, B], Evaluatable[B]):",
     note="inherits Value.validate (always passes) for an evaluate() that needs the referenced options")
silent("shared-base-leaves-evaluate-to-subclasses", ["C10", "C01", "C03", "C11"], AR,
       "class EvaluatableArgs(Generic[P], Evaluatable[\"P.args\"]):",
       "class _Parts(Evaluatable[A]):\n    def _parts(self):\n        raise NotImplementedError\n\n    def validate(self, options: Options) -> None:\n        for part in self._parts():\n            part.validate(options)\n\n\nclass EvaluatableArgs(Generic[P], Evaluatable[\"P.args\"]):",
       also=[("from typing import Dict, Generic, Optional, Set, Tuple\n", "from typing import Dict, Generic, Optional, Set, Tuple, TypeVar\n\nA = TypeVar(\"A\")\n")],
       note="an abstract helper base without an evaluate() of its own (never instantiated)")
fire("logscope-exit-returns-handler-result", ["C12"], "R-EX", LG,
     "class Logged(Evaluatable[A]):",
     "class _Scope:\n    def __init__(self, request):\n        self.request = request\n\n    def __enter__(self):\n        return self\n\n    def __exit__(self, exc_type, exc_value, traceback):\n        return self.request.run()\n\n\nclass Logged(Evaluatable[A]):")
silent("logscope-exit-returns-false", ["C12", "C14"], LG,
       "class Logged(Evaluatable[A]):",
       "class _Scope:\n    def __init__(self, request):\n        self.request = request\n\n    def __enter__(self):\n        return self\n\n    def __exit__(self, exc_type, exc_value, traceback):\n        self.request.run()\n        return False\n\n\nclass Logged(Evaluatable[A]):")
fire("chained-effect-validate-raises-runtimeerror", ["C05", "C12"], "R-EH", CP,
     "class ChainedEffect(Effect[A]):",
     "class EffectError(RuntimeError):\n    pass\n\n\nclass ChainedEffect(Effect[A]):",
     also=[("        for effect in self.effects:\n            effect.validate(options)\n", "        for effect in self.effects:\n            try:\n                effect.validate(options)\n            except EvaluationError as e:\n                raise EffectError(repr(effect)) from e\n"),
           ("from .option import Option\n", "from .exceptions import EvaluationError\nfrom .option import Option\n")])

# ------------------------------------------------------------------ round 8
fire("args-keys-str-only-fast-path", ["C01", "C03"], "R-RK", AR,
     "        return set().union(*(arg.keys(options) for arg in self.args))\n",
     "        keys: Set[str] = set()\n        for arg in self.args:\n            if type(arg).__name__ == \"Option\" and arg.domain is MISSING and dotted_key_exists(arg.key, options):\n                provided = get_dotted_key(arg.key, options)\n                if not isinstance(provided, str):\n                    keys.add(arg.key)\n                    continue\n            keys |= arg.keys(options)\n        return keys\n",
     also=[("from .types import Evaluatable, MaybeEvaluatable, Options\n", "from confectioner.templating import dotted_key_exists, get_dotted_key\n\nfrom ._missing import MISSING\nfrom .types import Evaluatable, MaybeEvaluatable, Options\n")],
     note="a provided list / mapping holding templated strings is answered with the key alone: the keys it refers to drop out of the fingerprint")
silent("args-keys-fast-path-for-scalars-only", ["C01", "C03", "C10", "C13"], AR,
       "        return set().union(*(arg.keys(options) for arg in self.args))\n",
       "        keys: Set[str] = set()\n        for arg in self.args:\n            if type(arg).__name__ == \"Option\" and arg.domain is MISSING and dotted_key_exists(arg.key, options):\n                provided = get_dotted_key(arg.key, options)\n                if not isinstance(provided, (str, list, tuple, dict)):\n                    keys.add(arg.key)\n                    continue\n            keys |= arg.keys(options)\n        return keys\n",
       also=[("from .types import Evaluatable, MaybeEvaluatable, Options\n", "from confectioner.templating import dotted_key_exists, get_dotted_key\n\nfrom ._missing import MISSING\nfrom .types import Evaluatable, MaybeEvaluatable, Options\n")],
       note="the same fast path restricted to values that can hold no reference")
fire("withoptions-keys-unfiltered-when-covered", ["C02", "C01", "C03"], "R-PO", O,
     "        return {\n            key\n            for key in self.evaluatable.keys(self._options(options))\n            if not self._is_preset(key, options)\n        }",
     "        mixed = self._options(options)\n        inner = self.evaluatable.keys(mixed)\n        if mixed == options:\n            return inner\n        return {key for key in inner if not self._is_preset(key, options)}",
     note="the filter is skipped whenever the caller's options already hold the pre-set values: a pinned key is then reported as the caller's")
silent("withoptions-keys-unfiltered-when-nothing-preset", ["C02", "C01", "C03", "C08", "C11"], O,
       "        return {\n            key\n            for key in self.evaluatable.keys(self._options(options))\n            if not self._is_preset(key, options)\n        }",
       "        inner = self.evaluatable.keys(self._options(options))\n        if not self.options:\n            return inner\n        return {key for key in inner if not self._is_preset(key, options)}")
fire("switch-explain-skips-dispatch-without-options", ["C11"], "R-XA", CO,
     "        options = options or {}\n        try:\n            chosen = self._lookup(options)\n        except EvaluationError as e:",
     "        options = options or {}\n        if not options and self.default is not MISSING:\n            return self.default.explain(options)\n        try:\n            chosen = self._lookup(options)\n        except EvaluationError as e:",
     note="explain({}) reports the default branch although the dispatch may well be determined without options")
fire("conditional-attaches-method-to-base-class", ["C04"], "R-GA", CO,
     "    return CaseWhen(Evaluatable.ensure(dispatch), [])\n",
     "    return CaseWhen(Evaluatable.ensure(dispatch), [])\n\n\ndef _when(self, condition, result):\n    return case(self).when(condition, result)\n\n\nEvaluatable.when = _when  # type: ignore\n",
     note="every Namespace now answers .when itself: a member called `when` is unreachable")
fire("interface-default-none-reaches-option", ["C12", "C04"], "R-MS", IF,
     "def interface(dispatch: Union[Evaluatable[Hashable], str]) -> Callable[[T], \"T\"]:",
     "def interface(dispatch: Union[Evaluatable[Hashable], str], default=None) -> Callable[[T], \"T\"]:",
     also=[("    if isinstance(dispatch, str):\n        dispatch = Option(dispatch)\n\n    def wrapper(cls):", "    if isinstance(dispatch, str):\n        dispatch = Option(dispatch, default)\n\n    def wrapper(cls):")],
     note="every string dispatch becomes an Option with default None: the missing key is never reported")
silent("interface-default-none-guarded", ["C12", "C04", "C07"], IF,
       "def interface(dispatch: Union[Evaluatable[Hashable], str]) -> Callable[[T], \"T\"]:",
       "def interface(dispatch: Union[Evaluatable[Hashable], str], default=None) -> Callable[[T], \"T\"]:",
       also=[("    if isinstance(dispatch, str):\n        dispatch = Option(dispatch)\n\n    def wrapper(cls):", "    if isinstance(dispatch, str):\n        dispatch = Option(dispatch) if default is None else Option(dispatch, default)\n\n    def wrapper(cls):")])
fire("value-defines-getstate", ["C20"], "R-PL", T,
     "class Apply(Generic[A, B], Evaluatable[B]):",
     "def _value_getstate(self):\n    return dict(self.__dict__)\n\n\nclass Apply(Generic[A, B], Evaluatable[B]):",
     also=[("    def evaluate(self, options: Options) -> A:\n        \"\"\"Return the wrapped value.\"\"\"", "    def __getstate__(self):\n        return dict(self.__dict__)\n\n    def __setstate__(self, state):\n        self.__dict__.update(state)\n\n    def evaluate(self, options: Options) -> A:\n        \"\"\"Return the wrapped value.\"\"\"")],
     note="a pickling hook on a class that holds nothing pickle refuses: reported for a look")

# ------------------------------------------------------------------ round 9
fire("casewhen-answer-compared-with-true", ["C05", "C06"], "R-SO", CO,
     "            if condition.evaluate(options)(value):\n",
     "            if condition.evaluate(options)(value) is True:\n",
     note="a predicate answering with a match object, a count or numpy.bool_ no longer selects its case")
silent("casewhen-answer-through-bool", ["C05", "C06", "C01", "C03"], CO,
       "            if condition.evaluate(options)(value):\n",
       "            if bool(condition.evaluate(options)(value)):\n")
fire("lift-asks-all-parameters-for-kwargs", ["C04", "C05"], "R-KW", AP,
     "        has_kwargs = any(\n            param.kind == param.VAR_KEYWORD for param in signature.parameters.values()\n        )",
     "        has_kwargs = all(\n            param.kind == param.VAR_KEYWORD for param in signature.parameters.values()\n        )",
     note="a definition with named parameters and **kwargs is taken for one without: the extra arguments given to lift/where are dropped")
silent("lift-asks-any-over-a-list", ["C04", "C05", "C09", "C13"], AP,
       "        has_kwargs = any(\n            param.kind == param.VAR_KEYWORD for param in signature.parameters.values()\n        )",
       "        has_kwargs = any(\n            [param.kind is param.VAR_KEYWORD for param in signature.parameters.values()]\n        )")
fire("implementation-function-applied-bare", ["C10", "C13"], "R-KW", IF,
     "            overload = FunctionApplication.lift(val)\n",
     "            overload = FunctionApplication(val)\n",
     note="validate/keys of the member see no argument; evaluate calls the body with its raw Option defaults")
silent("implementation-function-lifted-through-alias", ["C10", "C13", "C07"], IF,
       "            overload = FunctionApplication.lift(val)\n",
       "            lift = FunctionApplication.lift\n            overload = lift(val)\n")
fire("runtime-run-calls-handler-inside-lookup-try", ["C12", "C14", "C18"], "R-DF", RT,
     "        try:\n            handler = self.handlers[type(request)]\n        except KeyError:",
     "        try:\n            return self.handlers[type(request)](request)\n        except KeyError:",
     note="a KeyError raised by the handler is taken for a missing registration: the default handler answers, the failure is swallowed")
silent("runtime-run-lookup-in-try-else", ["C12", "C14", "C18"], RT,
       "        try:\n            handler = self.handlers[type(request)]\n        except KeyError:\n            try:\n                handler = _DEFAULT_HANDLERS[type(request)]\n            except KeyError as e:\n                raise TypeError(\n                    f\"No handler for request type {type(request).__qualname__}\"\n                ) from e\n\n        return handler(request)",
       "        try:\n            handler = self.handlers[type(request)]\n        except KeyError:\n            try:\n                handler = _DEFAULT_HANDLERS[type(request)]\n            except KeyError as e:\n                raise TypeError(\n                    f\"No handler for request type {type(request).__qualname__}\"\n                ) from e\n            else:\n                return handler(request)\n        else:\n            return handler(request)")
fire("contains-wraps-operand-as-constant", ["C18", "C13"], "R-HF", FN,
     "        partial(lambda c, v: v in c, v=Evaluatable.ensure(value)),\n        f\"contains({value!r})\",",
     "        partial(lambda c, v: v in c, v=Evaluatable.unit(value)),\n        f\"contains({value!r})\",",
     note="an Option given as the operand is compared as an object; none of its four operations is ever issued")
silent("contains-ensures-operand-by-hand", ["C18", "C13", "C05"], FN,
       "        partial(lambda c, v: v in c, v=Evaluatable.ensure(value)),\n        f\"contains({value!r})\",",
       "        partial(lambda c, v: v in c, v=value if isinstance(value, Evaluatable) else Evaluatable.unit(value)),\n        f\"contains({value!r})\",")
fire("namespace-getattr-negation-lost", ["C20"], "R-PL", O,
     "        if key.startswith(\"_\") and key not in self.__dict__.get(\"_members\", {}):",
     "        if key.startswith(\"_\") and key in self.__dict__.get(\"_members\", {}):",
     note="pickle's question for __setstate__ on the still-empty instance reads self._members: endless recursion, nothing containing a namespace can be loaded")
silent("namespace-getattr-guard-through-helper", ["C20", "C04"], O,
       "        if key.startswith(\"_\") and key not in self.__dict__.get(\"_members\", {}):",
       "        declared = self.__dict__.get(\"_members\", {})\n        if key.startswith(\"_\") and not (key in declared):")
fire("logging-helper-swaps-level-and-name", ["C16", "C18"], "R-L1", LG,
     "    return LogRequest(logging.WARNING, name, msg, options).run()",
     "    return LogRequest(name, logging.WARNING, msg, options).run()")
fire("logeffect-drops-the-callers-options", ["C16", "C18"], "R-L1", LG,
     "        return LogRequest(self.level, self.name, self.msg, options or {}).run()",
     "        return LogRequest(self.level, self.name, self.msg, options and {}).run()",
     note="the handler reads LABREA.LOGGING.DISABLED from the request's options: with an empty dictionary the switch is never seen")
fire("nocache-set-keeps-the-value", ["C16"], "R-VP", C,
     "    def set(self, evaluatable: Evaluatable, options: Options, value: Any) -> None:\n        pass\n\n\nclass MemoryCache(Cache[A]):",
     "    def set(self, evaluatable: Evaluatable, options: Options, value: Any) -> None:\n        self.last = value\n\n\nclass MemoryCache(Cache[A]):")
silent("nocache-set-returns-none-explicitly", ["C16", "C17"], C,
       "    def set(self, evaluatable: Evaluatable, options: Options, value: Any) -> None:\n        pass\n\n\nclass MemoryCache(Cache[A]):",
       "    def set(self, evaluatable: Evaluatable, options: Options, value: Any) -> None:\n        return None\n\n\nclass MemoryCache(Cache[A]):")
fire("handle-derives-from-a-fresh-runtime", ["C14", "C16", "C18"], "R-HI", RT,
     "    return current_runtime().handle(request, handler)",
     "    return Runtime().handle(request, handler)",
     note="a runtime derived inside a block loses the handlers of the enclosing one")
silent("logging-disabled-derives-in-place", ["C14", "C16", "C18", "C12"], LG,
       "    return runtime.handle(LogRequest, _disabled_logging_handler)",
       "    return runtime.current_runtime().handle(LogRequest, handler=_disabled_logging_handler)")
silent("fingerprint-sort-keys", ["C01", "C02", "C03", "C15", "C17"], T,
       "        return json.dumps(\n            [{key: get_dotted_key(key, options)} for key in sorted(self.keys(options))]\n        ).encode()",
       "        return json.dumps(\n            [{key: get_dotted_key(key, options)} for key in sorted(self.keys(options))],\n            sort_keys=True,\n        ).encode()",
       note="the canonical form F16 asks for: no report, and no KNOWN-FINDING either")
fire("fingerprint-sort-keys-false", ["C03"], "R-FP", T,
     "        return json.dumps(\n            [{key: get_dotted_key(key, options)} for key in sorted(self.keys(options))]\n        ).encode()",
     "        return json.dumps(\n            [{key: get_dotted_key(key, options)} for key in sorted(self.keys(options))],\n            sort_keys=False, default=repr,\n        ).encode()",
     note="a default= hook lets unserialisable values through as their repr (addresses, set orders): not a deterministic function of the values")
fire("option-explain-scalar-fast-path", ["C11"], "R-XA", O,
     "            value = get_dotted_key(self.key, options)\n            return (\n                {self.key}\n                | self._template_keys(value, \"explain\", options)",
     "            value = get_dotted_key(self.key, options)\n            if isinstance(value, (int, float)):\n                return {self.key}\n            return (\n                {self.key}\n                | self._template_keys(value, \"explain\", options)",
     note="round 11: the fast path returns before the domain's keys are added, keys() still reports them")
silent("option-explain-scalar-fast-path-with-domain", ["C11"], O,
       "            value = get_dotted_key(self.key, options)\n            return (\n                {self.key}\n                | self._template_keys(value, \"explain\", options)",
       "            value = get_dotted_key(self.key, options)\n            if isinstance(value, (int, float)):\n                return {self.key} | self._domain_explain(options)\n            return (\n                {self.key}\n                | self._template_keys(value, \"explain\", options)",
       note="the same fast path with the domain's keys: numbers carry no templated reference, nothing is lost")
